"""C17, optimizer part: alphabets and the reference side.

* parameter trees are written as plain *specs* (nested dicts); the flax objects
  (nnx Modules, Linen param pytrees) and the reference tables are both derived
  from the spec, the reference without touching nnx;
* the `wrt` alphabet pairs every nnx filter with a plain Python predicate over
  (path, variable type name) which is the oracle for "selected by wrt";
* the gradient pool is three integer-valued gradients per leaf;
* the oracle is the hand-written optax loop (`hand_step`).

flax / jax / optax are imported lazily (inside functions) so that importing this
module in the parent process costs nothing.
"""
from __future__ import annotations

import hashlib

import numpy as np

# --------------------------------------------------------------------------
# optax transformations

TX_QUICK = ['sgd', 'momentum', 'adam', 'adamw', 'clip+adam', 'sgd(schedule)',
            'trace+schedule', 'multisteps2']
TX_THOROUGH = TX_QUICK + ['nesterov', 'rmsprop', 'decay+sgd', 'lamb', 'multisteps2(adam)']


def make_tx(name):
  """A fresh optax transformation.  Step sizes are dyadic so that the sgd
  family stays on exactly representable values (state collisions between
  permuted histories are then real collisions)."""
  import optax
  if name == 'sgd':
    return optax.sgd(0.5)
  if name == 'momentum':
    return optax.sgd(0.5, momentum=0.5)
  if name == 'nesterov':
    return optax.sgd(0.25, momentum=0.5, nesterov=True)
  if name == 'adam':
    return optax.adam(0.125)
  if name == 'adamw':  # needs params
    return optax.adamw(0.125, weight_decay=0.25)
  if name == 'clip+adam':  # max_norm chosen so that pool members 0/1 pass and 2 is clipped
    return optax.chain(optax.clip_by_global_norm(6.0), optax.adam(0.125))
  if name == 'sgd(schedule)':
    return optax.sgd(optax.piecewise_constant_schedule(1.0, {1: 0.5, 2: 0.5, 3: 0.5}))
  if name == 'trace+schedule':
    return optax.chain(optax.trace(decay=0.5),
                       optax.scale_by_schedule(lambda c: -1.0 / (1 + c)))
  if name == 'multisteps2':
    return optax.MultiSteps(optax.sgd(0.5, momentum=0.5), every_k_schedule=2)
  if name == 'multisteps2(adam)':
    return optax.MultiSteps(optax.adam(0.125), every_k_schedule=2)
  if name == 'rmsprop':
    return optax.rmsprop(0.125, momentum=0.5)
  if name == 'decay+sgd':  # needs params
    return optax.chain(optax.add_decayed_weights(0.5), optax.sgd(0.25))
  if name == 'lamb':  # needs params (trust ratio)
    return optax.lamb(0.125)
  raise KeyError(name)


def hand_step(tx, p, s, g):
  """THE oracle: one step of the hand-written optax loop."""
  import optax
  updates, s = tx.update(g, s, p)
  p = optax.apply_updates(p, updates)
  return p, s


# --------------------------------------------------------------------------
# data

def init_value(i, shape):
  n = int(np.prod(shape))
  return ((np.arange(n) * 2 + i) % 5 - 2).astype(np.float32).reshape(shape)


def grad_value(k, i, shape):
  """Pool member k in {0,1,2} for leaf number i of the given shape."""
  n = int(np.prod(shape))
  a = np.arange(n)
  if k == 0:
    v = (a + i) % 3 - 1                  # small, mixed sign, has zeros
  elif k == 1:
    v = np.where((a + i) % 2 == 0, -2, 0)  # zero on every other entry
  else:
    v = 4 * (a + 1 + i)                  # large: clipped by clip_by_global_norm(6)
  return v.astype(np.float32).reshape(shape)


# --------------------------------------------------------------------------
# NNX trees

VAR_KINDS = ('Param', 'LoRALike', 'BatchStat')

NNX_TREES = {
  'single': {'w': ('Param', (2, 3))},
  'dict2': {'a': {'k': ('Param', (2,)), 'b': ('Param', (1, 2))},
            'b': {'k': ('Param', (2, 2))}},
  'model': {'w': ('Param', (2, 3)),
            'sub': {'lora_a': ('LoRALike', (2,)), 'mean': ('BatchStat', (3,)),
                    'v': ('Param', (3,)), 'rate': 0.5},
            'tag': 'm', 'k': 3},
  'list': {'layers': [{'k': ('Param', (2,))},
                      {'k': ('LoRALike', (2,)), 's': ('BatchStat', (1,))}],
           'w': ('Param', (1,)), 'tag': 'l'},
}


def _is_var(v):
  return isinstance(v, tuple) and len(v) == 2 and v[0] in VAR_KINDS


def spec_table(spec):
  """{path: (kind, initial ndarray)} and {path: static value}, from the spec alone."""
  vars_, static = {}, {}

  def walk(s, path):
    items = s.items() if isinstance(s, dict) else enumerate(s)
    for k, v in items:
      if _is_var(v):
        vars_[path + (k,)] = v
      elif isinstance(v, (dict, list)):
        walk(v, path + (k,))
      else:
        static[path + (k,)] = v

  walk(spec, ())
  out = {}
  for i, p in enumerate(sorted(vars_, key=repr)):
    kind, shape = vars_[p]
    out[p] = (kind, init_value(i, shape))
  return out, static


_NNX_CLASSES = {}


def nnx_classes():
  """Variable / Module classes used by the trees (created once per process)."""
  if _NNX_CLASSES:
    return _NNX_CLASSES
  import jax.numpy as jnp
  from flax import nnx

  class LoRALike(nnx.Param):
    """A LoRA-like Param subclass (own class: not nnx.LoRAParam itself)."""

  kinds = {'Param': nnx.Param, 'LoRALike': LoRALike, 'BatchStat': nnx.BatchStat}

  class Node(nnx.Module):
    def __init__(self, spec, table, path=()):
      for k, v in spec.items():
        setattr(self, k, _build(v, table, path + (k,)))

  def _build(v, table, path):
    if _is_var(v):
      return kinds[v[0]](jnp.asarray(table[path][1]))
    if isinstance(v, dict):
      return Node(v, table, path)
    if isinstance(v, list):
      return [_build(x, table, path + (i,)) for i, x in enumerate(v)]
    return v

  _NNX_CLASSES.update(kinds=kinds, Node=Node, LoRALike=LoRALike)
  return _NNX_CLASSES


def build_nnx(tree):
  c = nnx_classes()
  spec = NNX_TREES[tree]
  table, _ = spec_table(spec)
  return c['Node'](spec, table)


# wrt alphabet: name -> (nnx filter factory, predicate(path, kind))
def _param_family(kind):
  return kind in ('Param', 'LoRALike')


WRT = {
  'Param': (lambda nnx, c: nnx.Param,
            lambda path, kind: _param_family(kind)),
  'LoRALike': (lambda nnx, c: c['LoRALike'],
               lambda path, kind: kind == 'LoRALike'),
  'All(Param,PathContains(sub))': (lambda nnx, c: nnx.All(nnx.Param, nnx.PathContains('sub')),
                                   lambda path, kind: _param_family(kind) and 'sub' in path),
  'All(Param,PathContains(a))': (lambda nnx, c: nnx.All(nnx.Param, nnx.PathContains('a')),
                                 lambda path, kind: _param_family(kind) and 'a' in path),
  'All(Param,Not(LoRALike))': (lambda nnx, c: nnx.All(nnx.Param, nnx.Not(c['LoRALike'])),
                               lambda path, kind: kind == 'Param'),
  '(Param,BatchStat)': (lambda nnx, c: (nnx.Param, nnx.BatchStat),
                        lambda path, kind: _param_family(kind) or kind == 'BatchStat'),
}

NNX_CONFIGS_QUICK = [
  ('single', 'Param'),
  ('dict2', 'Param'),
  ('model', 'Param'), ('model', 'LoRALike'), ('model', 'All(Param,PathContains(sub))'),
  ('model', '(Param,BatchStat)'),
]
NNX_CONFIGS_THOROUGH = NNX_CONFIGS_QUICK + [
  ('dict2', 'All(Param,PathContains(a))'),
  ('model', 'All(Param,Not(LoRALike))'),
  ('list', 'Param'), ('list', 'LoRALike'), ('list', '(Param,BatchStat)'),
]


def wrt_filter(name):
  from flax import nnx
  return WRT[name][0](nnx, nnx_classes())


def selected_paths(tree, wrt):
  table, _ = spec_table(NNX_TREES[tree])
  pred = WRT[wrt][1]
  return sorted((p for p, (kind, _) in table.items() if pred(p, kind)), key=repr)


def nest(flat):
  """{path: leaf} -> nested dict (the shape nnx.State.to_pure_dict would have;
  built by hand so the reference does not depend on it)."""
  out = {}
  for p, v in flat.items():
    d = out
    for k in p[:-1]:
      d = d.setdefault(k, {})
    d[p[-1]] = v
  return out


def nnx_ref_params(tree, wrt):
  import jax.numpy as jnp
  table, _ = spec_table(NNX_TREES[tree])
  return nest({p: jnp.asarray(table[p][1]) for p in selected_paths(tree, wrt)})


def nnx_grads(tree, wrt):
  """[ {path: ndarray} for k in 0..2 ]"""
  table, _ = spec_table(NNX_TREES[tree])
  sel = selected_paths(tree, wrt)
  return [{p: grad_value(k, i, table[p][1].shape) for i, p in enumerate(sel)}
          for k in range(3)]


# --------------------------------------------------------------------------
# Linen trees (plain pytrees)

LINEN_TREES_QUICK = ['single', 'dict2', 'frozen2', 'owg']
LINEN_TREES_THOROUGH = LINEN_TREES_QUICK + ['seq', 'frozen-owg']

_L2 = {'a': {'k': (2,), 'b': (1, 2)}, 'b': {'k': (2, 2)}}


def linen_tree(tree, leaf):
  """Build the pytree `tree` calling leaf(i, shape) for leaf number i."""
  from flax.core import freeze
  from flax.linen.fp8_ops import OVERWRITE_WITH_GRADIENT as OWG
  cnt = [0]

  def mk(shape):
    i = cnt[0]
    cnt[0] += 1
    return leaf(i, shape)

  def two():
    return {'a': {'b': mk((1, 2)), 'k': mk((2,))}, 'b': {'k': mk((2, 2))}}

  if tree == 'single':  # a single array (TrainState.params is documented as a str-keyed
    # mapping: `OVERWRITE_WITH_GRADIENT in params` is evaluated on it, so a bare
    # array is outside the documented domain)
    return {'w': mk((2, 3))}
  if tree == 'dict2':
    return two()
  if tree == 'frozen2':
    return freeze(two())
  if tree == 'owg':
    return {'params': two(), OWG: {'scale': mk((2,)), 'amax': mk((1,))}}
  if tree == 'frozen-owg':
    return freeze({'params': two(), OWG: {'scale': mk((2,))}})
  if tree == 'seq':
    return {'a': [mk((2,)), mk((1, 2))], 'b': (mk((3,)),)}
  raise KeyError(tree)


def is_owg(tree):
  return tree in ('owg', 'frozen-owg')


# --------------------------------------------------------------------------
# canonical forms

def leaf_sig(x):
  a = np.asarray(x)
  return (str(a.dtype), tuple(a.shape), np.ascontiguousarray(a).tobytes())


def leaves_sig(tree):
  """[(keystr, dtype, shape, bytes)] of a pytree of arrays, in flatten order."""
  import jax
  flat, _ = jax.tree_util.tree_flatten_with_path(tree)
  return [(jax.tree_util.keystr(kp),) + leaf_sig(v) for kp, v in flat]


def state_key(param_sigs, opt_sigs, step):
  hsh = hashlib.sha1()
  for part in (param_sigs, opt_sigs):
    for s in part:
      hsh.update(repr(s[:-1]).encode())
      hsh.update(s[-1])
    hsh.update(b'|')
  hsh.update(str(int(step)).encode())
  return hsh.hexdigest()[:16]


def diff_sigs(obs, exp):
  """First difference between two signature lists, as text (None if equal)."""
  if len(obs) != len(exp):
    return f'{len(obs)} leaves, expected {len(exp)}: {[s[0] for s in obs]} vs {[s[0] for s in exp]}'
  for o, e in zip(obs, exp):
    if o[:-1] != e[:-1]:
      return f'leaf {o[0]}: (path,dtype,shape) {o[:-1]} expected {e[:-1]}'
    if o[-1] != e[-1]:
      ao = np.frombuffer(o[-1], dtype=o[1]) if o[1] != 'bfloat16' else o[-1]
      ae = np.frombuffer(e[-1], dtype=e[1]) if e[1] != 'bfloat16' else e[-1]
      return f'leaf {o[0]}: value {np.asarray(ao).tolist()} expected {np.asarray(ae).tolist()}'
  return None
