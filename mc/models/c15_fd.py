"""C15 helpers, FrozenDict part: source-dict specs, builders, the plain-Python
reference model of "the contents a FrozenDict was built with", canonical forms.

A *spec* is JSON-able: a dict node is a list of [key, spec] pairs (insertion
order = list order); a leaf is a one-letter string:

  'i' int             'j' int (value used by src mutations, differs from 'i')
  'A' array shape (1,) float32          'L' list [n, 0]        'T' tuple (n, 0)
  'F' FrozenDict({'x': {'y': n}})       'E' empty (mutable) dict

Leaf values are a function of (path, kind, multiplier) only, so a spec denotes
one value; nothing in this file calls the code under test except `build_src`
which needs real FrozenDict objects for the 'F' leaves.
"""
from __future__ import annotations

import itertools

import numpy as np

LEAVES = ['i', 'A', 'L', 'T', 'F', 'E']
UNHASHABLE = {'A', 'L'}
_DIG = {'a': 1, 'b': 2, 'c': 3, 'n': 4, 'm': 5, 'r': 6, 'x': 7, 'y': 8, 'z': 9, 'w': 0}


def code(path, mult=1):
  n = 0
  for k in path:
    n = n * 10 + _DIG[k]
  return (n + 1) * mult


# ------------------------------------------------------------------ enumeration


def _size(d):
  if isinstance(d, str):
    return 0
  return sum(1 + _size(v) for _, v in d)


def depth(d):
  if isinstance(d, str):
    return 0
  return 1 + max([depth(v) for _, v in d], default=0)


def gen(dep, budget, leaves=LEAVES, keys=('a', 'b')):
  """All dict specs of depth <= dep with <= 2 keys per level (subsets of `keys`
  in the order given) and at most `budget` keys in total.  The empty dict in a
  value position is the leaf 'E'."""
  def vals(d, b):
    vs = [(l, 0) for l in leaves]
    if d > 0 and b > 0:
      for s in gen(d, b, leaves, keys):
        if s:
          vs.append((s, _size(s)))
    return vs

  out = [[]]
  if budget >= 1:
    for k in keys:
      for v, _ in vals(dep - 1, budget - 1):
        out.append([[k, v]])
  if budget >= 2:
    for v1, s1 in vals(dep - 1, budget - 2):
      for v2, _ in vals(dep - 1, budget - 2 - s1):
        out.append([[keys[0], v1], [keys[1], v2]])
  return out


def chains():
  """Deep single-key chains a:{a:{...leaf}} of depth 3..5 (with and without a
  sibling empty dict next to the leaf): for copies that stop after k levels."""
  out = []
  for d in (3, 4, 5):
    for lf in ('E', 'F', 'L'):
      for sib in (False, True):
        node = [['a', lf]] + ([['b', 'E']] if sib else [])
        for _ in range(d - 1):
          node = [['a', node]]
        out.append(node)
  return out


def sources(tier):
  """quick: every dict of depth <= 2 (3025) + 18 deep chains.  thorough: plus
  every dict of depth exactly 3 with at most 5 keys in total (5088)."""
  base = gen(2, 6)
  if tier != 'quick':
    base = base + [s for s in gen(3, 5) if depth(s) == 3]
  seen = {skey(s) for s in base}
  return base + [c for c in chains() if skey(c) not in seen]


def tup(spec):
  if isinstance(spec, str):
    return spec
  return tuple((k, tup(v)) for k, v in spec)


def skey(spec):
  """Order-insensitive canonical key of a spec."""
  if isinstance(spec, str):
    return spec
  return tuple(sorted((k, skey(v)) for k, v in spec))


def show(spec):
  if isinstance(spec, str):
    return spec
  return '{' + ','.join(f'{k}:{show(v)}' for k, v in spec) + '}'


def has_nested(spec):
  """True when some value position holds a plain dict or a FrozenDict (aliasing
  is possible at all)."""
  return any(not isinstance(v, str) or v in ('E', 'F') for _, v in spec)


def kinds(spec, out=None):
  out = set() if out is None else out
  if isinstance(spec, str):
    out.add(spec)
  else:
    for _, v in spec:
      kinds(v, out)
  return out


def hashable(spec):
  return not (kinds(spec) & UNHASHABLE)


def orderings(spec):
  """Every insertion order of every dict node (product over nodes)."""
  if isinstance(spec, str):
    return [spec]
  subs = [orderings(v) for _, v in spec]
  out = []
  for combo in itertools.product(*subs):
    items = [[k, c] for (k, _), c in zip(spec, combo)]
    for p in itertools.permutations(items):
      out.append(list(p))
  return out


# ------------------------------------------------------------------ spec edits


def dict_paths(spec, prefix=()):
  """Paths of the plain-dict nodes of a source spec (the mutable positions)."""
  out = [prefix]
  for k, v in spec:
    if not isinstance(v, str):
      out.extend(dict_paths(v, prefix + (k,)))
    elif v == 'E':
      out.append(prefix + (k,))
  return out


def node_at(spec, path):
  for k in path:
    spec = dict(spec)[k] if not isinstance(spec, str) else None
  return [] if spec == 'E' else spec


def copy_spec(spec):
  if isinstance(spec, str):
    return spec
  return [[k, copy_spec(v)] for k, v in spec]


NEWDICT = [['z', 'i']]


def mutations(spec, rich):
  """The src-mutation alphabet in a state: for every plain dict node, for every
  key: replace the value by a fresh nested dict, delete the key; add key 'c'.
  rich (thorough) adds: replace by an int, add 'c' holding a fresh dict."""
  out = []
  for p in dict_paths(spec):
    node = node_at(spec, p)
    for k, _ in node:
      out.append(['set', list(p), k, 'N'])
      if rich:
        out.append(['set', list(p), k, 'j'])
      out.append(['del', list(p), k, None])
    if 'c' not in dict(node):
      out.append(['add', list(p), 'c', 'j'])
      if rich:
        out.append(['add', list(p), 'c', 'N'])
  return out


def _val_spec(v):
  return copy_spec(NEWDICT) if v == 'N' else v


def mutate_spec(spec, mut):
  """Pure model of a source mutation; returns a new spec."""
  op, path, k, v = mut
  spec = copy_spec(spec)

  def rec(node, path):
    # returns the new node
    if node == 'E':
      node = []
    if not path:
      if op == 'set':
        return [[kk, _val_spec(v) if kk == k else vv] for kk, vv in node]
      if op == 'del':
        return [[kk, vv] for kk, vv in node if kk != k] or []
      return node + [[k, _val_spec(v)]]
    return [[kk, rec(vv, path[1:]) if kk == path[0] else vv] for kk, vv in node]

  new = rec(spec, list(path))
  return _norm(new, top=True)


def _norm(spec, top=False):
  if isinstance(spec, str):
    return spec
  if not spec and not top:
    return 'E'
  return [[k, _norm(v)] for k, v in spec]


def mutate_live(src, mut, mult, mkarr):
  """The same mutation on the live source object."""
  op, path, k, v = mut
  node = src
  for p in path:
    node = node[p]
  if op == 'del':
    del node[k]
  else:
    node[k] = build_src(_val_spec(v), tuple(path) + (k,), mult, mkarr)


# ------------------------------------------------------------------ builders


def leaf(kind, path, mult, mkarr):
  n = code(path, mult)
  if kind == 'i':
    return n
  if kind == 'j':
    return -n
  if kind == 'A':
    return mkarr(n)
  if kind == 'L':
    return [n, 0]
  if kind == 'T':
    return (n, 0)
  raise ValueError(kind)


def build_src(spec, path, mult, mkarr):
  """Live source object: plain dicts, real FrozenDict for 'F'."""
  if isinstance(spec, str):
    if spec == 'E':
      return {}
    if spec == 'F':
      from flax.core import FrozenDict
      return FrozenDict({'x': {'y': code(path + ('x', 'y'), mult)}})
    return leaf(spec, path, mult, mkarr)
  return {k: build_src(v, path + (k,), mult, mkarr) for k, v in spec}


def plain(spec, path, mult, mkarr):
  """Reference model of the *contents*: nested plain dicts all the way down
  (a FrozenDict value is, as contents, its items)."""
  if isinstance(spec, str):
    if spec == 'E':
      return {}
    if spec == 'F':
      return {'x': {'y': code(path + ('x', 'y'), mult)}}
    return leaf(spec, path, mult, mkarr)
  return {k: plain(v, path + (k,), mult, mkarr) for k, v in spec}


# ------------------------------------------------------------------ canonical forms


def leaf_sig(x):
  t = type(x)
  if t is int or t is float or t is str or t is bool or x is None:
    return (t.__name__, x)
  if t is list:
    return ('L', tuple([leaf_sig(v) for v in x]))
  if t is tuple:
    return ('T', tuple([leaf_sig(v) for v in x]))
  if hasattr(x, 'dtype') and hasattr(x, 'shape'):
    a = np.asarray(x)
    return ('A', a.dtype.str, a.shape, a.tobytes())
  return ('?', t.__name__, repr(x))


def canon(x, FrozenDict, typed=False, raw=True):
  """Canonical contents of a nested mapping; keys sorted.  typed=True tags dict
  vs FrozenDict.  raw=False reads a FrozenDict only through its public Mapping
  interface (`for k in m`, `m[k]`, which re-wraps and copies at every level);
  raw=True reads the private storage `_dict` when it exists (the anchor named
  by the property; 3x cheaper) and falls back to the public interface."""
  t = type(x)
  if t is dict:
    return ('D' if typed else 'M',
            tuple([(k, canon(x[k], FrozenDict, typed, raw)) for k in sorted(x)]))
  if t is FrozenDict:
    if raw:
      d = getattr(x, '_dict', None)
      if type(d) is dict:
        return ('F' if typed else 'M',
                tuple([(k, canon(d[k], FrozenDict, typed, raw)) for k in sorted(d)]))
    return ('F' if typed else 'M',
            tuple([(k, canon(x[k], FrozenDict, typed, raw)) for k in sorted(x)]))
  if t is list or t is tuple or t is int:
    return leaf_sig(x)
  if isinstance(x, FrozenDict):
    return ('F' if typed else 'M',
            tuple([(k, canon(x[k], FrozenDict, typed, False)) for k in sorted(x)]))
  if isinstance(x, dict):
    return ('D' if typed else 'M',
            tuple([(k, canon(x[k], FrozenDict, typed, raw)) for k in sorted(x)]))
  return leaf_sig(x)


def model_paths(p, prefix=()):
  """All key paths of a plain model (every position reachable by indexing)."""
  out = []
  for k, v in p.items():
    out.append(prefix + (k,))
    if isinstance(v, dict):
      out.extend(model_paths(v, prefix + (k,)))
  return out


def at(p, path):
  for k in path:
    p = p[k]
  return p


def map_leaves(f, p):
  """tree_map model: dict / list / tuple are nodes."""
  if isinstance(p, dict):
    return {k: map_leaves(f, v) for k, v in p.items()}
  if isinstance(p, list):
    return [map_leaves(f, v) for v in p]
  if isinstance(p, tuple):
    return tuple(map_leaves(f, v) for v in p)
  return f(p)


def state_dict_model(p):
  """flax.serialization.to_state_dict of nested dict / list / tuple data."""
  if isinstance(p, dict):
    return {k: state_dict_model(v) for k, v in p.items()}
  if isinstance(p, (list, tuple)):
    return {str(i): state_dict_model(v) for i, v in enumerate(p)}
  return p


def plain_dicts(x, out):
  """All plain dict objects on dict-in-dict chains of x (never looks inside a
  FrozenDict, never inside list / tuple leaves: DESIGN §0.3)."""
  if type(x) is dict or isinstance(x, dict):
    out.append(x)
    for v in x.values():
      plain_dicts(v, out)
  return out


def scribble(x):
  """Mutate every plain dict on the dict-in-dict chains of x: children first,
  then delete every key and add one."""
  if isinstance(x, dict):
    for v in list(x.values()):
      scribble(v)
    x.clear()
    x['__scribble__'] = {'s': 1}
