"""C18 — the family of wrapped modules (Linen and NNX twins of each other).

Every member exists in both APIs with (nearly) the same arithmetic; the
oracle of a wrapper is always the plain, never bridged module of the wrapped
API:

  feats  subset of {'bn', 'rng', 'part', 'lpart'}
    ()       stateless Dense-like: y = x @ w + k
    'bn'     running statistic `mean` in 'batch_stats' (train: mean += column
             sums of y) and a call counter in a custom collection / Variable type
    'rng'    train: y *= 2 * bernoulli(dropout key)
    'part'   w (and mean) carry sharding names: Linen nn.with_partitioning
             (nn.Partitioned box) / NNX nnx.with_partitioning (metadata)
    'lpart'  NNX side only: nnx.bridge.with_partitioning (linen_meta_type=
             nn.Partitioned, so ToLinen exposes an nn.Partitioned box)
    'twin'   Linen side only: the variable name 'w' is used in 'params' and
             in 'batch_stats' (legal in Linen; one configuration only)
    'dyn'    NNX side only: a train call flips a static attribute (graphdef
             data) that later outputs depend on
  depth  0..2 levels of pass-through nesting (each level owns a param `g`,
         and with 'bn' a float counter `seen` in 'batch_stats')

All data are small integers in float32: every product / sum is exact, so
"equal" is bitwise.  `w`, `g`, `b` are constant ramps (independent of the
key), `k` is an integer-valued function of the key, which makes the key an
initialiser received observable.
"""
from __future__ import annotations

import jax
import jax.numpy as jnp
import numpy as np
from flax import linen as nn
from flax import nnx
from flax.nnx import bridge

DIN, DOUT = 3, 2


def ramp(shape, start):
  n = int(np.prod(shape)) if len(shape) else 1
  return (jnp.arange(n, dtype=jnp.float32) % 5 + start).reshape(shape)


def const_init(start):
  def init(key, shape, dtype=jnp.float32):
    del key, dtype
    return ramp(shape, start)
  return init


def key_init(key, shape, dtype=jnp.float32):
  del dtype
  return jax.random.randint(key, shape, 0, 8).astype(jnp.float32)


def zeros_f32(shape):
  return jnp.zeros(shape, jnp.float32)


def _colsum(y):
  return y.reshape(-1, y.shape[-1]).sum(0)


def _mask(key, y):
  return jax.random.bernoulli(key, 0.5, y.shape).astype(jnp.float32) * 2.


# --------------------------------------------------------------------------
# Linen family


class LMod(nn.Module):
  feats: tuple = ()

  def setup(self):
    part = 'part' in self.feats
    winit = const_init(1.)
    if part:
      winit = nn.with_partitioning(winit, ('in', 'out'))
    self.w = self.param('w', winit, (DIN, DOUT))
    self.k = self.param('k', key_init, (DOUT,))
    if 'bn' in self.feats:
      minit = zeros_f32
      if part:
        minit = nn.with_partitioning(minit, ('out',))
      self.mean = self.variable('batch_stats', 'mean', minit, (DOUT,))
      self.n = self.variable('counter', 'n', lambda: jnp.zeros((), jnp.int32))
    if 'twin' in self.feats:
      # legal Linen: the name 'w' again, in another collection
      self.w_stat = self.variable('batch_stats', 'w', lambda: ramp((DOUT,), 4.))

  def __call__(self, x, train=False):
    y = x @ self.w + self.k
    if 'twin' in self.feats:
      y = y + self.w_stat.value
    if 'rng' in self.feats and train:
      y = y * _mask(self.make_rng('dropout'), y)
    if 'bn' in self.feats:
      if train:
        self.mean.value = self.mean.value + _colsum(y)
      if self.is_mutable_collection('counter'):
        self.n.value = self.n.value + 1
      y = y + self.mean.value
    return y

  def other(self, x):
    y = (x @ self.w) * 3.
    if 'bn' in self.feats:
      y = y - self.mean.value
    return y


class LNest(nn.Module):
  inner: nn.Module
  feats: tuple = ()

  def setup(self):
    self.g = self.param('g', const_init(2.), (DOUT,))
    if 'bn' in self.feats:
      self.seen = self.variable('batch_stats', 'seen', zeros_f32, ())

  def __call__(self, x, train=False):
    if 'bn' in self.feats and train:
      self.seen.value = self.seen.value + 1.
    y = self.inner(x, train=train) + self.g
    if 'bn' in self.feats:
      y = y + self.seen.value
    return y

  def other(self, x):
    return self.inner.other(x) - self.g


def make_linen(feats, depth):
  feats = tuple(feats)
  m = LMod(feats)
  for _ in range(depth):
    m = LNest(m, feats)
  return m


# --------------------------------------------------------------------------
# NNX family (same arithmetic)


class Count(nnx.Variable):
  """A user Variable type with no registered collection name."""


class NMod(nnx.Module):

  def __init__(self, feats, *, rngs):
    self.feats = feats = tuple(feats)
    winit = const_init(1.)
    sh = {}
    if 'part' in feats:
      winit = nnx.with_partitioning(winit, ('in', 'out'))
      sh = dict(sharding=('out',))
    elif 'lpart' in feats:
      winit = bridge.with_partitioning(winit, ('in', 'out'))
    self.w = nnx.Param(winit(rngs.params(), (DIN, DOUT)))
    self.k = nnx.Param(key_init(rngs.params(), (DOUT,)))
    if 'bn' in feats:
      self.mean = nnx.BatchStat(zeros_f32((DOUT,)), **sh)
      self.n = Count(jnp.zeros((), jnp.int32))
    if 'rng' in feats:
      self.rngs = rngs
    if 'dyn' in feats:
      self.trained = False  # static (graphdef) data that a train call changes

  def __call__(self, x, train=False, alt=False):
    if 'dyn' in self.feats and train:
      self.trained = True
    if alt:
      return self.other(x)
    y = x @ self.w.value + self.k.value
    if 'dyn' in self.feats and self.trained:
      y = y + 10.
    if 'rng' in self.feats and train:
      y = y * _mask(self.rngs.dropout(), y)
    if 'bn' in self.feats:
      if train:
        self.mean.value = self.mean.value + _colsum(y)
        self.n.value = self.n.value + 1
      y = y + self.mean.value
    return y

  def other(self, x):
    y = (x @ self.w.value) * 3.
    if 'bn' in self.feats:
      y = y - self.mean.value
    if 'dyn' in self.feats and self.trained:
      y = y + 20.
    return y


class NNest(nnx.Module):

  def __init__(self, feats, depth, *, rngs):
    self.feats = feats = tuple(feats)
    self.inner = NMod(feats, rngs=rngs) if depth == 1 else NNest(feats, depth - 1, rngs=rngs)
    self.g = nnx.Param(ramp((DOUT,), 2.))
    if 'bn' in feats:
      self.seen = nnx.BatchStat(zeros_f32(()))

  def __call__(self, x, train=False, alt=False):
    if alt:
      return self.other(x)
    if 'bn' in self.feats and train:
      self.seen.value = self.seen.value + 1.
    y = self.inner(x, train=train) + self.g.value
    if 'bn' in self.feats:
      y = y + self.seen.value
    return y

  def other(self, x):
    return self.inner.other(x) - self.g.value


def nnx_ctor(feats, depth):
  """(class, positional args) of the NNX member; `rngs=` is added by the caller."""
  feats = tuple(feats)
  if depth == 0:
    return NMod, (feats,)
  return NNest, (feats, depth)


# --------------------------------------------------------------------------
# parents of the other API


class NParent(nnx.Module):
  """NNX parent holding ToNNX(linen member); shares its Rngs with the wrapper."""

  def __init__(self, linen_module, *, rngs):
    self.inner = bridge.ToNNX(linen_module, rngs=rngs)
    self.b = nnx.Param(ramp((DOUT,), 3.))
    self.calls = nnx.BatchStat(jnp.zeros((), jnp.int32))
    self.rngs = rngs

  def __call__(self, x, **kw):
    self.calls.value = self.calls.value + 1
    return self.inner(x, **kw) + self.b.value

  def other(self, x, **kw):
    return self.inner(x, method='other', **kw) * 2.


class LParent(nn.Module):
  """Linen parent holding to_linen(NNX member) as child 'inner'."""
  feats: tuple = ()
  depth: int = 0

  @nn.compact
  def __call__(self, x, **kw):
    cls, args = nnx_ctor(self.feats, self.depth)
    inner = bridge.to_linen(cls, *args, name='inner')
    b = self.param('b', const_init(3.), (DOUT,))
    calls = self.variable('batch_stats', 'calls', lambda: jnp.zeros((), jnp.int32))
    if self.is_mutable_collection('batch_stats') and not self.is_initializing():
      calls.value = calls.value + 1
    return inner(x, **kw) + b


# --------------------------------------------------------------------------
# what key does Linen hand to a module at a given position?  (plain Linen,
# no bridge code: the oracle for the keys ToLinen must pass on to NNX)


class RngProbe(nn.Module):
  names: tuple = ()

  def __call__(self):
    return {n: self.make_rng(n) for n in self.names}


class ProbeParent(nn.Module):
  names: tuple = ()

  @nn.compact
  def __call__(self):
    return RngProbe(self.names, name='inner')()


def linen_keys_at(parent, rngs):
  """Keys `make_rng` yields (first draw) in the root scope / in child 'inner'."""
  if not rngs:
    return {}
  names = tuple(sorted(rngs))
  probe = ProbeParent(names) if parent else RngProbe(names)
  return probe.apply({}, rngs=dict(rngs))
