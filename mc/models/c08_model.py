"""C08 helpers: a tiny world description (Variables by id, module structures that
reference them, axis prefixes written in a JSON filter mini-language), builders
that turn it into real nnx objects, an *independent* evaluator of the filter
mini-language (first match wins), generic body functions, and the reference
computations (per-index call / Python loop / jax.grad over plain value dicts).

Nothing here calls nnx.vmap / nnx.scan / nnx.grad / nnx.split / nnx.merge: the
reference side only constructs Modules / Variables from plain arrays, calls the
untransformed body eagerly and reads `.value`.

JSON forms
  filter  : ['T', name] | ['P', key] | ['tag', s] | ['any', f..] (tuple) |
            ['Any', f..] | ['all', f..] | ['not', f] | ['...']
  axis    : int | None | 'C'
  modspec : {attr: vid | modspec}
  arg     : ['m', modspec] | ['x'] | ['h'] | ['t', [arg..]] | ['d', {k: arg}]
  prefix  : axis | ['sa', [[filter, axis]..], form] | ['t', [prefix..]] | ['d', {k: prefix}]
  world   : {vid: [type name, shape list, 'f'|'i']}
"""
from __future__ import annotations

import numpy as np

_L: dict = {}


def lazy():
  if _L:
    return _L
  import jax
  import jax.numpy as jnp
  from flax import nnx

  class PSub(nnx.Param):
    pass

  class Count(nnx.Variable):
    pass

  class Box(nnx.Module):
    def __init__(self, **kw):
      for k, v in kw.items():
        setattr(self, k, v)

  _L.update(jax=jax, jnp=jnp, nnx=nnx, PSub=PSub, Count=Count, Box=Box)
  _L['TYPES'] = dict(Param=nnx.Param, PSub=PSub, BatchStat=nnx.BatchStat, Count=Count,
                     RngState=nnx.RngState, RngKey=nnx.RngKey, RngCount=nnx.RngCount,
                     Variable=nnx.Variable)
  return _L


# ---------------------------------------------------------------------------
# independent filter evaluation

SUPER = dict(
  PSub=('PSub', 'Param', 'Variable'), Param=('Param', 'Variable'),
  BatchStat=('BatchStat', 'Variable'), Count=('Count', 'Variable'),
  RngKey=('RngKey', 'RngState', 'Variable'), RngCount=('RngCount', 'RngState', 'Variable'))


def pred(f, path, typ, tag=None):
  k = f[0]
  if k == 'T':
    return f[1] in SUPER[typ]
  if k == 'P':
    return f[1] in path
  if k == 'tag':
    return tag is not None and tag == f[1]
  if k in ('any', 'Any'):
    return any(pred(g, path, typ, tag) for g in f[1:])
  if k == 'all':
    return all(pred(g, path, typ, tag) for g in f[1:])
  if k == 'not':
    return not pred(f[1], path, typ, tag)
  if k == '...':
    return True
  raise ValueError(f)


def first_match(pairs, path, typ, tag=None):
  """axis of the first (filter, axis) pair that matches; raises KeyError if none."""
  for f, a in pairs:
    if pred(f, path, typ, tag):
      return a
  raise KeyError(path)


def to_filter(f):
  L = lazy()
  nnx = L['nnx']
  k = f[0]
  if k == 'T':
    return L['TYPES'][f[1]]
  if k == 'P':
    return nnx.PathContains(f[1])
  if k == 'tag':
    return f[1]
  if k == 'any':
    return tuple(to_filter(g) for g in f[1:])
  if k == 'Any':
    return nnx.Any(*[to_filter(g) for g in f[1:]])
  if k == 'all':
    return nnx.All(*[to_filter(g) for g in f[1:]])
  if k == 'not':
    return nnx.Not(to_filter(f[1]))
  if k == '...':
    return ...
  raise ValueError(f)


def to_axis(a):
  return lazy()['nnx'].Carry if a == 'C' else a


# ---------------------------------------------------------------------------
# structures


def mod_leaves(ms, prefix=()):
  """[(path, vid)] of a modspec in sorted attribute order."""
  out = []
  for k in sorted(ms):
    v = ms[k]
    if isinstance(v, dict):
      out.extend(mod_leaves(v, prefix + (k,)))
    else:
      out.append((prefix + (k,), v))
  return out


def arg_modules(arg, key=()):
  """[(pytree key path inside the argument, modspec)] for every module leaf."""
  k = arg[0]
  if k == 'm':
    return [(key, arg[1])]
  if k == 't':
    out = []
    for i, a in enumerate(arg[1]):
      out.extend(arg_modules(a, key + (i,)))
    return out
  if k == 'd':
    out = []
    for kk in sorted(arg[1]):
      out.extend(arg_modules(arg[1][kk], key + (kk,)))
    return out
  return []


def prefix_at(prefix, key):
  """The prefix that applies at pytree key path `key` (prefix broadcasting)."""
  for kk in key:
    if isinstance(prefix, list) and prefix and prefix[0] == 't':
      prefix = prefix[1][kk]
    elif isinstance(prefix, list) and prefix and prefix[0] == 'd':
      prefix = prefix[1][kk]
    else:
      break
  return prefix


def is_sa(p):
  return isinstance(p, list) and p and p[0] == 'sa'


def var_axes(world, args, in_axes, tags=None):
  """{vid: set of axes the prefixes assign to it}, via every path that reaches it."""
  out = {}
  for ai, arg in enumerate(args):
    for key, ms in arg_modules(arg):
      p = prefix_at(in_axes[ai], key)
      for path, vid in mod_leaves(ms):
        if is_sa(p):
          a = first_match(p[1], path, world[vid][0], (tags or {}).get(vid))
        else:
          a = p
        out.setdefault(vid, set()).add(a)
  return out


def build_vars(world, values):
  """vid -> fresh Variable holding values[vid]."""
  L = lazy()
  jnp = L['jnp']
  out = {}
  for vid, (typ, shp, dt) in world.items():
    out[vid] = L['TYPES'][typ](jnp.asarray(values[vid]))
  return out


def build_mod(ms, vars_):
  Box = lazy()['Box']
  kw = {}
  for k in sorted(ms):
    v = ms[k]
    kw[k] = build_mod(v, vars_) if isinstance(v, dict) else vars_[v]
  return Box(**kw)


def build_arg(arg, vars_, x=None, h=None, cache=None, x2=None):
  """Modules with equal modspec *object identity* are not shared; sharing of
  whole modules is expressed with ['m', spec, name]: same name -> same object."""
  k = arg[0]
  if k == 'm':
    if len(arg) > 2 and cache is not None:
      if arg[2] not in cache:
        cache[arg[2]] = build_mod(arg[1], vars_)
      return cache[arg[2]]
    return build_mod(arg[1], vars_)
  if k == 'x':
    return x
  if k == 'h':
    return h
  if k == 'x2':
    return x2
  if k == 't':
    return tuple(build_arg(a, vars_, x, h, cache, x2) for a in arg[1])
  if k == 'd':
    return {kk: build_arg(a, vars_, x, h, cache, x2) for kk, a in arg[1].items()}
  raise ValueError(arg)


def build_prefix(p, state_paths=None):
  L = lazy()
  nnx = L['nnx']
  if is_sa(p):
    pairs = [(to_filter(f), to_axis(a)) for f, a in p[1]]
    form = p[2] if len(p) > 2 else 'dict'
    if form == 'dict':
      return nnx.StateAxes(dict(pairs))
    if form == 'pairs':
      return nnx.StateAxes(pairs)
    raise ValueError(form)
  if isinstance(p, list) and p and p[0] == 't':
    return tuple(build_prefix(q) for q in p[1])
  if isinstance(p, list) and p and p[0] == 'd':
    return {k: build_prefix(q) for k, q in p[1].items()}
  return to_axis(p)


def build_prefix_for(p, arg, world):
  """like build_prefix, but realises the 'state' form of a StateAxes: an nnx.State
  of per-path axes (StateAxes(State) -> one PathIn filter per axis)."""
  nnx = lazy()['nnx']
  if is_sa(p) and len(p) > 2 and p[2] == 'state':
    assert arg[0] == 'm', arg
    nested = {}
    for path, vid in mod_leaves(arg[1]):
      a = first_match(p[1], path, world[vid][0])
      d = nested
      for k in path[:-1]:
        d = d.setdefault(k, {})
      d[path[-1]] = to_axis(a)
    return nnx.StateAxes(nnx.State(nested))
  if isinstance(p, list) and p and p[0] == 't' and arg[0] == 't':
    return tuple(build_prefix_for(q, a, world) for q, a in zip(p[1], arg[1]))
  if isinstance(p, list) and p and p[0] == 'd' and arg[0] == 'd':
    return {k: build_prefix_for(q, arg[1][k], world) for k, q in p[1].items()}
  return build_prefix(p)


def get_path(obj, path):
  for k in path:
    obj = obj[k] if isinstance(obj, (tuple, list, dict)) else getattr(obj, k)
  return obj


def leaf_vars(args_spec, args):
  """[(arg index, key path, var path, vid, Variable)] in deterministic order,
  one entry per *path* (a shared Variable appears once per path)."""
  out = []
  for ai, arg in enumerate(args_spec):
    for key, ms in arg_modules(arg):
      mod = get_path(args[ai], key)
      for path, vid in mod_leaves(ms):
        out.append((ai, key, path, vid, get_path(mod, path)))
  return out


# ---------------------------------------------------------------------------
# data: integer valued, strictly increasing with the index in every element

_OFF = [(1, 1), (2, 1), (1, 2), (3, 1)]  # (base offset, step) per seed member


def base_value(vid, idx_in_world, shp, dt, member):
  off, step = _OFF[member % len(_OFF)]
  size = int(np.prod(shp)) if shp else 1
  a = (np.arange(size) % 3 + off + idx_in_world).reshape(shp)
  return a.astype(np.float32 if dt == 'f' else np.int32)


def index_value(base, i, idx_in_world, member):
  off, step = _OFF[member % len(_OFF)]
  return (base + i * (step + idx_in_world % 2)).astype(base.dtype)


def init_values(world, axes, n, member):
  """per-index initial values (list over i) and the stacked initial value per vid.
  axes: {vid: int | None | 'C'}."""
  per, stacked = {}, {}
  for j, vid in enumerate(sorted(world)):
    typ, shp, dt = world[vid]
    b = base_value(vid, j, tuple(shp), dt, member)
    a = axes[vid]
    if isinstance(a, int):
      sl = [index_value(b, i, j, member) for i in range(n)]
      per[vid] = sl
      stacked[vid] = np.stack(sl, axis=a if a >= 0 else a + b.ndim + 1)
    else:
      per[vid] = [b] * n
      stacked[vid] = b
  return per, stacked


def x_values(n, member, shape=(2,)):
  off, step = _OFF[member % len(_OFF)]
  b = (np.arange(int(np.prod(shape))).reshape(shape) + off).astype(np.float32)
  return [b + i * step for i in range(n)]


# ---------------------------------------------------------------------------
# bodies (shared by implementation run and reference run)

COEF = [2, 3, 5, 7, 1, 4, 6, 8, 9, 10]


def red(v):
  """reduce a value to shape (2,) float32 (all shapes here have leading dim 2)."""
  jnp = lazy()['jnp']
  v = jnp.asarray(v)
  if v.ndim > 1:
    v = v.reshape(v.shape[0], -1).sum(-1)
  return v.astype(jnp.float32)


def bcast(r, like):
  """(2,) -> shape of `like` (leading dim 2), dtype of like."""
  jnp = lazy()['jnp']
  like = jnp.asarray(like)
  r = r.reshape((2,) + (1,) * (like.ndim - 1))
  return jnp.broadcast_to(r, like.shape).astype(like.dtype)


def make_body(args_spec, world, kind, out_form, has_h=False, h_first=True, carry_mod=None,
              nowrite=()):
  """Generic body over the argument structure.

  reads every variable through every path (distinct coefficient per path);
  writes by `kind`:
    ro   - nothing
    inc  - Count += 1, BatchStat += 1        (index independent)
    dep  - Count += 1, BatchStat += red(x)   (index dependent iff x is mapped)
    wall - Param/PSub <- 2*v + red(x), BatchStat += red(first Param read), Count += 1
  """
  L = lazy()
  jnp = L['jnp']
  nnx = L['nnx']
  Box, Count = L['Box'], L['Count']

  def body(*args):
    x = h = x2 = None
    for a, s in zip(args, args_spec):
      if s[0] == 'x':
        x = a
      elif s[0] == 'h':
        h = a
      elif s[0] == 'x2':
        x2 = a
    lv = leaf_vars(args_spec, args)
    xr = red(x) if x is not None else jnp.ones((2,), jnp.float32)
    if x2 is not None:
      xr = xr + 3 * red(x2)
    acc = xr
    first_param = None
    for j, (ai, key, path, vid, var) in enumerate(lv):
      r = red(var.value)
      if first_param is None and world[vid][0] in ('Param', 'PSub'):
        first_param = r
      acc = acc + COEF[j % len(COEF)] * r
    if first_param is None:
      first_param = jnp.ones((2,), jnp.float32)
    if kind != 'ro':
      for ai, key, path, vid, var in lv:
        t = world[vid][0]
        if vid in nowrite:
          continue
        if t == 'Count':
          var.value = var.value + 1
        elif t == 'BatchStat':
          if kind == 'inc':
            var.value = var.value + 1
          elif kind == 'dep':
            var.value = var.value + bcast(xr, var.value)
          else:
            var.value = var.value + bcast(first_param, var.value)
        elif t in ('Param', 'PSub') and kind == 'wall':
          var.value = var.value * 2 + bcast(xr, var.value)
    z = jnp.zeros((2,), jnp.int32)
    for ai, key, path, vid, var in lv:
      if world[vid][0] == 'Count':
        z = z + var.value.reshape(2, -1).sum(-1).astype(jnp.int32)
    y = acc
    if h is not None:
      y = y + h
      h = h * 2 + acc
    if out_form == 'y':
      out = y
    elif out_form == 'yz':
      out = (y, z)
    elif out_form == 'dict':
      out = {'y': y, 'z': z}
    elif out_form == 'mod':
      out = (y, Box(p=nnx.Param(y * 3), q=Count(z)))
    else:
      raise ValueError(out_form)
    if carry_mod is not None:
      h = args[carry_mod]
    if has_h or carry_mod is not None:
      return (h, out) if h_first else (out, h)
    return out

  return body


# ---------------------------------------------------------------------------
# reading results


def npv(v):
  """numpy value of an array or typed key array."""
  L = lazy()
  jax = L['jax']
  if isinstance(v, jax.Array) and jax.dtypes.issubdtype(v.dtype, jax.dtypes.prng_key):
    v = jax.random.key_data(v)
  return np.asarray(v)


def same(a, b):
  a, b = npv(a), npv(b)
  return a.dtype == b.dtype and a.shape == b.shape and a.tobytes() == b.tobytes()


def stack(vals, axis):
  vals = [npv(v) for v in vals]
  return np.stack(vals, axis=axis if axis >= 0 else axis + vals[0].ndim + 1)


def out_leaves(out_form, out):
  """{name: leaf} of a body output (the module output contributes p and q)."""
  if out_form == 'y':
    return {'y': out}
  if out_form == 'yz':
    return {'y': out[0], 'z': out[1]}
  if out_form == 'dict':
    return {'y': out['y'], 'z': out['z']}
  if out_form == 'mod':
    return {'y': out[0], 'p': out[1].p.value, 'q': out[1].q.value}
  raise ValueError(out_form)


def out_axis_of(out_form, out_axes, name):
  """axis the out_axes prefix assigns to output leaf `name`."""
  if out_form == 'y':
    return out_axes
  if out_form == 'yz':
    if isinstance(out_axes, list) and out_axes and out_axes[0] == 't':
      return out_axes[1][0 if name == 'y' else 1]
    return out_axes
  if out_form == 'dict':
    if isinstance(out_axes, list) and out_axes and out_axes[0] == 'd':
      return out_axes[1][name]
    return out_axes
  if out_form == 'mod':
    if isinstance(out_axes, list) and out_axes and out_axes[0] == 't':
      if name == 'y':
        return out_axes[1][0]
      p = out_axes[1][1]
    else:
      if name == 'y':
        return out_axes
      p = out_axes
    if is_sa(p):
      return first_match(p[1], (name,), 'Param' if name == 'p' else 'Count')
    return p
  raise ValueError(out_form)


# ---------------------------------------------------------------------------
# reference: per-index call (vmap) and loop (scan)


class Disagree(Exception):
  """indices leave different values in a None-axis variable / None-axis output."""


def ref_iter(kind_tf, world, args_spec, axes, per, body, xs, n, *, xs2=None, reverse=False, h0=None,
             has_h=False, h_first=True, out_form='y', carry_mod=None):
  """Runs the untransformed body once per index on freshly built objects.

  kind_tf 'vmap': None-axis variables start every index from their initial value.
  kind_tf 'scan': Carry variables are threaded; None-axis variables are shared
  (the bodies enumerated for scan never write them).
  returns (per-index output leaves, per-index final values {vid: [..]}, final carried
  values {vid: value}, final h)
  """
  order = list(range(n))
  if reverse:
    order = order[::-1]
  outs = [None] * n
  finals = {vid: [None] * n for vid in world}
  carried = {vid: per[vid][0] for vid in world if axes[vid] == 'C'}
  h = h0
  for i in order:
    vals = {}
    for vid in world:
      vals[vid] = carried[vid] if axes[vid] == 'C' else per[vid][i]
    vars_ = build_vars(world, vals)
    cache = {}
    args = tuple(build_arg(a, vars_, x=None if xs is None else xs[i], h=h, cache=cache,
                           x2=None if xs2 is None else xs2[i])
                 for a in args_spec)
    o = body(*args)
    if has_h:
      if h_first:
        h, o = o
      else:
        o, h = o
    outs[i] = {k: npv(v) for k, v in out_leaves(out_form, o).items()}
    for vid in world:
      fv = npv(vars_[vid].value)
      finals[vid][i] = fv
      if axes[vid] == 'C':
        carried[vid] = fv
  return outs, finals, carried, h


def expected_state(kind_tf, world, axes, finals, carried, n):
  """{vid: expected final value}; raises Disagree for a None-axis variable the
  indices leave in different states (vmap)."""
  exp = {}
  for vid in world:
    a = axes[vid]
    if isinstance(a, int):
      exp[vid] = stack(finals[vid], a)
    elif a == 'C':
      exp[vid] = carried[vid]
    else:
      f0 = finals[vid][0]
      for f in finals[vid][1:]:
        if not same(f0, f):
          raise Disagree(vid)
      exp[vid] = f0
  return exp
