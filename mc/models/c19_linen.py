"""C19 Linen programs: one module that declares MANY annotated variables (one
per names tuple) so that a single traced scan / vmap nest carries the whole
names alphabet, in four flavours of the same program:

  raw      plain `self.param` / `self.variable`, transforms without metadata
  part     nn.with_partitioning boxes + metadata_params={nn.PARTITION_NAME: ..}
  logical  nn.with_logical_partitioning boxes (LogicallyPartitioned subclass)
  legacy   flax.linen.partitioning.param_with_axes / variable_with_axes +
           scan_with_axes / vmap_with_axes (names live in '<col>_axes')

The body records, at trace time, the names and the value shape it sees for every
variable in the Python side channel REC (the oracle: the stacked axis and its
name are gone inside the transform).
"""
from __future__ import annotations

import jax
import jax.numpy as jnp
import numpy as np

import flax.linen as nn
from flax.core import meta
from flax.linen import partitioning as lp

REC = []   # (variable name, names seen inside the body, value shape seen there)


def kinit(key, shape):
  """Integer-valued, key dependent (so every slice of a stacked parameter is
  different and a wrong stacking position shows in the values), cheap to compile."""
  n = int(np.prod(shape))
  off = (jax.random.key_data(key)[-1] % 7).astype(jnp.float32)
  return jnp.arange(n, dtype=jnp.float32).reshape(shape) + off


def zinit(shape):
  return jnp.zeros(shape, jnp.float32)


def _names_of(box):
  if isinstance(box, meta.AxisMetadata):
    return tuple(box.names), tuple(box.value.shape)
  return 'unboxed', tuple(box.shape)


class Inner(nn.Module):
  specs: tuple
  shape: tuple
  box: str

  @nn.compact
  def __call__(self, c, x):
    a = 0.0
    b = 0.0
    for i, names in enumerate(self.specs):
      pn, vn = f'p{i}', f'v{i}'
      if self.box == 'legacy':
        p = lp.param_with_axes(pn, kinit, self.shape, axes=names)
        v = lp.variable_with_axes('state', vn, zinit, self.shape, axes=names)
        v.value = v.value + x
        for col, nm, val in (('params_axes', pn, p), ('state_axes', vn, v.value)):
          if self.has_variable(col, nm + '_axes'):
            REC.append((nm, tuple(self.get_variable(col, nm + '_axes').names),
                        tuple(val.shape)))
          else:
            REC.append((nm, 'missing', tuple(val.shape)))
      else:
        if self.box == 'part':
          wrap = lambda f, names=names: nn.with_partitioning(f, names)
        elif self.box == 'logical':
          wrap = lambda f, names=names: nn.with_logical_partitioning(f, names)
        else:
          wrap = lambda f: f
        p = self.param(pn, wrap(kinit), self.shape)
        v = self.variable('state', vn, wrap(zinit), self.shape)
        REC.append((pn,) + _names_of(self.get_variable('params', pn)))
        REC.append((vn,) + _names_of(self.get_variable('state', vn)))
        v.value = v.value + x        # the setter must re-box
        REC.append((vn,) + _names_of(self.get_variable('state', vn)))
      a = a + float(i % 3 + 1) * p.sum()
      b = b + v.value.sum()
    y = x * a + b
    return c + y, y


class Nest(nn.Module):
  specs: tuple
  shape: tuple
  levels: tuple      # innermost first: (kind, k params, k state, pname, L)
  box: str

  @nn.compact
  def __call__(self, c, x):
    t = Inner
    for kind, k, ks, pname, size in self.levels:
      axes = {'params': k, 'state': ks}
      if self.box == 'legacy':
        if kind == 'scan':
          t = lp.scan_with_axes(t, variable_axes=axes, split_rngs={'params': True},
                                in_axes=0, out_axes=0, length=size, axis_name=pname,
                                axes_collections=('params', 'state'))
        else:
          t = lp.vmap_with_axes(t, variable_axes=axes, split_rngs={'params': True},
                                in_axes=0, out_axes=0, axis_size=size,
                                partitioning_axis_names={'params': pname, 'state': pname})
      else:
        mp = {} if self.box == 'raw' else {nn.PARTITION_NAME: pname}
        if kind == 'scan':
          t = nn.scan(t, variable_axes=axes, split_rngs={'params': True}, in_axes=0,
                      out_axes=0, length=size, metadata_params=mp)
        else:
          t = nn.vmap(t, variable_axes=axes, split_rngs={'params': True}, in_axes=0,
                      out_axes=0, axis_size=size, metadata_params=mp)
    return t(specs=self.specs, shape=self.shape, box=self.box, name='inner')(c, x)


def data(levels, seed):
  """x has one leading axis per level (outermost first); the carry has one per
  vmap level. Values are small integers; `seed` rotates a pool of three."""
  xs = [lv['L'] for lv in reversed(levels)]
  cs = [lv['L'] for lv in reversed(levels) if lv['kind'] == 'vmap']
  x = (jnp.arange(int(np.prod(xs)), dtype=jnp.float32).reshape(xs) + seed % 3) % 3
  c = jnp.ones(cs, jnp.float32)
  return c, x


def run(specs, shape, levels, box, seed):
  """init + one apply (state mutable) of the nest; returns everything observable."""
  lv = tuple((l['kind'], l['k'], l['ks'], l['pname'], l['L']) for l in levels)
  m = Nest(tuple(specs), tuple(shape), lv, box)
  c, x = data(levels, seed)
  # (the cheap-to-compile PRNG implementation: ~35 key folds per traced body)
  key = jax.random.key(seed % 4, impl='unsafe_rbg')
  del REC[:]
  out, vs = m.init_with_output(key, c, x)
  rec_init = list(REC)
  del REC[:]
  mutable = ['state', 'state_axes'] if box == 'legacy' else ['state']
  err = None
  try:
    out2, upd = m.apply(vs, c, x, mutable=mutable)
  except Exception as e:  # noqa: reported by the check as a violation, init is still checked
    out2, upd, err = None, {}, e
  rec_apply = list(REC)
  del REC[:]
  return dict(m=m, args=(key, c, x), out=out, vs=vs, out2=out2, upd=upd,
              rec_init=rec_init, rec_apply=rec_apply, apply_error=err)


def entries(tree, box):
  """{variable name: (names, value)} of a variable dict returned by init/apply."""
  out = {}
  for col in ('params', 'state'):
    if col not in tree:
      continue
    for n, leaf in tree[col]['inner'].items():
      if box == 'legacy':
        ax = tree.get(col + '_axes', {}).get('inner', {}).get(n + '_axes')
        out[n] = ('missing' if ax is None else tuple(ax.names), leaf)
      elif isinstance(leaf, meta.AxisMetadata):
        out[n] = (tuple(leaf.names), leaf.value)
      else:
        out[n] = ('unboxed', leaf)
  return out


def values(tree):
  """The array collections with all boxes stripped (what the raw twin returns)."""
  return {col: meta.unbox(tree[col]) for col in ('params', 'state') if col in tree}


def specs_of(tree, box):
  """{variable name: tuple(PartitionSpec)} through the public spec extractor of
  the API: nn.get_partition_spec / partitioning.get_axis_names."""
  out = {}
  for col in ('params', 'state'):
    if col not in tree:
      continue
    if box == 'legacy':
      if col + '_axes' not in tree:
        continue
      t = lp.get_axis_names(tree[col + '_axes'])['inner']
    else:
      t = nn.get_partition_spec(tree[col])['inner']
    for n, s in t.items():
      out[n] = tuple(s) if isinstance(s, jax.sharding.PartitionSpec) else ('not-a-spec', repr(s))
  return out


def abstract_specs(got, box):
  """The documented way to obtain specs before initialising: eval_shape of init."""
  key, c, x = got['args']
  del REC[:]
  vs = jax.eval_shape(got['m'].init, key, c, x)
  del REC[:]
  return specs_of(vs, box)
