"""C08: the enumerated case space (pure data, no jax / flax import)."""
from __future__ import annotations

import itertools

T = lambda n: ['T', n]
P = lambda k: ['P', k]
E = ['...']

W6 = dict(w=['Param', [2, 3], 'f'], k=['PSub', [2, 2], 'f'], b=['BatchStat', [2], 'f'],
          c=['Count', [2], 'i'], sw=['Param', [2, 1], 'f'], sb=['BatchStat', [2], 'f'])
MS6 = dict(w='w', k='k', b='b', c='c', sub=dict(w='sw', b='sb'))

WA = dict(v=['Param', [2], 'f'], b1=['BatchStat', [2], 'f'], c1=['Count', [2], 'i'],
          b2=['BatchStat', [2], 'f'])

BODIES = ['ro', 'inc', 'dep', 'wall']


def SA(pairs, form='dict'):
  return ['sa', [[f, a] for f, a in pairs], form]


def rot(options, i, mult=1):
  return options[(i * mult) % len(options)]


def mixed(t, *options):
  """Mixed-radix decomposition of the running case counter t: picks one member of every
  option list so that consecutive cases run through the full product of the lists
  (first list fastest).  Purely a function of t: the quick tier's subset is fixed."""
  out = []
  for opts in options:
    out.append(opts[t % len(opts)])
    t //= len(opts)
  return out


# ---------------------------------------------------------------------------
# type-level assignment encodings


def enc_types(aP, aB, aC, enc):
  if enc == 'dict':
    return SA([(T('Param'), aP), (T('BatchStat'), aB), (T('Count'), aC)], 'dict')
  if enc == 'pairs':
    return SA([(T('Count'), aC), (T('BatchStat'), aB), (E, aP)], 'pairs')
  if enc == 'notall':
    return SA([(['all', ['not', T('Param')], ['not', T('Count')]], aB), (T('PSub'), aP),
               (T('Param'), aP), (E, aC)], 'dict')
  if enc == 'state':
    # StateAxes(State of per-path axes)
    return SA([(T('Param'), aP), (T('BatchStat'), aB), (T('Count'), aC)], 'state')
  if enc == 'anytuple':
    # tuple filter (= Any) first for the two non-Param types when they agree
    if aB == aC:
      return SA([(['any', T('BatchStat'), T('Count')], aB), (E, aP)], 'pairs')
    return SA([(['Any', T('PSub'), T('Param')], aP), (T('Count'), aC), (E, aB)], 'dict')
  raise ValueError(enc)


ENCS = ['dict', 'pairs', 'notall', 'anytuple', 'state']

SAOUT = SA([(T('Param'), 1), (T('Count'), 0)], 'dict')
SAOUT_N = SA([(T('Param'), 0), (T('Count'), None)], 'dict')
OUTV = [('y', 0), ('y', 1), ('yz', ['t', [0, 1]]), ('yz', 1), ('dict', ['d', {'y': 1, 'z': 0}]),
        ('dict', 0), ('mod', ['t', [0, SAOUT]]), ('mod', 1)]
OUTV_N = [('yz', ['t', [1, None]]), ('mod', ['t', [1, SAOUT_N]])]  # legal when z is unmapped
OUTS = [('y', 0), ('y', 1), ('yz', ['t', [0, 1]]), ('yz', 1), ('dict', ['d', {'y': 1, 'z': 0}]),
        ('mod', ['t', [0, SAOUT]]), ('mod', 0)]
NS = [1, 2, 3]
XAX = [0, 1, None]


def _vt_assignments(tier):
  base = list(itertools.product([0, 1, None], repeat=3))
  extra = [(2, 0, None), (2, None, 1), (-1, 1, 0), (0, -1, None), (None, -1, -1), (2, 1, 0)]
  return base + extra


def _st_assignments(tier):
  base = list(itertools.product([0, 1, None, 'C'], repeat=3))
  extra = [(2, 'C', None), (2, 0, 'C'), (-1, 1, 'C'), ('C', -1, 0), (None, -1, 'C'), (2, 1, 0)]
  return base + extra


VFORMS = ['A', 'X', 'A0', 'A2', 'A2n']


def fam_VT(tier):
  out = []
  t = 0
  for (aP, aB, aC) in _vt_assignments(tier):
    outs_all = OUTV + (OUTV_N if aC is None else [])
    for body in BODIES:
      for n in NS:
        for xax in XAX:
          if tier == 'quick':
            combos = [mixed(t, ENCS, outs_all, VFORMS)]
          else:
            combos = [(e, o, mixed(t + k, VFORMS)[0])
                      for k, (e, o) in enumerate(itertools.product(ENCS, outs_all))]
          for enc, (of, oa), form in combos:
            sa = enc_types(aP, aB, aC, enc)
            if form == 'A':
              args, ia = [['m', MS6], ['x']], ['args', [sa, xax]]
            elif form == 'X':
              args, ia = [['x'], ['m', MS6]], ['args', [xax, sa]]
            elif form in ('A2', 'A2n'):
              # a second array argument, mapped on the other axis / broadcast
              x2ax = None if form == 'A2n' else (1 if xax == 0 else 0)
              args, ia = [['x2'], ['m', MS6], ['x']], ['args', [x2ax, sa, xax]]
            else:
              args, ia = [['m', MS6]], ['args', [sa]]
            out.append(dict(fam='VT', tf='vmap', world=W6, args=args, in_axes=ia, out=of,
                            out_axes=oa, n=n, body=body))
          t += 1
  # plain int / None prefixes, scalar in_axes
  for a in [0, 1, None, -1]:
    for body in BODIES:
      for n in NS:
        for xax in XAX:
          (of, oa), = mixed(t, OUTV)
          out.append(dict(fam='VT', tf='vmap', world=W6, args=[['m', MS6], ['x']],
                          in_axes=['args', [a, xax]], out=of, out_axes=oa, n=n, body=body))
          t += 1
        if a in (0, 1):
          (of, oa), = mixed(t, OUTV)
          out.append(dict(fam='VT', tf='vmap', world=W6, args=[['m', MS6], ['x']], in_axes=a,
                          out=of, out_axes=oa, n=n, body=body))
          t += 1
  return out


SCAN_FORMS = ['A', 'B', 'C', 'A0', 'A2', 'B2n']


def scan_form(form, sa, xax):
  if form == 'A':
    return dict(args=[['m', MS6], ['x']], in_axes=['args', [sa, xax]])
  if form == 'B':
    return dict(args=[['h'], ['m', MS6], ['x']], in_axes=['args', ['C', sa, xax]], h_first=True)
  if form == 'C':
    return dict(args=[['m', MS6], ['h'], ['x']], in_axes=['args', [sa, 'C', xax]], h_first=False)
  if form == 'A0':
    return dict(args=[['m', MS6]], in_axes=['args', [sa]])
  if form == 'A2':   # two array arguments on different axes
    return dict(args=[['x2'], ['m', MS6], ['x']],
                in_axes=['args', [1 if xax == 0 else 0, sa, xax]])
  if form == 'B2n':  # carry + two array arguments, the second one broadcast
    return dict(args=[['x'], ['h'], ['m', MS6], ['x2']], in_axes=['args', [xax, 'C', sa, None]],
                h_first=True)
  raise ValueError(form)


def fam_ST(tier):
  out = []
  t = 0
  for (aP, aB, aC) in _st_assignments(tier):
    for body in BODIES:
      if tier == 'quick':
        dims = [mixed(t * 2 + k, NS, [False, True], XAX, SCAN_FORMS, ENCS, OUTS) for k in range(2)]
      else:
        dims = [[n, rev, xax, form] + mixed(t * 108 + k, ENCS, OUTS)
                for k, (n, rev, xax, form) in enumerate(
                  itertools.product(NS, [False, True], XAX, SCAN_FORMS))]  # 108 per (assignment, body)
      for n, rev, xax, form, enc, (of, oa) in dims:
        c = dict(fam='ST', tf='scan', world=W6, out=of, out_axes=oa, n=n, body=body, reverse=rev)
        c.update(scan_form(form, enc_types(aP, aB, aC, enc), xax))
        out.append(c)
      t += 1
  # int / None / whole-module Carry prefixes
  for a in [0, 1, None, -1, 'C']:
    for body in BODIES:
      for n in NS:
        for rev in [False, True]:
          xax, (of, oa), hf = mixed(t, XAX, OUTS, [True, False])
          c = dict(fam='ST', tf='scan', world=W6, args=[['m', MS6], ['x']],
                   in_axes=['args', [a, xax]], out=of, out_axes=oa, n=n, body=body, reverse=rev)
          if a == 'C':
            c['carry_mod'] = 0
            c['h_first'] = hf
          out.append(c)
          t += 1
  return out


# ---------------------------------------------------------------------------
# fine-level: ordered overlapping filters

FA = [T('PSub'), T('Param'), T('BatchStat'), T('Count'), P('sub'), P('w'), P('b'),
      ['not', T('Param')], ['any', T('BatchStat'), T('Count')], ['Any', T('PSub'), P('sub')],
      ['all', T('Param'), P('sub')]]
SAFORMS = ['pairs', 'dict', 'state']


def fam_VF(tier):
  out = []
  t = 0
  perms = list(itertools.permutations([0, 1, None]))
  triples = perms if tier == 'quick' else list(itertools.product([0, 1, None], repeat=3))
  for f1, f2 in itertools.permutations(FA, 2):
    for (a1, a2, a3) in triples:
      form, xax, n, body, (of, oa) = mixed(t, SAFORMS, XAX, [2, 3, 1], ['inc', 'ro', 'wall', 'dep'],
                                           OUTV)
      sa = SA([(f1, a1), (f2, a2), (E, a3)], form)
      out.append(dict(fam='VF', tf='vmap', world=W6, args=[['m', MS6], ['x']],
                      in_axes=['args', [sa, xax]], out=of, out_axes=oa, n=n, body=body))
      t += 1
  return out


def fam_SF(tier):
  out = []
  t = 0
  if tier == 'quick':
    triples = [(0, 'C', None), ('C', 1, 0), (None, 0, 'C'), (1, None, 'C')]
  else:
    triples = list(itertools.product([0, 1, None, 'C'], repeat=3))
  for j, (f1, f2) in enumerate(itertools.permutations(FA, 2)):
    trs = [triples[j % len(triples)]] if tier == 'quick' else triples
    for (a1, a2, a3) in trs:
      form, xax, rev, n, body, sform, (of, oa) = mixed(
        t, SAFORMS, XAX, [False, True], [2, 3, 1], ['inc', 'wall', 'ro', 'dep'], SCAN_FORMS, OUTS)
      sa = SA([(f1, a1), (f2, a2), (E, a3)], form)
      c = dict(fam='SF', tf='scan', world=W6, out=of, out_axes=oa, n=n, body=body, reverse=rev)
      c.update(scan_form(sform, sa, xax))
      out.append(c)
      t += 1
  return out


# ---------------------------------------------------------------------------
# aliasing


def _alias_structs(tf, AX):
  """yields (name, args, in_axes list) for every structure x axis choice."""
  m1 = dict(w='v', b='b1', c='c1')
  m2 = dict(w='v', b='b2')
  others = [None, 0, 1] if tf == 'vmap' else [None, 0, 'C']
  k = 0
  for a1 in AX:
    for a2 in AX:
      o1, o2 = mixed(k, others, others)
      k += 1
      # S1: one Variable shared by two arguments
      yield ('S1', [['m', m1], ['m', m2], ['x']],
             [SA([(T('Param'), a1), (E, o1)]), SA([(T('Param'), a2), (E, o2)], 'pairs'), 0])
      # S2: one module, two paths, path filters
      yield ('S2', [['m', dict(p='v', q='v', c='c1')], ['x']],
             [SA([(P('p'), a1), (P('q'), a2), (E, o1)]), 0])
      # S3: dict argument holding two modules
      yield ('S3', [['d', {'p': ['m', m1], 'q': ['m', m2]}], ['x']],
             [['d', {'p': SA([(T('Param'), a1), (E, o1)]), 'q': SA([(E, a2)])}], 0])
      # S4: the same module object passed twice
      yield ('S4', [['m', m2, 'A'], ['m', m2, 'A'], ['x']],
             [SA([(T('Param'), a1), (E, o2)]), SA([(T('Param'), a2), (E, o2)], 'pairs'), 0])
      # S6: tuple argument with a tuple prefix of ints; S1i: two arguments with int prefixes
      if a1 != 'C' and a2 != 'C':
        yield ('S6', [['t', [['m', m2], ['m', dict(u='v')]]], ['x']], [['t', [a1, a2]], 0])
        yield ('S1i', [['m', m2], ['m', dict(u='v')], ['x']], [a1, a2, 0])
      # S5: overlapping filters: the first matching filter decides, for the check as well
      for a3 in AX:
        if a3 == 'C':
          continue
        yield ('S5', [['m', dict(sub=dict(w='v'), b='b1')], ['m', dict(w='v')], ['x']],
               [SA([(P('sub'), a1), (T('Param'), a2), (E, o1)], 'pairs'), a3, 0])
        yield ('S5r', [['m', dict(w='v')], ['m', dict(sub=dict(w='v'), b='b1')], ['x']],
               [a3, SA([(P('sub'), a1), (T('Param'), a2), (E, o1)], 'dict'), 0])


def fam_alias(tf, tier):
  AX = [0, 1, None] if tf == 'vmap' else [0, 1, None, 'C']
  fam = 'VA' if tf == 'vmap' else 'SA'
  outs = OUTV[:4] if tf == 'vmap' else OUTS[:4]
  out = []
  t = 0
  for name, args, ia in _alias_structs(tf, AX):
    if tier == 'thorough' or tf == 'vmap':
      bodies = ['ro', 'inc', 'wall']
    else:
      bodies = mixed(t, ['inc', 'wall', 'ro'])
    for body in bodies:
      (of, oa), n1, rev = mixed(t, outs, [2, 3], [False, True])
      ns = [2, 3] if (tier == 'thorough' and tf == 'vmap') else [n1]
      for n in ns:
        c = dict(fam=fam, tf=tf, struct=name, world=WA, args=args, in_axes=['args', ia], out=of,
                 out_axes=oa, n=n, body=body)
        if tf == 'scan':
          c['reverse'] = rev
        out.append(c)
        t += 1
  return out


# ---------------------------------------------------------------------------
# two modules of the same shape with independent StateAxes (pairing of per-argument state)

W2 = dict(w1=['Param', [2, 2], 'f'], b1=['BatchStat', [2], 'f'], c1=['Count', [2], 'i'],
          w2=['Param', [2, 2], 'f'], b2=['BatchStat', [2], 'f'], c2=['Count', [2], 'i'])
MA = dict(w='w1', b='b1', c='c1')
MB = dict(w='w2', b='b2', c='c2')


def fam_two(tf, tier):
  fam = 'V2' if tf == 'vmap' else 'S2'
  AX = [0, 1, None] if tf == 'vmap' else [0, 1, None, 'C']
  asg = list(itertools.product(AX, repeat=3))
  layouts = ['args', 'dict', 'tuple'] + (['hmid'] if tf == 'scan' else [])
  out = []
  t = 0
  for k1, a1 in enumerate(asg):
    if tier == 'quick':
      seconds = [asg[(k1 * 7 + 3) % len(asg)], asg[(k1 * 11 + 5) % len(asg)]]
    elif tf == 'vmap':
      seconds = asg
    else:
      seconds = [asg[(k1 * 7 + 3 + 5 * j) % len(asg)] for j in range(6)]
    for a2 in seconds:
      layout, xax, n, body, e1, e2, (of, oa), rev, hf = mixed(
        t, layouts, XAX, [2, 3, 1], ['wall', 'inc', 'dep', 'ro'], ENCS, ENCS[::-1],
        OUTV if tf == 'vmap' else OUTS, [False, True], [True, False])
      p1 = enc_types(*a1, e1)
      p2 = enc_types(*a2, e2)
      c = dict(fam=fam, tf=tf, world=W2, n=n, body=body)
      if layout == 'args':
        c.update(args=[['m', MA], ['m', MB], ['x']], in_axes=['args', [p1, p2, xax]])
      elif layout == 'dict':
        c.update(args=[['d', {'p': ['m', MA], 'q': ['m', MB]}], ['x']],
                 in_axes=['args', [['d', {'p': p1, 'q': p2}], xax]])
      elif layout == 'tuple':
        c.update(args=[['x'], ['t', [['m', MA], ['m', MB]]]], in_axes=['args', [xax, ['t', [p1, p2]]]])
      else:
        c.update(args=[['m', MA], ['h'], ['m', MB], ['x']], in_axes=['args', [p1, 'C', p2, xax]],
                 h_first=hf)
      c.update(out=of, out_axes=oa)
      if tf == 'scan':
        c['reverse'] = rev
      out.append(c)
      t += 1
  return out


# ---------------------------------------------------------------------------
# scan: what happens to writes to broadcast state (recorded, not asserted)


def fam_SB(tier):
  out = []
  for body in ['inc', 'wall']:
    sa = SA([(T('Param'), 0), (T('Count'), 'C'), (E, None)])
    out.append(dict(fam='SB', tf='scan', world=W6, args=[['m', MS6], ['x']],
                    in_axes=['args', [sa, 0]], out='y', out_axes=0, n=3, body=body,
                    bcast_write=True))
  return out


# ---------------------------------------------------------------------------


def all_cases(tier):
  from mc.models import c08_cases_gr as G
  cs = []
  cs += fam_VT(tier)
  cs += fam_ST(tier)
  cs += fam_VF(tier)
  cs += fam_SF(tier)
  cs += fam_alias('vmap', tier)
  cs += fam_alias('scan', tier)
  cs += fam_two('vmap', tier)
  cs += fam_two('scan', tier)
  cs += fam_SB(tier)
  cs += G.fam_GR(tier)
  cs += G.fam_RN(tier)
  return cs


_WEIGHT = dict(ST=10, SF=10, S2=10, SA=8, SB=8, RN=6, GR=4, VT=1, VF=1, VA=1, V2=1)
_CHUNK = dict(
  quick=dict(ST=12, SF=12, S2=12, SA=16, SB=2, RN=10, GR=30, VT=60, VF=60, VA=60, V2=30),
  thorough=dict(ST=150, SF=120, S2=100, SA=100, SB=2, RN=60, GR=250, VT=600, VF=400, VA=220, V2=250))


def weight(fam):
  return _WEIGHT[fam]


def chunk_size(tier, fam):
  return _CHUNK[tier][fam]


def bounds(tier):
  return dict(
    variables=6, variable_types=['Param', 'Param subclass', 'BatchStat', 'Count', 'RngKey',
                                 'RngCount'],
    vmap_axes=[0, 1, None, 2, -1], scan_axes=[0, 1, None, 'Carry', 2, -1], length=[1, 2, 3],
    reverse=[False, True], body_kinds=BODIES, filter_alphabet=len(FA), filters_per_stateaxes=3,
    secondary_dims='rotated by case index' if tier == 'quick' else 'multiplied out (see RULE)',
    tier=tier)
