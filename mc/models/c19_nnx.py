"""C19 NNX programs: a module with one annotated Param and one annotated mutable
Variable per names tuple, created under a nest of nnx.vmap / nnx.scan (init)
and then called under the same nest (apply), with and without sharding
metadata. `nickname` is a second tuple-valued metadata field that is listed in
transform_metadata and has to follow the same insert / remove discipline.
"""
from __future__ import annotations

import jax
import jax.numpy as jnp
import numpy as np

from flax import nnx

REC = []   # (variable name, sharding seen in the body, nickname seen, value shape)


class St(nnx.Variable):
  pass


def kinit(key, shape):
  n = int(np.prod(shape))
  off = (jax.random.key_data(key)[-1] % 7).astype(jnp.float32)
  return jnp.arange(n, dtype=jnp.float32).reshape(shape) + off


def zinit(key, shape):
  return jnp.zeros(shape, jnp.float32)


def nick(names):
  return tuple('n%d' % j for j in range(len(names)))


def md(var, field):
  """Metadata field of a Variable ('unboxed' when absent: attribute access would
  fall through to the jax array's own .sharding)."""
  return var.get_metadata().get(field, 'unboxed')


class Inner(nnx.Module):
  def __init__(self, specs, shape, key, boxed):
    self.n = len(specs)
    for i, names in enumerate(specs):
      if boxed:
        wrap = lambda f, names=names: nnx.with_partitioning(f, names, nickname=nick(names))
      else:
        wrap = lambda f: f
      setattr(self, f'p{i}', nnx.Param(wrap(kinit)(jax.random.fold_in(key, i), shape)))
      setattr(self, f'v{i}', St(wrap(zinit)(None, shape)))

  def __call__(self, c, x):
    a = 0.0
    b = 0.0
    for i in range(self.n):
      p = getattr(self, f'p{i}')
      v = getattr(self, f'v{i}')
      REC.append((f'p{i}', md(p, 'sharding'), md(p, 'nickname'), tuple(p.value.shape)))
      v.value = v.value + x
      REC.append((f'v{i}', md(v, 'sharding'), md(v, 'nickname'), tuple(v.value.shape)))
      a = a + float(i % 3 + 1) * p.value.sum()
      b = b + v.value.sum()
    y = x * a + b
    return c + y, y


def build(specs, shape, levels, boxed, form):
  """form: 'int' -> the module's axis is given as an int prefix (levels built
  with mirror=False); 'state' -> as nnx.StateAxes({Param: k, St: ks}) (the two
  branches of _update_variable_sharding_metadata)."""
  specs = tuple(specs)
  shape = tuple(shape)

  def create(key):
    return Inner(specs, shape, key, boxed)

  def fwd(m, c, x):
    return m(c, x)

  for lv in levels:
    k = lv['k']
    tm = {nnx.PARTITION_NAME: lv['pname'], 'nickname': lv['nick']} if boxed else {}
    ax = k if form == 'int' else nnx.StateAxes({nnx.Param: k, St: lv['ks']})
    if lv['kind'] == 'vmap':
      create = nnx.vmap(create, in_axes=0, out_axes=ax, transform_metadata=tm)
      fwd = nnx.vmap(fwd, in_axes=(ax, 0, 0), out_axes=0, transform_metadata=tm)
    else:
      create = nnx.scan(create, in_axes=0, out_axes=ax, transform_metadata=tm)
      fwd = nnx.scan(fwd, in_axes=(ax, nnx.Carry, 0), out_axes=(nnx.Carry, 0),
                     transform_metadata=tm)
  return create, fwd


def data(levels, seed):
  xs = [lv['L'] for lv in reversed(levels)]
  cs = [lv['L'] for lv in reversed(levels) if lv['kind'] == 'vmap']
  n = int(np.prod(xs))
  x = (jnp.arange(n, dtype=jnp.float32).reshape(xs) + seed % 3) % 3
  c = jnp.ones(cs, jnp.float32)
  keys = jax.random.split(jax.random.key(seed % 4, impl='unsafe_rbg'), n).reshape(xs)
  return c, x, keys


def snapshot(m):
  """{variable name: (sharding, nickname, value)}"""
  out = {}
  for n, v in sorted(vars(m).items()):
    if isinstance(v, nnx.Variable):
      out[n] = (md(v, 'sharding'), md(v, 'nickname'), np.asarray(v.value))
  return out


def specs_of(m):
  st = nnx.get_partition_spec(nnx.state(m))
  out = {}
  for n, vs in st.items():
    s = vs.value
    out[n] = tuple(s) if isinstance(s, jax.sharding.PartitionSpec) else ('not-a-spec', repr(s))
  return out


def run(specs, shape, levels, boxed, form, seed):
  create, fwd = build(specs, shape, levels, boxed, form)
  c, x, keys = data(levels, seed)
  del REC[:]
  m = create(keys)
  after_init = snapshot(m)
  spec_init = specs_of(m)
  del REC[:]
  err = None
  try:
    out = fwd(m, c, x)
  except Exception as e:  # noqa: reported by the check as a violation, init is still checked
    out, err = None, e
  rec_apply = list(REC)
  del REC[:]
  if err is None:
    after_apply = snapshot(m)
    spec_apply = specs_of(m)
  else:
    after_apply, spec_apply = {}, {}
  return dict(after_init=after_init, spec_init=spec_init, out=out, rec_apply=rec_apply,
              after_apply=after_apply, spec_apply=spec_apply, apply_error=err)
