"""Reference models for C13 (attention / RNN), plain NumPy float64 + Python loops.

Nothing here imports flax or jax.  Everything is written for readability, not
speed: explicit softmax over the allowed set, explicit per-sequence loops with
explicit re-indexing, textbook cell recurrences.
"""
from __future__ import annotations

import numpy as np

F64 = np.float64


# --------------------------------------------------------------------------
# deterministic data (no randomness: VERIF_SEED only selects the `salt`)


def _salt(name):
  return sum((i + 1) * ord(c) for i, c in enumerate(name))


def fill(name, shape, salt=0, step=0.25, mod=7):
  """Small exactly-representable values (multiples of `step`, |v| <= step*mod/2),
  different along every axis, deterministic in (name, shape, salt)."""
  shape = tuple(int(s) for s in shape)
  mult = (3, 5, 7, 11, 13, 17)
  s = _salt(name) + 31 * salt
  out = np.zeros(shape, np.float64)
  for idx in np.ndindex(*shape):
    v = s + sum(m * i for m, i in zip(mult[6 - len(idx):] if len(idx) else (), idx))
    out[idx] = ((v % mod) - mod // 2) * step
  return out.astype(np.float32)


def seq_data(name, B, T, feat, salt=0):
  """Inputs [*B, T, *feat]: multiples of 0.25 in [-1, 1]; the T positions of one
  sequence are pairwise different vectors and the sequences of a batch differ
  (so reversal, shifting and copying a position are all observable)."""
  B = tuple(B)
  feat = tuple(feat)
  out = np.zeros(B + (T,) + feat, np.float64)
  s = _salt(name) + 31 * salt
  for idx in np.ndindex(*out.shape):
    b = idx[:len(B)]
    t = idx[len(B)]
    f = idx[len(B) + 1:]
    v = s + 5 * t + sum(7 * (i + 1) * bi for i, bi in enumerate(b)) \
        + sum((2 + 9 * i) * fi for i, fi in enumerate(f))
    out[idx] = ((v % 9) - 4) * 0.25
  out = out.astype(np.float32)
  # pairwise different time positions (guaranteed for T <= 4: 5t mod 9 distinct)
  flat = out.reshape((-1, T, int(np.prod(feat)) if feat else 1))
  for row in flat:
    for a in range(T):
      for c in range(a + 1, T):
        assert not np.array_equal(row[a], row[c]), (name, B, T, feat)
  return out


# --------------------------------------------------------------------------
# attention


def attention_weights(q, k, bias=None, mask=None):
  """float64 softmax(q.k/sqrt(d) + bias) over the allowed key positions.

  q [..., Tq, H, d], k [..., Tk, H, d]; bias, mask broadcastable to
  [..., H, Tq, Tk].  Returns (w [..., H, Tq, Tk], row_ok [..., H, Tq]) where
  row_ok is False for rows with no allowed key (undefined by the property)."""
  q = np.asarray(q, F64)
  k = np.asarray(k, F64)
  d = q.shape[-1]
  logits = np.einsum('...qhd,...khd->...hqk', q, k) / np.sqrt(d)
  if bias is not None:
    logits = logits + np.asarray(bias, F64)
  if mask is None:
    allowed = np.ones(logits.shape, bool)
  else:
    allowed = np.broadcast_to(np.asarray(mask) != 0, logits.shape)
  w = np.zeros_like(logits)
  row_ok = allowed.any(-1)
  for idx in np.ndindex(*logits.shape[:-1]):
    a = allowed[idx]
    if not a.any():
      continue
    l = logits[idx][a]
    e = np.exp(l - l.max())
    w[idx][a] = e / e.sum()
  return w, row_ok


def attention(q, k, v, bias=None, mask=None):
  """Returns (out [..., Tq, H, dv], w, row_ok [..., H, Tq])."""
  w, row_ok = attention_weights(q, k, bias, mask)
  out = np.einsum('...hqk,...khd->...qhd', w, np.asarray(v, F64))
  return out, w, row_ok


def mha(P, xq, xk, xv, bias=None, mask=None):
  """Multi-head attention with projections.  P: Wq,Wk,Wv [F,H,hd], bq,bk,bv
  [H,hd] (optional), Wo [H,hd,O], bo [O] (optional).
  Returns dict(out [..., T, O], w, head_ok [..., H, T], row_ok [..., T], q, k, v)."""
  def proj(x, W, b):
    y = np.einsum('...f,fhd->...hd', np.asarray(x, F64), np.asarray(W, F64))
    if b is not None:
      y = y + np.asarray(b, F64)
    return y
  q = proj(xq, P['Wq'], P.get('bq'))
  k = proj(xk, P['Wk'], P.get('bk'))
  v = proj(xv, P['Wv'], P.get('bv'))
  o, w, head_ok = attention(q, k, v, bias, mask)
  out = np.einsum('...hd,hdo->...o', o, np.asarray(P['Wo'], F64))
  if P.get('bo') is not None:
    out = out + np.asarray(P['bo'], F64)
  return dict(out=out, w=w, head_ok=head_ok, row_ok=head_ok.all(-2), q=q, k=k, v=v)


def causal_grid(T):
  return np.array([[j <= i for j in range(T)] for i in range(T)], bool)


def padding_grid(T, Lq, Lk):
  return np.array([[(i < Lq) and (j < Lk) for j in range(T)] for i in range(T)], bool)


def all_masks(T):
  """Every boolean T x T grid, index -> grid (bit i*T+j is entry [i, j])."""
  n = T * T
  for mi in range(1 << n):
    yield mi, np.array([(mi >> b) & 1 for b in range(n)], bool).reshape(T, T)


def lower_masks(T):
  """Every boolean grid on the lower triangle (incl. diagonal); upper part True
  (it is irrelevant once combined with the causal / decode mask)."""
  cells = [(i, j) for i in range(T) for j in range(i + 1)]
  for mi in range(1 << len(cells)):
    m = np.ones((T, T), bool)
    for b, (i, j) in enumerate(cells):
      m[i, j] = bool((mi >> b) & 1)
    yield mi, m


def structured_masks(T):
  """Named structured masks (used alone for T = 4)."""
  out = [('all', np.ones((T, T), bool)), ('causal', causal_grid(T)),
         ('anticausal', causal_grid(T).T.copy()), ('diag', np.eye(T, dtype=bool)),
         ('band', np.array([[abs(i - j) <= 1 for j in range(T)] for i in range(T)], bool))]
  for L in range(1, T):
    out.append((f'kpad{L}', padding_grid(T, T, L)))
    out.append((f'qkpad{L}', padding_grid(T, L, L)))
    out.append((f'causal+kpad{L}', causal_grid(T) & padding_grid(T, T, L)))
  for i in range(T):
    for j in range(T):
      m = np.ones((T, T), bool)
      m[i, j] = False
      out.append((f'hole{i}{j}', m))
  return out


# --------------------------------------------------------------------------
# cells (documented recurrences), one example or any leading batch dims


def sigmoid(x):
  return 1.0 / (1.0 + np.exp(-x))


def _f(P):
  return {k: (None if v is None else np.asarray(v, F64)) for k, v in P.items()}


def simple_step(P, h, x, residual=False):
  """h' = tanh(W_i x + b_i + W_h h [+ h])"""
  P = _f(P)
  z = x @ P['Wi'] + P['bi'] + h @ P['Wh']
  if residual:
    z = z + h
  h2 = np.tanh(z)
  return h2, h2


def gru_step(P, h, x):
  """r = s(W_ir x + b_ir + W_hr h); z = s(W_iz x + b_iz + W_hz h);
  n = tanh(W_in x + b_in + r * (W_hn h + b_hn)); h' = (1 - z) n + z h"""
  P = _f(P)
  r = sigmoid(x @ P['Wir'] + P['bir'] + h @ P['Whr'])
  z = sigmoid(x @ P['Wiz'] + P['biz'] + h @ P['Whz'])
  hn = h @ P['Whn']
  if P.get('bhn') is not None:
    hn = hn + P['bhn']
  n = np.tanh(x @ P['Win'] + P['bin'] + r * hn)
  h2 = (1.0 - z) * n + z * h
  return h2, h2


def mgu_step(P, h, x, reset_gate=True):
  """f = s(W_if x + b_if + W_hf h); n = tanh(W_in x + b_in + f * (W_hn h + b_hn))
  (without reset gate: n = tanh(W_in x + b_in + W_hn h)); h' = (1 - f) n + f h"""
  P = _f(P)
  f = sigmoid(x @ P['Wif'] + P['bif'] + h @ P['Whf'])
  if reset_gate:
    n = np.tanh(x @ P['Win'] + P['bin'] + f * (h @ P['Whn'] + P['bhn']))
  else:
    n = np.tanh(x @ P['Win'] + P['bin'] + h @ P['Whn'])
  h2 = (1.0 - f) * n + f * h
  return h2, h2


def lstm_step(P, carry, x):
  """i = s(W_ii x + W_hi h + b_hi) ... c' = f c + i g; h' = o tanh(c')"""
  P = _f(P)
  c, h = carry
  i = sigmoid(x @ P['Wii'] + h @ P['Whi'] + P['bhi'])
  f = sigmoid(x @ P['Wif'] + h @ P['Whf'] + P['bhf'])
  g = np.tanh(x @ P['Wig'] + h @ P['Whg'] + P['bhg'])
  o = sigmoid(x @ P['Wio'] + h @ P['Who'] + P['bho'])
  c2 = f * c + i * g
  h2 = o * np.tanh(c2)
  return (c2, h2), h2


def conv_same(x, W):
  """Cross-correlation with 'SAME' zero padding (lo = (k-1)//2), stride 1.
  x [*spatial, Cin], W [*k, Cin, Cout] -> [*spatial, Cout]."""
  W = np.asarray(W, F64)
  x = np.asarray(x, F64)
  ks = W.shape[:-2]
  spatial = x.shape[:-1]
  assert len(ks) == len(spatial)
  pads = [((k - 1) // 2, (k - 1) - (k - 1) // 2) for k in ks]
  xp = np.pad(x, pads + [(0, 0)])
  out = np.zeros(spatial + (W.shape[-1],), F64)
  for offs in np.ndindex(*ks):
    sl = tuple(slice(o, o + n) for o, n in zip(offs, spatial))
    out = out + xp[sl] @ W[offs]
  return out


def convlstm_step(P, carry, x):
  """gates = W_i* * x + W_h* * h + b; c' = s(f + 1) c + s(i) tanh(g);
  h' = s(o) tanh(c').  The 4C channels are laid out (i, g, f, o); the +1 on the
  forget gate is the documented forget-bias note.  One example (no batch)."""
  P = _f(P)
  c, h = carry
  gates = conv_same(x, P['Wih']) + P['bih'] + conv_same(h, P['Whh']) + P['bhh']
  i, g, f, o = np.split(gates, 4, axis=-1)
  f = sigmoid(f + 1.0)
  c2 = f * c + sigmoid(i) * np.tanh(g)
  h2 = sigmoid(o) * np.tanh(c2)
  return (c2, h2), h2


# --------------------------------------------------------------------------
# RNN over ONE sequence as a plain loop with explicit re-indexing


def rnn_one(step, carry0, xs, L, reverse=False, keep_order=False):
  """xs: the T inputs of one sequence; only xs[0:L] are valid.

  Forward: feed xs[0], xs[1], ..., xs[L-1].  reverse: feed xs[L-1], ..., xs[0]
  (reversal inside the valid length, padding stays at the end).  Output slot p
  (p < L) holds the p-th produced output, or — reverse and keep_order — the
  output produced for original time p.  Returns (ys: list of L outputs,
  carry after exactly L steps)."""
  order = list(range(L))
  if reverse:
    order = order[::-1]
  c = carry0
  produced = []
  for t in order:
    c, y = step(c, xs[t])
    produced.append(y)
  if reverse and keep_order:
    produced = produced[::-1]
  return produced, c


def bidirectional_one(step_f, step_b, carry_f, carry_b, xs, L):
  """forward RNN ++ (backward RNN with keep_order) on the last axis."""
  yf, cf = rnn_one(step_f, carry_f, xs, L, False, False)
  yb, cb = rnn_one(step_b, carry_b, xs, L, True, True)
  ys = [np.concatenate([np.asarray(a), np.asarray(b)], axis=-1) for a, b in zip(yf, yb)]
  return ys, (cf, cb)
