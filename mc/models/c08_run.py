"""C08: execution of one case on the real implementation + comparison with the
reference (c08_model / c08_grad / c08_rng)."""
from __future__ import annotations

import json

import numpy as np

from mc.engine import core
from mc.models import c08_model as M


def ckey(case):
  return json.dumps({k: v for k, v in case.items() if k != 'id'}, sort_keys=True,
                    separators=(',', ':'))


def run_case(res, case, member):
  fam = case['fam']
  if case['tf'] in ('vmap', 'scan'):
    return run_iter(res, case, member)
  if case['tf'] == 'grad':
    from mc.models import c08_grad
    return c08_grad.run_grad(res, case, member)
  if case['tf'] == 'rng':
    from mc.models import c08_rng
    return c08_rng.run_rng(res, case, member)
  raise ValueError(fam)


def _viol(res, clause, case, what, observed=None, expected=None):
  core.violation(res, f'{clause}|{ckey(case)}', what, case, observed=observed,
                 expected=expected)


def _j(a):
  try:
    return M.npv(a).tolist()
  except Exception:
    return repr(a)[:300]


def snapshot(vars_):
  out = {}
  for vid, v in vars_.items():
    a = M.npv(v.value)
    out[vid] = (str(a.dtype), a.shape, a.tobytes())
  return out


def expand_in_axes(case):
  ia = case['in_axes']
  if isinstance(ia, list) and ia and ia[0] == 'args':
    return list(ia[1]), tuple
  # one scalar prefix for all arguments
  return [ia] * len(case['args']), None


def run_iter(res, case, member):
  L = M.lazy()
  nnx, jnp, jax = L['nnx'], L['jnp'], L['jax']
  tf = case['tf']
  world = case['world']
  args_spec = case['args']
  n = case['n']
  reverse = bool(case.get('reverse', False))
  out_form = case.get('out', 'y')
  out_axes = case.get('out_axes', 0)
  in_list, as_tuple = expand_in_axes(case)
  has_h = any(a[0] == 'h' for a in args_spec)
  carry_mod = case.get('carry_mod')  # index of a module argument carried as a whole
  h_first = bool(case.get('h_first', True))
  x_idx = [i for i, a in enumerate(args_spec) if a[0] == 'x']
  x_axis = in_list[x_idx[0]] if x_idx else None

  vaxes = M.var_axes(world, args_spec, in_list)
  inconsistent = sorted(v for v, s in vaxes.items() if len(s) > 1)
  axes = {}
  for vid in world:
    s = vaxes.get(vid, {None})
    # data layout for an inconsistently aliased variable: the first int axis (shapes are
    # chosen square so that any of the axes would be accepted by jax)
    ints = sorted(a for a in s if isinstance(a, int))
    axes[vid] = next(iter(s)) if len(s) == 1 else (ints[0] if ints else None)
  nowrite = set()
  if tf == 'scan':
    nowrite = {vid for vid in world if axes[vid] is None}
  if case.get('bcast_write'):
    nowrite = set()
  body = make_body(case, nowrite)

  per, stacked = M.init_values(world, axes, n, member)
  xs = None
  x_arr = None
  if x_idx:
    xs = M.x_values(n, member)
    if x_axis is None:
      xs = [xs[0]] * n
      x_arr = jnp.asarray(xs[0])
    else:
      x_arr = jnp.asarray(np.stack(xs, axis=x_axis))
  h0 = jnp.asarray(np.array([1., 2.], np.float32)) if has_h else None
  x2_idx = [i for i, a in enumerate(args_spec) if a[0] == 'x2']
  x2_axis = in_list[x2_idx[0]] if x2_idx else None
  xs2 = x2_arr = None
  if x2_idx:
    xs2 = [v * 10 + 1 for v in M.x_values(n, member)]
    if x2_axis is None:
      xs2 = [xs2[0]] * n
      x2_arr = jnp.asarray(xs2[0])
    else:
      x2_arr = jnp.asarray(np.stack(xs2, axis=x2_axis))

  mapped = (any(isinstance(a, int) for a in axes.values()) or isinstance(x_axis, int)
            or isinstance(x2_axis, int))

  # ---- implementation objects -------------------------------------------------
  vars_ = M.build_vars(world, stacked)
  cache = {}
  args = tuple(M.build_arg(a, vars_, x=x_arr, h=h0, cache=cache, x2=x2_arr) for a in args_spec)
  before = snapshot(vars_)
  ids_before = {vid: id(v) for vid, v in vars_.items()}
  in_axes_real = (tuple(M.build_prefix_for(p, a, world) for p, a in zip(in_list, args_spec))
                  if as_tuple else M.build_prefix(case['in_axes']))
  out_axes_real = M.build_prefix(out_axes)
  if has_h or carry_mod is not None:
    out_axes_real = ((nnx.Carry, out_axes_real) if h_first else (out_axes_real, nnx.Carry))
  kw = {}
  if tf == 'vmap':
    if not mapped or case.get('size'):
      kw['axis_size'] = n
    make = lambda: nnx.vmap(body, in_axes=in_axes_real, out_axes=out_axes_real, **kw)
  else:
    if not mapped or case.get('size'):
      kw['length'] = n
    make = lambda: nnx.scan(body, in_axes=in_axes_real, out_axes=out_axes_real,
                            reverse=reverse, **kw)

  res['evals'] += 1
  nontrivial = (len({repr(a) for a in axes.values()}) > 1 or case['body'] != 'ro'
                or bool(inconsistent) or case['fam'] in ('VA', 'SA'))
  if nontrivial:
    res['nontrivial'].append(core.h(ckey(case)))

  # ---- inconsistent aliasing: must be rejected, nothing may change ---------------
  if inconsistent:
    err = None
    try:
      out = make()(*args)
    except ValueError as e:
      err = e
    except Exception as e:  # noqa: BLE001 - reported, not swallowed
      _viol(res, 'alias-wrong-error', case,
            f'inconsistent aliasing of {inconsistent} raised {type(e).__name__} instead of '
            f'ValueError: {str(e)[:200]}')
      res['_last'] = 'alias-wrong-error'
      return
    if err is None:
      _viol(res, 'alias-accepted', case,
            f'variables {inconsistent} are reachable under different axis specifications '
            f'{ {v: sorted(map(repr, vaxes[v])) for v in inconsistent} } but the call returned',
            observed={v: _j(vars_[v].value) for v in vars_})
      res['_last'] = 'alias-accepted'
      return
    after = snapshot(vars_)
    if after != before or any(id(vars_[v]) != ids_before[v] for v in vars_):
      _viol(res, 'alias-mutated', case,
            'rejected call (inconsistent aliasing) changed the state of its arguments',
            observed={v: _j(vars_[v].value) for v in vars_ if after[v] != before[v]})
    core.outcome(res, f'{tf}:alias-rejected')
    res['_last'] = 'alias-rejected'
    return

  if case.get('bcast_write'):
    # recorded only: what nnx.scan does with writes to broadcast (None-axis) state
    try:
      make()(*args)
      after = snapshot(vars_)
      written = [v for v in world if axes[v] is None and world[v][0] != 'RngKey']
      lab = 'dropped' if all(after[v] == before[v] for v in written) else 'changed'
    except Exception as e:  # noqa: BLE001 - outcome only
      lab = 'raises-' + type(e).__name__
    core.outcome(res, f'scan:bcast-write-{lab}')
    res['_last'] = 'bcast-write-' + lab
    return

  # ---- reference ---------------------------------------------------------------
  outs, finals, carried, h_ref = M.ref_iter(
    tf, world, args_spec, axes, per, body, xs, n, xs2=xs2, reverse=reverse, h0=h0,
    has_h=has_h or carry_mod is not None, h_first=h_first, out_form=out_form,
    carry_mod=carry_mod)
  disagree = None
  try:
    exp = M.expected_state(tf, world, axes, finals, carried, n)
  except M.Disagree as d:
    disagree = str(d)
    exp = None
  # output leaves with out axis None must agree as well
  exp_out = {}
  if disagree is None:
    for name in outs[0]:
      a = M.out_axis_of(out_form, out_axes, name)
      vals = [o[name] for o in outs]
      if isinstance(a, int):
        exp_out[name] = M.stack(vals, a)
      else:
        if any(not M.same(vals[0], v) for v in vals[1:]):
          disagree = 'out:' + name
          break
        exp_out[name] = vals[0]
  either = False
  if disagree is None and tf == 'vmap' and n == 1 and case['body'] in ('dep', 'wall'):
    # with one index nothing can disagree; the implementation may still refuse a mapped
    # value in a None-axis variable.  Decide with the length-2 version of the same case.
    per2, _ = M.init_values(world, axes, 2, member)
    xsb = M.x_values(2, member)
    xsb2 = [v * 10 + 1 for v in xsb]
    if x_axis is None:
      xsb = [xsb[0]] * 2
    if x2_axis is None:
      xsb2 = [xsb2[0]] * 2
    o2, f2, c2, _h2 = M.ref_iter(tf, world, args_spec, axes, per2, body, xsb if x_idx else None,
                                 2, xs2=xsb2 if x2_idx else None, h0=h0, has_h=has_h,
                                 h_first=h_first, out_form=out_form)
    try:
      M.expected_state(tf, world, axes, f2, c2, 2)
    except M.Disagree:
      either = True

  # ---- implementation ------------------------------------------------------------
  err = None
  try:
    out = make()(*args)
  except Exception as e:  # noqa: BLE001 - every exception is classified below
    err = e
  if disagree is not None:
    if err is None:
      _viol(res, 'none-disagree-accepted', case,
            f'the indices leave different values in None-axis state/output {disagree}; the '
            'implementation returned instead of raising',
            observed={v: _j(vars_[v].value) for v in vars_})
    elif not isinstance(err, ValueError):
      _viol(res, 'none-disagree-wrong-error', case,
            f'expected ValueError, got {type(err).__name__}: {str(err)[:200]}')
    core.outcome(res, f'{tf}:none-disagree-raises')
    res['_last'] = 'none-disagree-raises'
    return
  if err is not None:
    if either and isinstance(err, ValueError):
      core.outcome(res, f'{tf}:n1-mapped-none-write-raises')
      res['_last'] = 'n1-raises'
      return
    _viol(res, 'unexpected-raise', case,
          f'valid call raised {type(err).__name__}: {str(err)[:300]}')
    res['_last'] = 'unexpected-raise'
    return

  # outputs
  if has_h or carry_mod is not None:
    if h_first:
      h_out, out = out
    else:
      out, h_out = out
    if carry_mod is not None:
      if h_out is not args[carry_mod]:
        _viol(res, 'carry-identity', case, 'the carried module returned by scan is not the '
              'argument object')
    elif not M.same(h_out, h_ref):
      _viol(res, 'carry-out', case, 'final carry differs from the loop', observed=_j(h_out),
            expected=_j(h_ref))
  got = M.out_leaves(out_form, out)
  for name, e in exp_out.items():
    if not M.same(got[name], e):
      _viol(res, f'out-{name}', case,
            f'output leaf {name} differs from the {"loop" if tf == "scan" else "per-index stack"}',
            observed=_j(got[name]), expected=_j(e))
  # state, by Variable object
  bad = [v for v in world if not M.same(vars_[v].value, exp[v])]
  if bad:
    _viol(res, 'state', case,
          f'final value of variables {bad} differs from the reference',
          observed={v: _j(vars_[v].value) for v in bad}, expected={v: _j(exp[v]) for v in bad})
  # state, through nnx.state of every argument
  lv = M.leaf_vars(args_spec, args)
  seen_mods = {}
  for ai, key, path, vid, var in lv:
    if var is not vars_[vid]:
      _viol(res, 'identity', case, f'argument {ai} path {path} no longer holds the original '
            'Variable object')
    seen_mods.setdefault((ai, key), []).append((path, vid))
  for (ai, key), pv in seen_mods.items():
    mod = M.get_path(args[ai], key)
    flat = dict(nnx.state(mod).flat_state())
    want = dict(pv)
    cover = set()
    for path, vs in flat.items():
      if path not in want:
        _viol(res, 'state-paths', case, f'nnx.state(arg {ai}{list(key)}) has unexpected path {path}')
        continue
      vid = want[path]
      cover.add(vid)
      if not M.same(vs.value, exp[vid]) or vs.type is not M.lazy()['TYPES'][world[vid][0]]:
        _viol(res, 'nnx-state', case,
              f'nnx.state(arg {ai}{list(key)})[{path}] differs from the reference',
              observed=_j(vs.value), expected=_j(exp[vid]))
    if cover != set(want.values()):
      _viol(res, 'state-paths', case,
            f'nnx.state(arg {ai}{list(key)}) misses variables {sorted(set(want.values()) - cover)}')
  label = f'{tf}:ok:' + ','.join(f'{k}={axes[k]}' for k in sorted(axes))
  core.outcome(res, label[:80])
  res['_last'] = 'ok'


def make_body(case, nowrite=()):
  args_spec = case['args']
  has_h = any(a[0] == 'h' for a in args_spec)
  return M.make_body(args_spec, case['world'], case['body'], case.get('out', 'y'),
                     has_h=has_h, h_first=bool(case.get('h_first', True)),
                     carry_mod=case.get('carry_mod'), nowrite=nowrite)
