"""C08: nnx.split_rngs x vmap / scan.  Oracle: the per-index call (vmap) / loop (scan)
on the per-index slice of every split stream (key and count), shared (vmap) or
carried (scan) unsplit streams; relational key checks (pairwise distinct per-index
keys, unsplit streams equal, nothing reused after restore).  No SHA / fold_in
details are assumed: reference objects are plain nnx.Rngs built from the slices."""
from __future__ import annotations

import numpy as np

from mc.engine import core
from mc.models import c08_model as M
from mc.models.c08_run import _viol, _j, ckey

SEEDS = [(7, 11), (3, 5), (13, 2), (4, 9)]
STREAMS = ('a', 'b')


def kd(k):
  return M.npv(k)


def make_body(draws, mode):
  L = M.lazy()
  jax, jnp, nnx = L['jax'], L['jnp'], L['nnx']
  Box, Count = L['Box'], L['Count']

  def draw_all(rngs):
    outs = {}
    tot = jnp.zeros((2,), jnp.float32)
    for s, d in zip(STREAMS, draws):
      for j in range(d):
        k = rngs[s]()
        outs[f'{s}{j}'] = jax.random.key_data(k)
        r = jax.random.randint(k, (2,), 0, 1000)
        outs[f'r{s}{j}'] = r
        tot = tot + r.astype(jnp.float32)
    return outs, tot

  if mode == 'init':
    def create(rngs):
      outs, tot = draw_all(rngs)
      return Box(w=nnx.Param(tot + 1), c=Count(jnp.zeros((2,), jnp.int32)))
    return create

  def body(m, x):
    outs, tot = draw_all(m.rngs)
    y = m.w.value * x + tot
    return y, outs
  return body


def run_rng(res, case, member):
  L = M.lazy()
  jax, jnp, nnx = L['jax'], L['jnp'], L['nnx']
  Box, Count = L['Box'], L['Count']
  n, mode, form, draws = case['n'], case['mode'], case['form'], case['draws']
  only = case['only']
  p_axis = case['p_axis']
  seeds = SEEDS[member % 4]
  is_scan = mode in ('scan', 'scanC')
  reverse = bool(case.get('reverse')) and is_scan
  splits = (n,) if case.get('tuple_splits') else n

  wb = np.array([1., 2.], np.float32) + member
  ws = [wb + i for i in range(n)]
  xs = M.x_values(n, member)
  if mode == 'init':
    p_axis = None
  w_init = wb if p_axis is None else np.stack(ws, axis=p_axis)
  if p_axis is None:
    ws = [wb] * n

  def mk():
    return Box(w=nnx.Param(jnp.asarray(w_init)), rngs=nnx.Rngs(a=seeds[0], b=seeds[1]))

  def is_split(s):
    if only is None:
      return False
    return (M.pred(only, ('rngs', s, 'key'), 'RngKey', s)
            and M.pred(only, ('rngs', s, 'count'), 'RngCount', s))

  split = [s for s in STREAMS if is_split(s)]
  unsplit = [s for s in STREAMS if s not in split]
  rest = 'C' if is_scan else None
  pairs = [[['T', 'Param'], p_axis]]
  if split:
    pairs.append([['any'] + [['tag', s] for s in split], 0])
  pairs.append([['...'], rest])
  sa_json = ['sa', pairs, 'pairs']
  body = make_body(draws, mode)
  res['evals'] += 1
  res['nontrivial'].append(core.h(ckey(case)))

  # ---- the stacked keys / counts, from an identical twin (split_rngs is deterministic) ----
  twin = mk()
  orig = {s: (kd(twin.rngs[s].key.value), kd(twin.rngs[s].count.value)) for s in STREAMS}
  probe = mk()
  first_draw = {s: kd(probe.rngs[s]()) for s in STREAMS}  # what an unsplit stream would give next
  if only is not None:
    nnx.split_rngs(twin, splits=splits, only=M.to_filter(only))
  init = {s: (kd(twin.rngs[s].key.value), kd(twin.rngs[s].count.value)) for s in STREAMS}
  for s in split:
    k = init[s][0]
    if k.shape[0] != n or init[s][1].shape[:1] != (n,):
      _viol(res, 'split-shape', case, f'stream {s}: split key/count do not have leading size {n}',
            observed=[list(k.shape), list(init[s][1].shape)])
      return
    rows = {k[i].tobytes() for i in range(n)}
    if len(rows) != n or orig[s][0].tobytes() in rows:
      _viol(res, 'split-distinct', case,
            f'stream {s}: per-index keys after split_rngs are not pairwise distinct / contain '
            'the parent key', observed=k.tolist())
  for s in unsplit:
    if not (M.same(init[s][0], orig[s][0]) and M.same(init[s][1], orig[s][1])):
      _viol(res, 'split-only', case, f'stream {s} is not selected by only= but was changed',
            observed=[init[s][0].tolist(), init[s][1].tolist()])
      return  # the per-index reference below needs the streams in the predicted layout

  # ---- reference: per index / loop ------------------------------------------------------
  order = list(range(n))[::-1] if reverse else list(range(n))
  carried = {s: init[s][1] for s in unsplit}
  r_out = [None] * n
  r_cnt = {s: [None] * n for s in STREAMS}
  for i in order:
    kw = {}
    cnts = {}
    for s in STREAMS:
      if s in split:
        kw[s] = jax.random.wrap_key_data(jnp.asarray(init[s][0][i]))
        cnts[s] = init[s][1][i]
      else:
        kw[s] = jax.random.wrap_key_data(jnp.asarray(init[s][0]))
        cnts[s] = carried[s] if is_scan else init[s][1]
    rr = nnx.Rngs(**kw)
    for s in STREAMS:
      rr[s].count.value = jnp.asarray(cnts[s])
    if mode == 'init':
      o = body(rr)
      r_out[i] = {'w': M.npv(o.w.value), 'c': M.npv(o.c.value)}
    else:
      mi = Box(w=nnx.Param(jnp.asarray(ws[i])), rngs=rr)
      y, outs = body(mi, jnp.asarray(xs[i]))
      r_out[i] = dict({k: M.npv(v) for k, v in outs.items()}, y=M.npv(y))
    for s in STREAMS:
      r_cnt[s][i] = M.npv(rr[s].count.value)
      if s in unsplit and is_scan:
        carried[s] = r_cnt[s][i]

  # relational key facts on the reference run (they are facts about the split keys)
  for s in STREAMS:
    d = draws[STREAMS.index(s)]
    keys = [[r_out[i].get(f'{s}{j}') for j in range(d)] for i in range(n)] if mode != 'init' else []
    if mode != 'init' and d:
      flat = [k.tobytes() for row in keys for k in row]
      if s in split or is_scan:
        if len(set(flat)) != len(flat):
          _viol(res, 'keys-distinct', case,
                f'stream {s}: keys drawn at different indices / steps / draws collide')
      else:
        for j in range(d):
          if len({keys[i][j].tobytes() for i in range(n)}) != 1:
            _viol(res, 'keys-unsplit-equal', case,
                  f'unsplit stream {s} gives different keys at different indices (reference)')

  # ---- implementation ---------------------------------------------------------------------
  m = mk()
  sa = M.build_prefix(sa_json)
  if mode == 'init':
    oax = [0, 1][n % 2]
    out_sa = nnx.StateAxes({nnx.Param: oax, Count: None})
    rng_pairs = [p for p in pairs if p[0] != ['T', 'Param']]
    tfn = nnx.vmap(body, in_axes=(M.build_prefix(['sa', rng_pairs, 'pairs']),), out_axes=out_sa,
                   axis_size=n)
    call_args = (m.rngs,)
  elif is_scan:
    tfn = nnx.scan(body, in_axes=(sa, 0), out_axes=0, reverse=reverse, length=n)
    call_args = (m, jnp.asarray(np.stack(xs, 0)))
  else:
    tfn = nnx.vmap(body, in_axes=(sa, 0), out_axes=0, axis_size=n)
    call_args = (m, jnp.asarray(np.stack(xs, 0)))

  inside = {}

  def call():
    out = tfn(*call_args)
    for s in STREAMS:
      inside[s] = (kd(m.rngs[s].key.value), kd(m.rngs[s].count.value))
    return out

  try:
    if form == 'none':
      out = call()
    elif form == 'ctx':
      with nnx.split_rngs(m, splits=splits, only=M.to_filter(only)):
        out = call()
    elif form == 'manual':
      nnx.split_rngs(m, splits=splits, only=M.to_filter(only))
      out = call()
    elif form == 'deco':
      def inner(*a):
        return call()
      out = nnx.split_rngs(splits=splits, only=M.to_filter(only))(inner)(*call_args)
    else:
      raise ValueError(form)
  except Exception as e:  # noqa: BLE001 - reported
    _viol(res, 'rng-unexpected-raise', case, f'valid call raised {type(e).__name__}: {str(e)[:300]}')
    return

  # outputs
  if mode == 'init':
    exp_w = M.stack([r['w'] for r in r_out], oax)
    if not M.same(out.w.value, exp_w):
      _viol(res, 'rng-init-param', case, 'parameters created under vmap differ from per-index '
            'creation with the per-index keys', observed=_j(out.w.value), expected=_j(exp_w))
    if not M.same(out.c.value, r_out[0]['c']):
      _viol(res, 'rng-init-count', case, 'None-axis output variable differs')
  else:
    y, outs = out
    if not M.same(y, M.stack([r['y'] for r in r_out], 0)):
      _viol(res, 'rng-out', case, 'output differs from the per-index / loop reference',
            observed=_j(y), expected=_j(M.stack([r['y'] for r in r_out], 0)))
    for k in outs:
      e = M.stack([r[k] for r in r_out], 0)
      if not M.same(outs[k], e):
        _viol(res, 'rng-keys', case, f'drawn key / sample {k} differs from the reference',
              observed=_j(outs[k]), expected=_j(e))
  # rng state right after the transformed call (before restore)
  for s in STREAMS:
    k_in, c_in = inside[s]
    if s in split:
      e = M.stack(r_cnt[s], 0)
    elif is_scan:
      e = carried[s]
    else:
      e = r_cnt[s][0]
    if not M.same(c_in, e):
      _viol(res, 'rng-count', case, f'count of stream {s} after the call differs from the reference',
            observed=_j(c_in), expected=_j(e))
    if not M.same(k_in, init[s][0]):
      _viol(res, 'rng-key-changed', case, f'key of stream {s} was changed by the call')
  # after restore
  if form in ('ctx', 'deco'):
    used = set()
    if mode != 'init':
      for r in r_out:
        for k, v in r.items():
          if k[0] in STREAMS and not k.startswith('r') and k != 'y':
            used.add(v.tobytes())
    for s in split:
      if not M.same(m.rngs[s].key.value, orig[s][0]):
        _viol(res, 'rng-restore', case, f'stream {s}: key not restored after split_rngs')
        continue
      try:
        nxt = kd(m.rngs[s]())
      except Exception as e:  # noqa: BLE001 - reported
        _viol(res, 'rng-restore', case,
              f'stream {s}: drawing after restore raised {type(e).__name__}: {str(e)[:200]}')
        continue
      if nxt.tobytes() in used or nxt.tobytes() == first_draw[s].tobytes():
        _viol(res, 'rng-reuse', case,
              f'stream {s}: the first key drawn after restore repeats a key already used '
              '(inside the transform, or as the parent of the split)')
  core.outcome(res, f'rng:{mode}:{form}:split={"".join(split) or "-"}:n={n}')
  res['_last'] = 'ok'
