"""C03 helpers (DESIGN §4 C03): graph specs and their bounded-exhaustive
enumeration, the plain-Python reference model of an NNX object graph, the
builder of the real graph, canonical forms of both sides, filter terms.

Nothing here calls flax.nnx.graph / statelib / filterlib code to *compute* an
expectation: the reference side is dicts, lists and tuples; the real side is
read with `vars()`, `isinstance`, `.value`, `.get_metadata()` only.

Spec (JSON-able): {'nodes': [[cls, [[name, slot], ...]], ...]}, root = node 0.
  slot  ::= ['n', j] | ['v', i] | [K, e, e] (K in 'L','T','D') |
            ['a', 'np'|'jax'] | ['s', int|str|None]
  e     ::= ['n', j] | ['v', i]
Variable pool: v0 = Param, v1 = BatchStat(tag='u'), v2 = TParam(tag='t') (Param subclass).
Dict containers have the keys 'p', 'q'.
"""
from __future__ import annotations

import itertools

import numpy as np

NAMES = ('a', 'b', 'c')
VAR_TYPES = ('Param', 'BatchStat', 'TParam')
VAR_META = ({}, {'tag': 'u'}, {'tag': 't'})
MRO = {'Param': ('Param', 'Variable'), 'BatchStat': ('BatchStat', 'Variable'),
       'TParam': ('TParam', 'Param', 'Variable')}
DKEYS = ('p', 'q')

# integer-valued float32 data of different shapes; VERIF_SEED rotates the pool
_POOL = [np.array([1., 2.], np.float32), np.array([[3.]], np.float32),
         np.array([4., 5., 6.], np.float32), np.array([[7., 8.]], np.float32),
         np.array(9., np.float32)]


def pool_value(i, seed):
  """Value number i (variables 0..2, raw arrays 3..) — all distinct for every seed."""
  return (_POOL[(seed + i) % len(_POOL)] + np.float32(10 * i)).astype(np.float32)


# ---------------------------------------------------------------------------
# enumeration


def _t(x):
  return tuple(_t(y) for y in x) if isinstance(x, (list, tuple)) else x


def tolist(x):
  return [tolist(y) for y in x] if isinstance(x, (list, tuple)) else x


_NA_CACHE = {}


def node_assignments(n, plain_inert, cont_kinds, vars_, width, max_cont):
  """All ordered slot tuples of one node of an n-node graph: a plain slot
  (node ref, Variable, inert) has width 1, a container (two entries) width 2."""
  key = (n, tuple(plain_inert), tuple(cont_kinds), tuple(vars_), width, max_cont)
  if key not in _NA_CACHE:
    _NA_CACHE[key] = _node_assignments(*key)
  return _NA_CACHE[key]


def _node_assignments(n, plain_inert, cont_kinds, vars_, width, max_cont):
  refs = [('n', j) for j in range(n)]
  vs = [('v', i) for i in vars_]
  plain = refs + vs + list(plain_inert)
  entries = refs + vs
  conts = [(k, e1, e2) for k in cont_kinds for e1 in entries for e2 in entries]
  out = []

  def rec(cur, w, nc):
    out.append(tuple(cur))
    if len(cur) == len(NAMES):
      return
    if w + 1 <= width:
      for s in plain:
        rec(cur + [s], w + 1, nc)
    if w + 2 <= width and nc < max_cont:
      for s in conts:
        rec(cur + [s], w + 2, nc + 1)

  rec([], 0, 0)
  return out


def _slot_refs(slot):
  if slot[0] == 'n':
    return (slot[1],)
  if slot[0] in 'LTD':
    return tuple(e[1] for e in slot[1:] if e[0] == 'n')
  return ()


def visit_order(assigns):
  """Node first-visit order of the sorted-attribute DFS from node 0."""
  order = []
  seen = set()

  def rec(i):
    seen.add(i)
    order.append(i)
    for slot in assigns[i]:
      for j in _slot_refs(slot):
        if j not in seen:
          rec(j)

  rec(0)
  return order


def _n_cont(assign):
  return sum(1 for s in assign if s[0] in 'LTD')


def family_graphs(fam, n, root_index, part=0, parts=1):
  """Specs of family `fam` with exactly n nodes whose root has assignment number
  `root_index`; canonical representatives only: every node reachable from the
  root and nodes numbered in first-visit order (so each isomorphism class of
  the family appears exactly once over all root indices)."""
  A = node_assignments(n, _t(fam['inert']), fam['cont'], fam['vars'], fam['width'],
                       fam['node_cont'])
  root = A[root_index]
  gmax = fam['graph_cont']
  ident = list(range(n))
  if fam.get('names') == 'subsets':
    namesets = {k: list(itertools.combinations(NAMES, k)) for k in range(len(NAMES) + 1)}
  else:
    namesets = {k: [NAMES[:k]] for k in range(len(NAMES) + 1)}
  # M and N are interchangeable (two empty nnx.Module subclasses), so the root
  # class is fixed to the first one: class vectors up to renaming.
  classes = [(fam['classes'][0],) + r for r in itertools.product(fam['classes'], repeat=n - 1)]
  k = 0
  for rest in itertools.product(A, repeat=n - 1):
    assigns = (root,) + rest
    nc = sum(map(_n_cont, assigns))
    if nc > gmax or nc < fam.get('need_cont', 0):
      continue
    if fam.get('need_width') and max(len(a) + _n_cont(a) for a in assigns) < fam['need_width']:
      continue
    if visit_order(assigns) != ident:
      continue
    for names in itertools.product(*[namesets[len(a)] for a in assigns]):
      for cl in classes:
        k += 1
        if (k - 1) % parts != part:
          continue
        yield {'nodes': [[cl[i], [[names[i][q], tolist(s)] for q, s in enumerate(assigns[i])]]
                         for i in range(n)]}


def n_root_assignments(fam, n):
  return len(node_assignments(n, _t(fam['inert']), fam['cont'], fam['vars'], fam['width'],
                              fam['node_cont']))


def root_reaches_all_possible(fam, n, root_index):
  """Cheap pre-filter for unit generation: with n > 1 the root must reference
  node 1 first (canonical numbering)."""
  if n == 1:
    return True
  A = node_assignments(n, _t(fam['inert']), fam['cont'], fam['vars'], fam['width'],
                       fam['node_cont'])
  refs = [j for s in A[root_index] for j in _slot_refs(s) if j != 0]
  return bool(refs) and refs[0] == 1


def slot_text(s):
  k = s[0]
  if k == 'n':
    return f'n{s[1]}'
  if k == 'v':
    return f'v{s[1]}'
  if k == 'L':
    return '[' + ','.join(slot_text(e) for e in s[1:]) + ']'
  if k == 'T':
    return '(' + ','.join(slot_text(e) for e in s[1:]) + ')'
  if k == 'D':
    return '{' + ','.join(f'{dk}:{slot_text(e)}' for dk, e in zip(DKEYS, s[1:])) + '}'
  if k == 'a':
    return 'arr_' + s[1]
  return 's:' + repr(s[1])


def spec_text(spec):
  return ';'.join(f'{cls}{i}<' + ','.join(f'{nm}={slot_text(s)}' for nm, s in attrs) + '>'
                  for i, (cls, attrs) in enumerate(spec['nodes']))


# ---------------------------------------------------------------------------
# reference model


_SIG = {}


def sig(x):
  """(dtype, shape, bytes); memoised per array object (arrays are never
  mutated in place here; the object is kept alive so its id stays unique)."""
  e = _SIG.get(id(x))
  if e is not None and e[0] is x:
    return e[1]
  a = np.asarray(x)
  s = (str(a.dtype), tuple(a.shape), a.tobytes())
  if len(_SIG) > 4096:
    _SIG.clear()
  _SIG[id(x)] = (x, s)
  return s


def meta_sig(m):
  return tuple(sorted((k, repr(v)) for k, v in m.items()))


class RefError(Exception):
  def __init__(self, kind):
    super().__init__(kind)
    self.kind = kind


class RefGraph:
  """node table {nid: [cls, {name: slot}]}, variable table {vid: [type, value, meta]}.
  Internal slots: ('n', nid) ('v', vid) ('L', [slot..]) ('T', (slot..))
  ('D', {key: slot}) ('a', ndarray) ('s', value)."""

  def __init__(self):
    self.nodes = {}
    self.vars = {}
    self.root = 0

  @classmethod
  def from_spec(cls, spec, seed):
    g = cls()
    arr_no = [0]

    def conv(s):
      k = s[0]
      if k == 'n':
        return ('n', s[1])
      if k == 'v':
        i = s[1]
        if i not in g.vars:
          g.vars[i] = [VAR_TYPES[i], pool_value(i, seed), dict(VAR_META[i])]
        return ('v', i)
      if k == 'L':
        return ('L', [conv(e) for e in s[1:]])
      if k == 'T':
        return ('T', tuple(conv(e) for e in s[1:]))
      if k == 'D':
        return ('D', {dk: conv(e) for dk, e in zip(DKEYS, s[1:])})
      if k == 'a':
        arr_no[0] += 1
        return ('a', pool_value(2 + arr_no[0], seed), s[1])
      return ('s', s[1])

    for i, (c, attrs) in enumerate(spec['nodes']):
      g.nodes[i] = [c, {nm: conv(s) for nm, s in attrs}]
    return g

  def clone(self):
    def cp(s):
      k = s[0]
      if k == 'L':
        return ('L', [cp(e) for e in s[1]])
      if k == 'T':
        return ('T', tuple(cp(e) for e in s[1]))
      if k == 'D':
        return ('D', {dk: cp(e) for dk, e in s[1].items()})
      if k == 'a':
        return ('a', np.array(s[1]), s[2])
      return s
    g = RefGraph()
    g.root = self.root
    g.nodes = {i: [c, {nm: cp(s) for nm, s in attrs.items()}]
               for i, (c, attrs) in self.nodes.items()}
    g.vars = {i: [t, np.array(v), dict(m)] for i, (t, v, m) in self.vars.items()}
    return g

  # children of a slot in traversal order: [(key, slot)]
  @staticmethod
  def _children(s):
    k = s[0]
    if k in 'LT':
      return list(enumerate(s[1]))
    if k == 'D':
      return sorted(s[1].items())
    return []

  def canon(self):
    """(types, static attrs, Variable type/value/metadata, identity partition as
    first-visit indices of graph nodes and Variables); containers by value."""
    idx = {}

    def rec(s):
      k = s[0]
      if k == 'n':
        key = ('n', s[1])
        if key in idx:
          return ('ref', idx[key])
        idx[key] = i = len(idx)
        c, attrs = self.nodes[s[1]]
        return ('node', i, c, tuple((nm, rec(attrs[nm])) for nm in sorted(attrs)))
      if k == 'v':
        key = ('v', s[1])
        if key in idx:
          return ('ref', idx[key])
        idx[key] = i = len(idx)
        t, v, m = self.vars[s[1]]
        return ('var', i, t, sig(v), meta_sig(m))
      if k == 'L':
        return ('list', tuple(rec(e) for e in s[1]))
      if k == 'T':
        return ('tuple', tuple(rec(e) for e in s[1]))
      if k == 'D':
        return ('dict', tuple((dk, rec(e)) for dk, e in sorted(s[1].items())))
      if k == 'a':
        return ('arr', sig(s[1]))
      return ('static', type(s[1]).__name__, repr(s[1]))

    return rec(('n', self.root))

  def flat(self):
    """Leaves in sorted-attribute DFS order: [(path, ('v', vid) | ('a', nid, name))];
    a Variable is listed at its first path only; graph nodes are entered once."""
    out = []
    seen = set()

    def rec(s, path, holder):
      k = s[0]
      if k == 'n':
        if ('n', s[1]) in seen:
          return
        seen.add(('n', s[1]))
        attrs = self.nodes[s[1]][1]
        for nm in sorted(attrs):
          rec(attrs[nm], path + (nm,), ('node', s[1], nm))
      elif k == 'v':
        if ('v', s[1]) in seen:
          return
        seen.add(('v', s[1]))
        out.append((path, ('v', s[1])))
      elif k in 'LTD':
        for key, e in self._children(s):
          rec(e, path + (key,), ('cont', k))
      elif k == 'a':
        out.append((path, ('a',) + holder))

    rec(('n', self.root), (), None)
    return out

  def leaf_desc(self, leaf):
    if leaf[0] == 'v':
      t, v, m = self.vars[leaf[1]]
      return ('var', t, sig(v), meta_sig(m))
    s = self.nodes[leaf[2]][1][leaf[3]]
    return ('arr', sig(s[1]))

  def leaf_value(self, leaf):
    if leaf[0] == 'v':
      return self.vars[leaf[1]][1]
    return self.nodes[leaf[2]][1][leaf[3]][1]

  def match(self, f, path, leaf):
    k = f[0]
    if k == '...':
      return True
    if k == 'type':
      return leaf[0] == 'v' and f[1] in MRO[self.vars[leaf[1]][0]]
    if k == 'tag':
      return leaf[0] == 'v' and self.vars[leaf[1]][2].get('tag') == f[1]
    if k == 'path':
      return f[1] in path
    if k == 'not':
      return not self.match(f[1], path, leaf)
    if k == 'any':
      return any(self.match(g, path, leaf) for g in f[1:])
    if k == 'all':
      return all(self.match(g, path, leaf) for g in f[1:])
    raise ValueError(f)

  def partition(self, filters):
    """first-match partition of the flat leaves: ([group per filter], remainder)."""
    groups = [[] for _ in filters]
    rest = []
    for path, leaf in self.flat():
      for i, f in enumerate(filters):
        if self.match(f, path, leaf):
          groups[i].append((path, leaf))
          break
      else:
        rest.append((path, leaf))
    return groups, rest

  def descs(self, group):
    return [(p, self.leaf_desc(l)) for p, l in group]

  def set_leaf(self, leaf, value):
    value = np.array(value, np.float32)
    if leaf[0] == 'v':
      self.vars[leaf[1]][1] = value
    else:
      attrs = self.nodes[leaf[2]][1]
      attrs[leaf[3]] = ('a', value, attrs[leaf[3]][2])

  def pop(self, filters):
    """Remove every selected Variable from the graph-node attribute where the
    sorted DFS first selects it; a selected Variable inside a list/tuple/dict
    cannot be removed -> RefError.  Raw arrays are not Variables and stay.
    Only path-independent filters are used, so 'first selected' = first path."""
    groups = [[] for _ in filters]
    seen = set()
    popped = set()

    def rec(s, path):
      k = s[0]
      if k == 'n':
        if s[1] in seen:
          return
        seen.add(s[1])
        attrs = self.nodes[s[1]][1]
        for nm in sorted(attrs):
          e = attrs[nm]
          if e[0] == 'v':
            if e[1] in popped:
              continue
            for i, f in enumerate(filters):
              if self.match(f, path + (nm,), e):
                groups[i].append((path + (nm,), e[1]))
                popped.add(e[1])
                del attrs[nm]
                break
          else:
            rec(e, path + (nm,))
      elif k in 'LTD':
        for key, e in self._children(s):
          if e[0] == 'v':
            if e[1] in popped:
              continue
            if any(self.match(f, path + (key,), e) for f in filters):
              raise RefError('pop-in-container')
          else:
            rec(e, path + (key,))

    rec(('n', self.root), ())
    out = []
    for gr in groups:
      d = []
      for p, vid in gr:
        t, v, m = self.vars[vid]
        d.append((p, ('var', t, sig(v), meta_sig(m))))
      out.append(d)
    return out

  def first_paths(self):
    """{('n', nid) | ('v', vid): first path}, plus the paths of containers
    (each container object exists once per slot)."""
    first = {}
    conts = []

    def rec(s, path):
      k = s[0]
      if k == 'n':
        if ('n', s[1]) in first:
          return
        first[('n', s[1])] = path
        attrs = self.nodes[s[1]][1]
        for nm in sorted(attrs):
          rec(attrs[nm], path + (nm,))
      elif k == 'v':
        first.setdefault(('v', s[1]), path)
      elif k in 'LTD':
        conts.append(path)
        for key, e in self._children(s):
          rec(e, path + (key,))

    rec(('n', self.root), ())
    return first, conts

  def sharing(self):
    """True when some graph node or Variable is reachable along >= 2 paths
    (sharing, diamond or cycle) — the non-triviality rule."""
    count = {}
    seen = set()

    def rec(s):
      k = s[0]
      if k == 'n':
        count[('n', s[1])] = count.get(('n', s[1]), 0) + 1
        if s[1] in seen:
          return
        seen.add(s[1])
        for e in self.nodes[s[1]][1].values():
          rec(e)
      elif k == 'v':
        count[('v', s[1])] = count.get(('v', s[1]), 0) + 1
      elif k in 'LTD':
        for _, e in self._children(s):
          rec(e)

    rec(('n', self.root))
    return any(c > 1 for c in count.values())


# ---------------------------------------------------------------------------
# the real side

_RT = None


def rt():
  """Real classes (created once per process, after flax is bound to the tree)."""
  global _RT
  if _RT is None:
    import jax
    import jax.numpy as jnp
    from flax import nnx

    class M(nnx.Module):
      def __init__(self):
        pass

    class N(nnx.Module):
      def __init__(self):
        pass

    class TParam(nnx.Param):
      pass

    _RT = dict(nnx=nnx, jax=jax, jnp=jnp, M=M, N=N, Param=nnx.Param, BatchStat=nnx.BatchStat,
               TParam=TParam, Variable=nnx.Variable, Object=nnx.Object,
               VariableState=nnx.VariableState, arrays=(np.ndarray, jax.Array))
  return _RT


_JARR = {}


def jarr(v):
  """jax array of a numpy value; memoised by content (jax arrays are immutable)."""
  a = np.asarray(v)
  key = (str(a.dtype), a.shape, a.tobytes())
  x = _JARR.get(key)
  if x is None:
    if len(_JARR) > 4096:
      _JARR.clear()
    x = _JARR[key] = rt()['jnp'].asarray(a)
  return x


def build_real(model):
  """Live NNX graph of a reference model.  Attributes (and dict keys) are set
  in *reverse* sorted order so that insertion order differs from sorted order."""
  R = rt()
  jnp = R['jnp']
  nodes = {i: R[c]() for i, (c, _) in model.nodes.items()}
  vs = {i: R[t](jarr(v), **m) for i, (t, v, m) in model.vars.items()}

  def mk(s):
    k = s[0]
    if k == 'n':
      return nodes[s[1]]
    if k == 'v':
      return vs[s[1]]
    if k == 'L':
      return [mk(e) for e in s[1]]
    if k == 'T':
      return tuple(mk(e) for e in s[1])
    if k == 'D':
      return {dk: mk(s[1][dk]) for dk in sorted(s[1], reverse=True)}
    if k == 'a':
      return jarr(s[1]) if s[2] == 'jax' else np.array(s[1])
    return s[1]

  for i, (_, attrs) in model.nodes.items():
    for nm in sorted(attrs, reverse=True):
      setattr(nodes[i], nm, mk(attrs[nm]))
  return nodes[model.root]


def _attrs(obj):
  return sorted((k, v) for k, v in vars(obj).items() if k != '_object__state')


def canon_real(root):
  """Same canonical form as RefGraph.canon, read off the live objects."""
  R = rt()
  Variable, Object, arrays = R['Variable'], R['Object'], R['arrays']
  idx = {}

  def rec(x):
    if isinstance(x, Variable):
      if id(x) in idx:
        return ('ref', idx[id(x)])
      idx[id(x)] = i = len(idx)
      return ('var', i, type(x).__name__, sig(x.value), meta_sig(x.get_metadata()))
    if isinstance(x, Object):
      if id(x) in idx:
        return ('ref', idx[id(x)])
      idx[id(x)] = i = len(idx)
      return ('node', i, type(x).__name__, tuple((nm, rec(v)) for nm, v in _attrs(x)))
    t = type(x)
    if t is list:
      return ('list', tuple(rec(e) for e in x))
    if t is tuple:
      return ('tuple', tuple(rec(e) for e in x))
    if t is dict:
      return ('dict', tuple((dk, rec(x[dk])) for dk in sorted(x)))
    if isinstance(x, arrays):
      return ('arr', sig(x))
    return ('static', t.__name__, repr(x))

  return rec(root)


def snapshot(root):
  """Every edge of the live graph with the identity of its target:
  [(path, kind, id)], kind in obj (graph node / Variable / container) | leaf
  (raw array, Variable payload, static).  Graph nodes are entered once."""
  R = rt()
  Variable, Object = R['Variable'], R['Object']
  out = []
  seen = set()

  def rec(x, path):
    if isinstance(x, Variable):
      out.append((path, 'obj', id(x)))
      if id(x) not in seen:
        seen.add(id(x))
        out.append((path + ('<value>',), 'leaf', id(x.raw_value)))
        out.append((path + ('<meta>',), 'obj', id(x.get_metadata())))
      return
    if isinstance(x, Object):
      out.append((path, 'obj', id(x)))
      if id(x) in seen:
        return
      seen.add(id(x))
      for nm, v in _attrs(x):
        rec(v, path + (nm,))
      return
    t = type(x)
    if t is list or t is tuple:
      out.append((path, 'obj', id(x)))
      for i, e in enumerate(x):
        rec(e, path + (i,))
    elif t is dict:
      out.append((path, 'obj', id(x)))
      for dk in sorted(x):
        rec(x[dk], path + (dk,))
    else:
      out.append((path, 'leaf', id(x)))

  rec(root, ())
  return out


def objects(root):
  """(graph nodes, Variables, mutable containers) reachable from root, each once."""
  R = rt()
  Variable, Object = R['Variable'], R['Object']
  nodes, vs, conts = {}, {}, {}

  def rec(x):
    if isinstance(x, Variable):
      vs[id(x)] = x
    elif isinstance(x, Object):
      if id(x) in nodes:
        return
      nodes[id(x)] = x
      for _, v in _attrs(x):
        rec(v)
    elif type(x) in (list, tuple):
      if type(x) is list:
        conts[id(x)] = x
      for e in x:
        rec(e)
    elif type(x) is dict:
      conts[id(x)] = x
      for e in x.values():
        rec(e)

  rec(root)
  return nodes, vs, conts


def resolve(root, path):
  x = root
  for k in path:
    if isinstance(x, (list, tuple, dict)):
      x = x[k]
    else:
      x = vars(x)[k]
  return x


def flat_real_state(state):
  """[(path, desc)] of a State / nested mapping in its own iteration order,
  and whether the keys of every level iterate in sorted order."""
  from collections.abc import Mapping
  VS = rt()['VariableState']
  out = []
  ordered = [True]

  def rec(x, path):
    if isinstance(x, Mapping):
      ks = list(x.keys())
      if ks != sorted(ks):
        ordered[0] = False
      for k in ks:
        rec(x[k], path + (k,))
    elif isinstance(x, VS):
      out.append((path, ('var', x.type.__name__, sig(x.value), meta_sig(x.get_metadata()))))
    else:
      out.append((path, ('arr', sig(x))))

  rec(state, ())
  return out, ordered[0]


def real_filter(f):
  R = rt()
  nnx = R['nnx']
  k = f[0]
  if k == '...':
    return ...
  if k == 'type':
    return R[f[1]]
  if k == 'tag':
    return f[1]
  if k == 'path':
    return nnx.PathContains(f[1])
  if k == 'not':
    return nnx.Not(real_filter(f[1]))
  if k == 'any':
    return tuple(real_filter(g) for g in f[1:])
  if k == 'all':
    return nnx.All(*[real_filter(g) for g in f[1:]])
  raise ValueError(f)


def ftext(f):
  k = f[0]
  if k == '...':
    return '...'
  if k in ('type', 'tag', 'path'):
    return f[1] if k == 'type' else f'{k}:{f[1]}'
  return k + '(' + ','.join(ftext(g) for g in f[1:]) + ')'


def nested(pairs):
  """[(path, value)] -> nested plain dict."""
  out = {}
  for path, v in pairs:
    cur = out
    for k in path[:-1]:
      cur = cur.setdefault(k, {})
    cur[path[-1]] = v
  return out


def show(c):
  """canonical form -> JSON-able (bytes -> hex)."""
  if isinstance(c, bytes):
    return c.hex()
  if isinstance(c, (tuple, list)):
    return [show(x) for x in c]
  return c
