"""C12 reference models: the documented formulas of the feed-forward layers in
plain NumPy float64 (no jax, no lax, no flax).

Everything here is written from the docstrings of flax.linen / flax.nnx (and,
where those defer to it, of jax.lax): direct-sum convolution with explicit
index arithmetic, table lookup, window reduction, the normalisation formulas,
and the dtype promotion rule.  Nothing in this file imports the code under
test, so agreement between the two is evidence and not a tautology.
"""
from __future__ import annotations

import itertools

import numpy as np

F64 = np.float64


# --------------------------------------------------------------------------
# dtypes: "dtype: the dtype of the computation (default: infer from input and
# params)".  Inference is numpy-style promotion restricted to the alphabet.

_FLOATS = ('bf16', 'f16', 'f32')
UNIT = {'f32': 2.0 ** -24, 'bf16': 2.0 ** -8, 'f16': 2.0 ** -11}  # unit round-off


def promote(*names):
  """Result type of the given dtype names (None entries ignored).  Two
  different float types of the alphabet always promote to f32 (bf16 and f16
  have no common 16-bit super-type); integers promote to the float present,
  and to f32 when a layer needs an inexact type."""
  fl = sorted({n for n in names if n in _FLOATS})
  if not fl:
    return 'f32'
  if len(fl) == 1:
    return fl[0]
  return 'f32'


def out_dtype(dtype, *operands):
  return dtype if dtype is not None else promote(*operands)


# --------------------------------------------------------------------------
# generic helpers


def tup(v, n):
  """None -> (1,)*n ("None as sentinel for broadcast 1"), int -> (v,)*n."""
  if v is None:
    v = 1
  if isinstance(v, (int, np.integer)):
    return (int(v),) * n
  v = tuple(int(a) for a in v)
  assert len(v) == n
  return v


def canon_padding(padding, nd):
  """str stays; int p -> [(p, p)]*nd; a sequence of nd ints / (lo, hi) pairs."""
  if isinstance(padding, str):
    return padding
  if isinstance(padding, (int, np.integer)):
    return [(int(padding), int(padding))] * nd
  out = []
  for p in padding:
    if isinstance(p, (int, np.integer)):
      out.append((int(p), int(p)))
    else:
      lo, hi = p
      out.append((int(lo), int(hi)))
  assert len(out) == nd
  return out


def same_pads(L, k_eff, s):
  """'SAME': output length ceil(L/s); the zero padding needed for that is split
  with the extra element on the high side (the XLA / TensorFlow convention)."""
  out = -(-L // s)
  total = max((out - 1) * s + k_eff - L, 0)
  return total // 2, total - total // 2


def reflect_index(p, L):
  """Reflection across the boundary element (edge not repeated)."""
  if L == 1:
    return 0
  period = 2 * (L - 1)
  q = p % period
  return q if q < L else period - q


# --------------------------------------------------------------------------
# convolution geometry: per spatial dimension a table  imap[o][k] -> input
# index (or -1 when the tap reads padding / a dilation hole)


def dim_map(L, k, s, idil, kdil, mode, lo=0, hi=0):
  """One spatial dimension of a (cross-correlation) convolution.

  The input of length L is first dilated by `idil` (idil-1 zeros between
  neighbours), then extended according to `mode`, then a window of k taps
  spaced `kdil` apart slides with stride `s`.
  mode: 'zero' (explicit lo/hi zero padding), 'SAME', 'VALID', 'CAUSAL'
  (zero-pad the left so that the output at t only reads inputs <= t),
  'CIRCULAR' (periodic), 'REFLECT'.
  """
  k_eff = (k - 1) * kdil + 1
  Ld = (L - 1) * idil + 1
  if mode == 'VALID':
    lo, hi = 0, 0
  elif mode == 'SAME':
    lo, hi = same_pads(Ld, k_eff, s)
  elif mode == 'CAUSAL':
    lo, hi = k_eff - 1, 0
  elif mode in ('CIRCULAR', 'REFLECT'):
    # same-sized output at stride 1: as many border elements as SAME would pad
    lo, hi = same_pads(Ld, k_eff, 1)
    assert idil == 1
  else:
    assert mode == 'zero', mode
  total = Ld + lo + hi
  n_out = (total - k_eff) // s + 1 if total >= k_eff else 0
  table = []
  for o in range(n_out):
    row = []
    for kk in range(k):
      p = o * s + kk * kdil - lo
      if mode == 'CIRCULAR':
        row.append(p % L)
      elif mode == 'REFLECT':
        row.append(reflect_index(p, L))
      elif 0 <= p < Ld and p % idil == 0:
        row.append(p // idil)
      else:
        row.append(-1)
    table.append(row)
  return table


def conv_maps(spatial, ksize, strides, idil, kdil, padding):
  nd = len(ksize)
  pad = canon_padding(padding, nd)
  maps = []
  for d in range(nd):
    if isinstance(pad, str):
      maps.append(dim_map(spatial[d], ksize[d], strides[d], idil[d], kdil[d], pad))
    else:
      maps.append(dim_map(spatial[d], ksize[d], strides[d], idil[d], kdil[d], 'zero',
                          pad[d][0], pad[d][1]))
  return maps


def conv_out_spatial(spatial, ksize, strides=None, input_dilation=None,
                     kernel_dilation=None, padding='SAME'):
  nd = len(ksize)
  maps = conv_maps(spatial, ksize, tup(strides, nd), tup(input_dilation, nd),
                   tup(kernel_dilation, nd), padding)
  return tuple(len(m) for m in maps)


def conv(x, kernel, bias=None, *, nd, strides=None, input_dilation=None,
         kernel_dilation=None, padding='SAME', groups=1, mask=None):
  """Conv: x is (*batch, *spatial, cin), kernel (*ksize, cin/groups, cout).

    out[b, o, f] = bias[f] + sum_{k, c} xpad[b, o*stride + k*kdil, G(f)*cg + c]
                                        * (kernel*mask)[k, c, f]

  with G(f) = f // (cout/groups): output feature f only sees the input
  channels of its own group.
  """
  x = np.asarray(x, F64)
  kernel = np.asarray(kernel, F64)
  if mask is not None:
    kernel = kernel * np.asarray(mask, F64)
  ksize = kernel.shape[:nd]
  cg, cout = kernel.shape[nd], kernel.shape[nd + 1]
  spatial = x.shape[x.ndim - nd - 1:-1]
  batch = x.shape[:x.ndim - nd - 1]
  cin = x.shape[-1]
  assert cin == cg * groups and cout % groups == 0
  fg = cout // groups
  maps = conv_maps(spatial, ksize, tup(strides, nd), tup(input_dilation, nd),
                   tup(kernel_dilation, nd), padding)
  osp = tuple(len(m) for m in maps)
  out = np.zeros(batch + osp + (cout,), F64)
  live = [kk for kk in np.ndindex(*ksize) if kernel[kk].any()]
  for o in np.ndindex(*osp):
    for kk in live:
      idx = tuple(maps[d][o[d]][kk[d]] for d in range(nd))
      if min(idx) < 0:
        continue
      xv = x[(Ellipsis,) + idx + (slice(None),)]
      for g in range(groups):
        out[(Ellipsis,) + o + (slice(g * fg, (g + 1) * fg),)] += (
          xv[..., g * cg:(g + 1) * cg] @ kernel[kk][:, g * fg:(g + 1) * fg])
  if bias is not None:
    out = out + np.asarray(bias, F64)
  return out


def conv_local_shapes(spatial, cin, cout, ksize, **geom):
  osp = conv_out_spatial(spatial, ksize, **geom)
  return osp + (int(np.prod(ksize)) * cin, cout), osp + (cout,)


def conv_local(x, kernel, bias=None, *, nd, ksize, strides=None, input_dilation=None,
               kernel_dilation=None, padding='SAME', mask=None):
  """ConvLocal ("unshared convolution"): one kernel per output pixel.
  kernel is (*out_spatial, prod(ksize)*cin, cout); the patch axis enumerates
  (channel, *kernel offsets) with the channel slowest — the layout documented
  for jax.lax.conv_general_dilated_patches, which the layer's docstring
  defers to.  bias is one value per output entry: (*out_spatial, cout)."""
  x = np.asarray(x, F64)
  kernel = np.asarray(kernel, F64)
  if mask is not None:
    kernel = kernel * np.asarray(mask, F64)
  spatial = x.shape[x.ndim - nd - 1:-1]
  batch = x.shape[:x.ndim - nd - 1]
  cin = x.shape[-1]
  maps = conv_maps(spatial, ksize, tup(strides, nd), tup(input_dilation, nd),
                   tup(kernel_dilation, nd), padding)
  osp = tuple(len(m) for m in maps)
  cout = kernel.shape[-1]
  assert kernel.shape == osp + (int(np.prod(ksize)) * cin, cout), (kernel.shape, osp)
  kprod = int(np.prod(ksize))
  out = np.zeros(batch + osp + (cout,), F64)
  for o in np.ndindex(*osp):
    ko = kernel[o]
    if not ko.any():
      continue
    for flat, kk in enumerate(np.ndindex(*ksize)):
      idx = tuple(maps[d][o[d]][kk[d]] for d in range(nd))
      if min(idx) < 0:
        continue
      xv = x[(Ellipsis,) + idx + (slice(None),)]       # (*batch, cin)
      rows = ko[[c * kprod + flat for c in range(cin)]]  # (cin, cout)
      out[(Ellipsis,) + o + (slice(None),)] += xv @ rows
  if bias is not None:
    out = out + np.asarray(bias, F64)
  return out


def flipswap(kernel, nd):
  """"flips spatial axes and swaps the input/output channel axes"."""
  k = np.asarray(kernel)
  k = k[tuple(slice(None, None, -1) for _ in range(nd))]
  return np.swapaxes(k, nd, nd + 1)


def conv_transpose_out_spatial(spatial, ksize, strides, kernel_dilation, padding):
  nd = len(ksize)
  s, kd = tup(strides, nd), tup(kernel_dilation, nd)
  pad = canon_padding(padding, nd)
  out = []
  for d in range(nd):
    k_eff = (ksize[d] - 1) * kd[d] + 1
    if pad in ('SAME', 'CIRCULAR'):
      out.append(spatial[d] * s[d])
    elif pad == 'VALID':
      out.append(spatial[d] * s[d] + max(k_eff - s[d], 0))
    else:
      out.append((spatial[d] - 1) * s[d] + 1 + pad[d][0] + pad[d][1] - k_eff + 1)
  return tuple(out)


def conv_transpose(x, kernel, bias=None, *, nd, strides=None, kernel_dilation=None,
                   padding='SAME', transpose_kernel=False, mask=None):
  """ConvTranspose.  x (*batch, *spatial, cin).

  transpose_kernel=True, kernel (*ksize, cout, cin): for 'SAME' and 'VALID' the
  layer is the exact transpose (adjoint) of the forward Conv that has the same
  kernel, stride, kernel dilation and padding mode and maps an input of spatial
  size N_out to this layer's input size ("will set as transpose of
  corresponding forward conv"):  N_out = L*s for SAME and
  L*s + max(k_eff - s, 0) for VALID.  It is computed as that adjoint:
      y[b, n, c] = sum over (o, k, f) with fwd_index(o, k) == n of
                   x[b, o, f] * kernel[k, c, f].
  transpose_kernel=False, kernel (*ksize, cin, cout): the same operator applied
  to flipswap(kernel) ("if True flips spatial axes and swaps the input/output
  channel axes of the kernel").
  Explicit (lo, hi) pairs pad the stride-dilated input of the fractionally
  strided convolution: Conv with input_dilation=strides, stride 1 and the
  un-flipped kernel (Conv's docstring: "convolution with input dilation d is
  equivalent to transposed convolution with stride d").
  'CIRCULAR' ("periodic boundary conditions"): the output has one period
  P = L*s per dimension and is the 'VALID' result wrapped around that period.
  The VALID result is e = max(k_eff - s, 0) longer than P; the docstring does
  not say how it is aligned, the layer's source comments do: the overhang is
  split evenly between both ends and the odd element goes to the left end
  (transpose_kernel=False) resp. to the right end of the padding, i.e. the
  VALID element m lands on (m - a) mod P with a = floor(e/2) resp. ceil(e/2).
  """
  x = np.asarray(x, F64)
  kernel = np.asarray(kernel, F64)
  if mask is not None:
    kernel = kernel * np.asarray(mask, F64)
  s, kd = tup(strides, nd), tup(kernel_dilation, nd)
  pad = canon_padding(padding, nd)
  if not isinstance(pad, str):
    k_fwd = flipswap(kernel, nd) if transpose_kernel else kernel
    return conv(x, k_fwd, bias, nd=nd, strides=1, input_dilation=s, kernel_dilation=kd,
                padding=pad)
  if pad == 'CIRCULAR':
    yv = conv_transpose(x, kernel, None, nd=nd, strides=s, kernel_dilation=kd,
                        padding='VALID', transpose_kernel=transpose_kernel)
    ks = kernel.shape[:nd]
    sp_axis0 = yv.ndim - nd - 1
    for d in range(nd):
      P = x.shape[sp_axis0 + d] * s[d]
      e = max((ks[d] - 1) * kd[d] + 1 - s[d], 0)
      a = (e + 1) // 2 if transpose_kernel else e // 2
      yv = np.moveaxis(yv, sp_axis0 + d, 0)
      w = np.zeros((P,) + yv.shape[1:], F64)
      for m in range(yv.shape[0]):
        w[(m - a) % P] += yv[m]
      yv = np.moveaxis(w, 0, sp_axis0 + d)
    return yv if bias is None else yv + np.asarray(bias, F64)
  k_t = kernel if transpose_kernel else flipswap(kernel, nd)   # (*ksize, cout, cin)
  ksize = k_t.shape[:nd]
  cout, cin = k_t.shape[nd], k_t.shape[nd + 1]
  spatial = x.shape[x.ndim - nd - 1:-1]
  batch = x.shape[:x.ndim - nd - 1]
  assert x.shape[-1] == cin
  n_out = conv_transpose_out_spatial(spatial, ksize, s, kd, pad)
  maps = conv_maps(n_out, ksize, s, (1,) * nd, kd, pad)
  assert tuple(len(m) for m in maps) == tuple(spatial), (maps, spatial)
  out = np.zeros(batch + n_out + (cout,), F64)
  live = [kk for kk in np.ndindex(*ksize) if k_t[kk].any()]
  for o in np.ndindex(*spatial):
    xv = x[(Ellipsis,) + o + (slice(None),)]            # (*batch, cin)
    for kk in live:
      idx = tuple(maps[d][o[d]][kk[d]] for d in range(nd))
      if min(idx) < 0:
        continue
      out[(Ellipsis,) + idx + (slice(None),)] += xv @ k_t[kk].T
  if bias is not None:
    out = out + np.asarray(bias, F64)
  return out


def conv_rejects(kind, nd, padding, input_dilation=None, groups=1):
  """The explicit predicate of configurations the back-end / the layer rejects.
  Returns a reason or None.  Everything not named here must be accepted."""
  idil = tup(input_dilation, nd)
  if kind in ('conv', 'convlocal'):
    if padding == 'CAUSAL' and nd != 1:
      return 'causal-needs-1d'      # "CAUSAL padding for a 1D convolution"
    if isinstance(padding, str) and max(idil) > 1:
      return 'string-padding-with-input-dilation'   # lax: not implemented
  if kind == 'convlocal' and groups != 1:
    return 'local-conv-feature-groups'  # conv_general_dilated_local has no groups
  return None


# --------------------------------------------------------------------------
# Dense / DenseGeneral / Einsum


def dense(x, kernel, bias=None):
  y = np.asarray(x, F64) @ np.asarray(kernel, F64)
  return y if bias is None else y + np.asarray(bias, F64)


def norm_axes(axes, ndim):
  if isinstance(axes, (int, np.integer)):
    axes = (axes,)
  return tuple(sorted(a % ndim for a in axes))


def dense_general_shapes(xshape, features, axis, batch_dims):
  nd = len(xshape)
  axis, bd = norm_axes(axis, nd), norm_axes(batch_dims, nd)
  feats = (features,) if isinstance(features, int) else tuple(features)
  bshape = tuple(xshape[a] for a in bd)
  return (bshape + tuple(xshape[a] for a in axis) + feats, bshape + feats)


def dense_general(x, kernel, bias, *, features, axis, batch_dims):
  """out[batch..., rest..., feat...] = sum_{contracted} x * kernel[batch..., contracted..., feat...]
  (+ bias[batch..., feat...] broadcast over `rest`)."""
  x = np.asarray(x, F64)
  kernel = np.asarray(kernel, F64)
  nd = x.ndim
  axis, bd = norm_axes(axis, nd), norm_axes(batch_dims, nd)
  feats = (features,) if isinstance(features, int) else tuple(features)
  rest = tuple(a for a in range(nd) if a not in axis and a not in bd)
  out = np.zeros(tuple(x.shape[a] for a in bd) + tuple(x.shape[a] for a in rest) + feats, F64)
  for b in np.ndindex(*[x.shape[a] for a in bd]):
    for r in np.ndindex(*[x.shape[a] for a in rest]):
      acc = np.zeros(feats, F64)
      for c in np.ndindex(*[x.shape[a] for a in axis]):
        idx = [0] * nd
        for a, i in zip(bd, b):
          idx[a] = i
        for a, i in zip(rest, r):
          idx[a] = i
        for a, i in zip(axis, c):
          idx[a] = i
        xv = x[tuple(idx)]
        if xv != 0.0:
          acc = acc + xv * kernel[b + c]
      if bias is not None:
        acc = acc + np.asarray(bias, F64)[b]
      out[b + r] = acc
  return out


def _expand_einsum(eq, xnd, knd):
  eq = eq.replace(' ', '')
  lhs, res = eq.split('->')
  a, b = lhs.split(',')
  used = set(eq)
  fresh = [c for c in 'ZYXWVUTSRQ' if c not in used]

  def ex(term, nd):
    if '...' not in term:
      return term, ''
    n = nd - (len(term) - 3)
    ell = ''.join(fresh[:n])
    return term.replace('...', ell), ell
  a, ea = ex(a, xnd)
  b, eb = ex(b, knd)
  ell = ea if len(ea) >= len(eb) else eb
  res = res.replace('...', ell)
  return a, b, res


def einsum_bias_shape(eq, xnd, kshape):
  """The bias has one entry per kernel axis that survives in the output, in
  output order; it is broadcast at those output positions."""
  a, b, res = _expand_einsum(eq, xnd, len(kshape))
  shape, bshape = [], []
  for c in res:
    if c in b:
      shape.append(kshape[b.index(c)])
      bshape.append(kshape[b.index(c)])
    else:
      bshape.append(1)
  return tuple(shape), tuple(bshape)


def einsum(eq, x, kernel, bias=None):
  x = np.asarray(x, F64)
  kernel = np.asarray(kernel, F64)
  a, b, res = _expand_einsum(eq, x.ndim, kernel.ndim)
  size = {}
  for term, arr in ((a, x), (b, kernel)):
    for c, n in zip(term, arr.shape):
      assert size.setdefault(c, n) == n
  letters = sorted(size)
  out = np.zeros(tuple(size[c] for c in res), F64)
  for vals in itertools.product(*[range(size[c]) for c in letters]):
    env = dict(zip(letters, vals))
    xv = x[tuple(env[c] for c in a)]
    if xv == 0.0:
      continue
    kv = kernel[tuple(env[c] for c in b)]
    if kv == 0.0:
      continue
    out[tuple(env[c] for c in res)] += xv * kv
  if bias is not None:
    _, bshape = einsum_bias_shape(eq, x.ndim, kernel.shape)
    out = out + np.asarray(bias, F64).reshape(bshape)
  return out


# --------------------------------------------------------------------------
# Embed


def embed(table, idx):
  """Table lookup; negative indices count from the end (docstring example);
  an index >= num_embeddings gives nan; a one-row table is broadcast."""
  table = np.asarray(table, F64)
  idx = np.asarray(idx)
  n, f = table.shape
  out = np.empty(idx.shape + (f,), F64)
  for pos in np.ndindex(*idx.shape):
    i = int(idx[pos])
    if n == 1:
      out[pos] = table[0]
    elif -n <= i < n:
      out[pos] = table[i % n]
    else:
      out[pos] = np.nan
  return out


def attend(table, query):
  """out[..., n] = sum_f query[..., f] * table[n, f]."""
  return np.asarray(query, F64) @ np.asarray(table, F64).T


# --------------------------------------------------------------------------
# pooling


def pool(x, kind, window, strides=None, padding='VALID', count_include_pad=True):
  """x (*batch, *spatial, features).  Window reduction; padding elements are
  the identity of the reduction (0, -inf, +inf).  avg divides by the window
  size, or by the number of non-padding elements when count_include_pad is
  False."""
  x = np.asarray(x, F64)
  nd = len(window)
  strides = tup(strides, nd)
  spatial = x.shape[x.ndim - nd - 1:-1]
  pad = padding if isinstance(padding, str) else [tuple(p) for p in padding]
  maps = conv_maps(spatial, tuple(window), strides, (1,) * nd, (1,) * nd, pad)
  osp = tuple(len(m) for m in maps)
  batch = x.shape[:x.ndim - nd - 1]
  out = np.empty(batch + osp + (x.shape[-1],), F64)
  ident = {'avg': 0.0, 'max': -np.inf, 'min': np.inf}[kind]
  for o in np.ndindex(*osp):
    acc = np.full(batch + (x.shape[-1],), ident, F64)
    cnt = 0
    for kk in np.ndindex(*window):
      idx = tuple(maps[d][o[d]][kk[d]] for d in range(nd))
      if min(idx) < 0:
        continue
      cnt += 1
      xv = x[(Ellipsis,) + idx + (slice(None),)]
      acc = acc + xv if kind == 'avg' else (np.maximum(acc, xv) if kind == 'max'
                                            else np.minimum(acc, xv))
    if kind == 'avg':
      with np.errstate(invalid='ignore', divide='ignore'):
        acc = acc / (float(np.prod(window)) if count_include_pad else F64(cnt))
    out[(Ellipsis,) + o + (slice(None),)] = acc
  return out


# --------------------------------------------------------------------------
# normalisation: exact statistics in float64 plus a rigorous enclosure of what
# a float32 evaluation of the documented formula may return


class Interval:
  __slots__ = ('lo', 'hi')

  def __init__(self, lo, hi=None):
    self.lo = np.asarray(lo, F64)
    self.hi = self.lo if hi is None else np.asarray(hi, F64)

  def widen_rel(self, rel):
    m = np.maximum(np.abs(self.lo), np.abs(self.hi))
    return Interval(self.lo - rel * m, self.hi + rel * m)

  def __add__(self, o):
    o = o if isinstance(o, Interval) else Interval(o)
    return Interval(self.lo + o.lo, self.hi + o.hi)

  def __sub__(self, o):
    o = o if isinstance(o, Interval) else Interval(o)
    return Interval(self.lo - o.hi, self.hi - o.lo)

  def __mul__(self, o):
    o = o if isinstance(o, Interval) else Interval(o)
    c = [self.lo * o.lo, self.lo * o.hi, self.hi * o.lo, self.hi * o.hi]
    return Interval(np.minimum.reduce(c), np.maximum.reduce(c))


def masked_stats(x, axes, mask=None, use_mean=True):
  """Exact mean / variance over `axes` of the positions selected by mask
  (keepdims).  Also returns the quantities the error model needs."""
  x = np.asarray(x, F64)
  axes = norm_axes(axes, x.ndim)
  w = np.ones(x.shape, F64) if mask is None else np.broadcast_to(
    np.asarray(mask, bool), x.shape).astype(F64)
  n = w.sum(axes, keepdims=True)
  with np.errstate(invalid='ignore', divide='ignore'):
    mabs = (np.abs(x) * w).sum(axes, keepdims=True) / n
    mu2 = (x * x * w).sum(axes, keepdims=True) / n
    if use_mean:
      mean = (x * w).sum(axes, keepdims=True) / n
      var = ((x - mean) ** 2 * w).sum(axes, keepdims=True) / n
      dev = (np.abs(x - mean) * w).sum(axes, keepdims=True) / n
    else:
      mean = np.zeros_like(n)
      var = mu2
      dev = mabs
  return dict(mean=mean, var=var, n=n, mabs=mabs, mu2=mu2, dev=dev)


def stat_errors(st, use_mean, fast):
  """First-order bounds (x1.1 for the higher-order terms) on the error of a
  float32 evaluation of the documented statistics, valid for any summation
  order: a sum of n terms errs by at most (n-1)*u*sum|terms|, a division or
  product adds one u.   u = 2**-24.
    mean                       : dm  = (n+1) u mean|x|
    var, two-pass E[(x-m)^2]   : dv  = 2 dev dm + dm^2 + (n+3) u (var + 2 dev dm + dm^2)
    var, fast  E[x^2] - E[x]^2 : dv  = (n+3) u E[x^2] + (2|m| dm + dm^2)(1+u) + 2u m^2 + u|var|
    var, RMS   E[x^2]          : dv  = (n+3) u E[x^2]
  """
  u = 2.0 ** -24
  n = st['n']
  if not use_mean:
    return np.zeros_like(n), 1.1 * (n + 3) * u * st['mu2']
  dm = 1.1 * (n + 1) * u * st['mabs']
  m = np.abs(st['mean'])
  if fast:
    dv = ((n + 3) * u * st['mu2'] + (2 * m * dm + dm * dm) * (1 + u) + 2 * u * m * m
          + u * st['var'])
  else:
    cross = 2 * st['dev'] * dm + dm * dm
    dv = cross + (n + 3) * u * (st['var'] + cross)
  return dm, 1.1 * dv


def normalize_enclosure(x, mean, var, dm, dv, eps, scale, bias, u_out):
  """y = (x - mean) * rsqrt(var + eps) * scale + bias, and an enclosure
  [lo, hi] of every float32 evaluation whose statistics err by at most dm, dv
  (rsqrt to 8u, the three remaining operations to 1u each, the result rounded
  to the output type with unit round-off u_out)."""
  u = 2.0 ** -24
  x = np.asarray(x, F64)
  with np.errstate(invalid='ignore', divide='ignore'):
    y = (x - mean) / np.sqrt(var + eps)
    if scale is not None:
      y = y * scale
    if bias is not None:
      y = y + bias
    M = Interval(mean - dm, mean + dm)
    V = Interval(np.maximum(var - dv, 0.0) + eps, var + dv + eps)
    R = Interval(1.0 / np.sqrt(V.hi), 1.0 / np.sqrt(V.lo)).widen_rel(8 * u)
    D = (Interval(x) - M).widen_rel(u)
    mul = R if scale is None else (R * Interval(scale)).widen_rel(u)
    Y = (D * mul).widen_rel(u)
    if bias is not None:
      Y = (Y + Interval(bias)).widen_rel(u)
    Y = Y.widen_rel(2 * u_out)
  tiny = 1e-30
  return y, Y.lo - tiny, Y.hi + tiny


def layer_norm(x, *, reduction_axes, feature_axes, eps, scale, bias, mask=None,
               use_mean=True, fast=True, u_out=2.0 ** -24):
  """LayerNorm / RMSNorm (use_mean=False) / InstanceNorm: statistics over
  reduction_axes, per-feature scale and bias living on feature_axes.
  scale / bias are given with the shape of the feature axes."""
  x = np.asarray(x, F64)
  st = masked_stats(x, reduction_axes, mask, use_mean)
  dm, dv = stat_errors(st, use_mean, fast)
  fa = norm_axes(feature_axes, x.ndim)
  fshape = [x.shape[a] if a in fa else 1 for a in range(x.ndim)]
  sc = None if scale is None else np.asarray(scale, F64).reshape(fshape)
  bi = None if bias is None else np.asarray(bias, F64).reshape(fshape)
  return normalize_enclosure(x, st['mean'], st['var'], dm, dv, eps, sc, bi, u_out)


def group_norm(x, *, num_groups, reduction_axes, eps, scale, bias, mask=None, fast=True,
               u_out=2.0 ** -24):
  """GroupNorm: channels (last axis) are split into num_groups consecutive
  groups; statistics are shared over the reduction axes (which include the
  channel axis) restricted to a group.  reduction_axes=None: every axis but
  the leading (batch) one."""
  x = np.asarray(x, F64)
  C = x.shape[-1]
  gs = C // num_groups
  if reduction_axes is None:
    reduction_axes = tuple(range(1, x.ndim))
  ra = norm_axes(reduction_axes, x.ndim)
  assert ra[-1] == x.ndim - 1
  xg = x.reshape(x.shape[:-1] + (num_groups, gs))
  mg = None
  if mask is not None:
    mg = np.broadcast_to(np.asarray(mask, bool), x.shape).reshape(xg.shape)
  st = masked_stats(xg, tuple(ra[:-1]) + (xg.ndim - 1,), mg, True)
  dm, dv = stat_errors(st, True, fast)

  def back(a):   # (..., G, 1) with reduced axes kept -> broadcastable to x
    a = np.broadcast_to(a, a.shape[:-1] + (gs,))
    return a.reshape(a.shape[:-2] + (C,))
  fshape = [1] * (x.ndim - 1) + [C]
  sc = None if scale is None else np.asarray(scale, F64).reshape(fshape)
  bi = None if bias is None else np.asarray(bias, F64).reshape(fshape)
  return normalize_enclosure(x, back(st['mean']), back(st['var']), back(dm), back(dv),
                             eps, sc, bi, u_out)


def batch_norm(x, *, axis, eps, scale, bias, ra_mean, ra_var, momentum, train, mask=None,
               fast=True, u_out=2.0 ** -24):
  """BatchNorm.  train: normalise with the batch statistics over every axis
  but `axis`; running <- momentum*running + (1-momentum)*batch.
  inference: normalise with the running statistics, leave them untouched.
  Returns (y, lo, hi, new_mean (val, tol), new_var (val, tol))."""
  x = np.asarray(x, F64)
  u = 2.0 ** -24
  fa = norm_axes(axis, x.ndim)
  red = tuple(a for a in range(x.ndim) if a not in fa)
  fshape = [x.shape[a] if a in fa else 1 for a in range(x.ndim)]
  sc = None if scale is None else np.asarray(scale, F64).reshape(fshape)
  bi = None if bias is None else np.asarray(bias, F64).reshape(fshape)
  rm = np.asarray(ra_mean, F64)
  rv = np.asarray(ra_var, F64)
  if not train:
    zero = np.zeros(fshape, F64)
    y = normalize_enclosure(x, rm.reshape(fshape), rv.reshape(fshape), zero, zero, eps,
                            sc, bi, u_out)
    return y + ((rm, np.zeros_like(rm)), (rv, np.zeros_like(rv)))
  st = masked_stats(x, red, mask, True)
  dm, dv = stat_errors(st, True, fast)
  y = normalize_enclosure(x, st['mean'], st['var'], dm, dv, eps, sc, bi, u_out)
  bm, bv = st['mean'].reshape(rm.shape), st['var'].reshape(rv.shape)
  dm, dv = dm.reshape(rm.shape), dv.reshape(rv.shape)
  one_m = abs(1.0 - momentum)
  new_m = momentum * rm + (1.0 - momentum) * bm
  new_v = momentum * rv + (1.0 - momentum) * bv
  # the float32 evaluation of m*old + (1-m)*batch: (1-m) itself is rounded (1u),
  # two products and one sum (3u on the magnitudes), plus the error of batch
  tol_m = one_m * dm + 4 * u * (np.abs(momentum * rm) + np.abs(one_m * bm)) + 1e-30
  tol_v = one_m * dv + 4 * u * (np.abs(momentum * rv) + np.abs(one_m * bv)) + 1e-30
  return y + ((new_m, tol_m), (new_v, tol_v))
