"""C19 reference models (pure Python, no flax / jax import).

* the alphabets and their enumerations (names tuples, stacking configurations,
  ordered rule lists),
* `expect_names` / `expect_shape`: what a stack of scan / vmap levels must do to
  a per-dimension names tuple and to a shape (plain tuple insertion),
* `ref_logical_to_mesh`: the rule-priority algorithm written from the docstring
  of `flax.linen.spmd.logical_to_mesh_axes`.
"""
from __future__ import annotations

import itertools

# ---------------------------------------------------------------------------
# part T: names through transforms

NAME_ALPHABET = (None, 'x', 'y', 'z')
# every dimension size is distinct from every other and from the stacking sizes,
# so a names entry can be matched to "its" array dimension by size alone
SHAPES = {0: (), 1: (2,), 2: (2, 3), 3: (2, 3, 6)}
LEVEL_SIZE = (4, 5, 7)            # axis size of level 0 (innermost), 1, 2
LEVEL_NAME = ('L0', 'L1', 'L2')   # partition name of level 0, 1, 2


def all_names(rank, alphabet=NAME_ALPHABET):
  """Every tuple of length `rank` over the alphabet without a repeated non-None name."""
  out = []
  for t in itertools.product(alphabet, repeat=rank):
    named = [a for a in t if a is not None]
    if len(set(named)) == len(named):
      out.append(t)
  return out


def short_names(rank):
  """Every legal names tuple that is strictly shorter than the rank (trailing
  dimensions are implicitly unnamed)."""
  out = []
  for r in range(rank):
    out.extend(all_names(r))
  return out


def k_tuples(rank, depth):
  """Every stacking position per level, innermost first: level j stacks an array
  of rank `rank + j`, so k_j ranges over [0, rank + j]."""
  return list(itertools.product(*[range(rank + j + 1) for j in range(depth)]))


def kind_tuples(depth):
  return list(itertools.product(('scan', 'vmap'), repeat=depth))


def insert(t, k, v):
  t = tuple(t)
  assert 0 <= k <= len(t), (t, k)
  return t[:k] + (v,) + t[k:]


def pad(names, ndim):
  names = tuple(names)
  return names + (None,) * (ndim - len(names))


def expect_names(names, levels, key='pname', axis='k'):
  """levels: innermost first, dicts with k and pname. The innermost transform is
  applied first, the outermost last. axis='k' for params, 'ks' for the mutable
  collection (stacked at the mirrored position)."""
  n = tuple(names)
  for lv in levels:
    n = insert(n, lv[axis + '_pos'], lv[key])
  return n


def expect_shape(shape, levels, axis='k'):
  s = tuple(shape)
  for lv in levels:
    s = insert(s, lv[axis + '_pos'], lv['L'])
  return s


def make_levels(kinds, ks, rank, pnames=None, mirror=True):
  """Innermost first. Level j stacks arrays of rank `rank + j`: params at k, the
  mutable collection at the mirrored position rank + j - k (so that the two
  collections of one transform differ and, over all k, each sees every
  position). mirror=False: one position for the whole module (NNX int prefix)."""
  out = []
  for j, (kind, k) in enumerate(zip(kinds, ks)):
    pn = LEVEL_NAME[j] if pnames is None else pnames[j]
    # a negative k (optional part, see NEGATIVE_AXES in the check) counts from the end of
    # the stacked array, as in jax: -1 is the last of the rank + j + 1 output dimensions
    k_pos = int(k) if k >= 0 else int(k) + rank + j + 1
    ks_ = int(rank + j - k_pos) if mirror else int(k)
    ks_pos = ks_ if ks_ >= 0 else ks_ + rank + j + 1
    out.append(dict(kind=kind, k=int(k), ks=ks_, k_pos=k_pos, ks_pos=ks_pos,
                    pname=pn, L=LEVEL_SIZE[j], nick='N%d' % j))
  return out


def levels_text(levels):
  return '>'.join(f"{lv['kind']}@{lv['k']}/{lv['ks']}:{lv['pname']}" for lv in reversed(levels))


# ---------------------------------------------------------------------------
# part R: logical_to_mesh_axes

LOGICAL = ('a', 'b', 'c')
MESH = ('x', 'y', ('x', 'y'), None)
RULES = [(l, m) for l in LOGICAL for m in MESH]      # 12 single rules
L2M_NAME_ALPHABET = ('a', 'b', 'c', None)


def l2m_names(max_rank=3):
  """Every names tuple of rank <= max_rank over {'a','b','c',None}, including
  the ones with a repeated logical name (which must be rejected)."""
  out = []
  for r in range(max_rank + 1):
    out.extend(itertools.product(L2M_NAME_ALPHABET, repeat=r))
  return out


def has_dup(names):
  named = [n for n in names if n is not None]
  return len(set(named)) != len(named)


def rule_lists(first, max_len):
  """Every ordered rule list (repetition allowed) of length 1..max_len that
  starts with rule index `first`."""
  for n in range(1, max_len + 1):
    for rest in itertools.product(range(len(RULES)), repeat=n - 1):
      yield (first,) + rest


def mesh_axes_of(m):
  """The set of physical mesh axes a mesh entry uses (tuples flattened)."""
  if m is None:
    return ()
  if isinstance(m, str):
    return (m,)
  return tuple(m)


def ref_logical_to_mesh(names, rules):
  """Docstring of logical_to_mesh_axes: rules are in order of precedence; a rule
  (logical, mesh) applies iff the logical name is a dimension of the array that
  has not been decided yet and none of the mesh axes it names is already in
  use. A rule with mesh None decides "replicated". Undecided dimensions -> None."""
  decided, used = {}, set()
  for logical, mesh in rules:
    if logical not in names:
      continue
    pos = names.index(logical)
    if pos in decided or used & set(mesh_axes_of(mesh)):
      continue
    decided[pos] = mesh
    used |= set(mesh_axes_of(mesh))
  return tuple(decided.get(i) for i in range(len(names)))


def relevant(names, rule_idx):
  """Sub-list of the rules whose logical name is a dimension of `names`."""
  s = set(names)
  return tuple(i for i in rule_idx if RULES[i][0] in s)
