"""C08: nnx.grad / nnx.value_and_grad against jax.grad of the loss written as a
function of a plain {variable id: value} dict (objects are rebuilt from the values
inside the differentiated function; no nnx.split / merge / transform is used by
the reference)."""
from __future__ import annotations

import json

import numpy as np

from mc.engine import core
from mc.models import c08_model as M
from mc.models.c08_run import _viol, _j, ckey, snapshot


def make_loss(args_spec, world, kind, has_aux):
  """L = sum(S*S*red(x)), S = red(x) + sum_j coef_j * red(value_j) over every path;
  side effects by kind: ro | inc (Count += 1) | stat (Count += 1, BatchStat +=
  red(first Param)) | wall (stat + every Param <- Param + 1 after it was read)."""
  L = M.lazy()
  jnp = L['jnp']

  def loss(*args):
    x = None
    for a, s in zip(args, args_spec):
      if s[0] == 'x':
        x = a
    lv = M.leaf_vars(args_spec, args)
    xr = M.red(x) if x is not None else jnp.ones((2,), jnp.float32)
    S = xr
    first_param = None
    for j, (ai, key, path, vid, var) in enumerate(lv):
      r = M.red(var.value)
      if first_param is None and world[vid][0] in ('Param', 'PSub'):
        first_param = r
      S = S + (j % 3 + 1) * r
    if first_param is None:
      first_param = jnp.ones((2,), jnp.float32)
    z = jnp.zeros((2,), jnp.int32)
    if kind != 'ro':
      for ai, key, path, vid, var in lv:
        t = world[vid][0]
        if t == 'Count':
          var.value = var.value + 1
          z = z + var.value
        elif t == 'BatchStat' and kind in ('stat', 'wall'):
          var.value = var.value + M.bcast(first_param, var.value)
        elif t in ('Param', 'PSub') and kind == 'wall':
          var.value = var.value + 1
    val = (S * S * xr).sum()
    if has_aux:
      return val, {'s': S, 'z': z}
    return val

  return loss


def norm_argnums(argnums):
  """-> (list of (arg index, filter spec), is_tuple)"""
  def one(e):
    if isinstance(e, int):
      return (e, ['T', 'Param'])
    return (e[1], e[2])
  if isinstance(argnums, list) and argnums and argnums[0] == 't':
    return [one(e) for e in argnums[1]], True
  return [one(argnums)], False


def real_argnums(argnums, cache):
  nnx = M.lazy()['nnx']

  def filt(f):
    k = json.dumps(f)
    if k not in cache:
      cache[k] = M.to_filter(f)
    return cache[k]

  def one(e):
    if isinstance(e, int):
      return e
    return nnx.DiffState(e[1], filt(e[2]))
  if isinstance(argnums, list) and argnums and argnums[0] == 't':
    return tuple(one(e) for e in argnums[1])
  return one(argnums)


def close(a, b):
  """gradients: all data are small integers in float32 and both sides run the same
  primitives, so the values are normally bit-identical; 1e-6 relative (to the largest
  entry) only absorbs a different summation order in the backward pass."""
  a, b = M.npv(a), M.npv(b)
  if a.shape != b.shape or a.dtype != b.dtype:
    return False
  scale = max(1.0, float(np.max(np.abs(b)))) if b.size else 1.0
  return bool(np.all(np.abs(a.astype(np.float64) - b.astype(np.float64)) <= 1e-6 * scale))


def run_grad(res, case, member):
  L = M.lazy()
  nnx, jnp, jax = L['nnx'], L['jnp'], L['jax']
  world = case['world']
  args_spec = case['args']
  has_aux = bool(case['has_aux'])
  vg = bool(case['vg'])
  entries, is_tuple = norm_argnums(case['argnums'])
  loss = make_loss(args_spec, world, case['body'], has_aux)

  axes = {vid: None for vid in world}
  per, stacked = M.init_values(world, axes, 1, member)
  x0 = M.x_values(1, member)[0]

  # ---- which variables are selected, and is the aliasing consistent ----------------
  pref_of_arg = {ai: json.dumps(f) for ai, f in entries}
  vprefs, selected = {}, {}
  for ai, arg in enumerate(args_spec):
    for key, ms in M.arg_modules(arg):
      for path, vid in M.mod_leaves(ms):
        vprefs.setdefault(vid, set()).add(pref_of_arg.get(ai))
        if ai in pref_of_arg and M.pred(json.loads(pref_of_arg[ai]), path, world[vid][0]):
          selected.setdefault(vid, []).append((ai, key, path))
  inconsistent = sorted(v for v, s in vprefs.items() if len(s) > 1)
  x_idx = [i for i, a in enumerate(args_spec) if a[0] == 'x']
  x_diff = bool(x_idx) and x_idx[0] in pref_of_arg

  # ---- implementation objects ---------------------------------------------------------
  vars_ = M.build_vars(world, stacked)
  cache = {}
  args = tuple(M.build_arg(a, vars_, x=jnp.asarray(x0), cache=cache) for a in args_spec)
  before = snapshot(vars_)
  fcache = {}
  tf = nnx.value_and_grad if vg else nnx.grad
  make = lambda: tf(loss, argnums=real_argnums(case['argnums'], fcache), has_aux=has_aux)
  res['evals'] += 1
  if selected or inconsistent:
    res['nontrivial'].append(core.h(ckey(case)))

  if inconsistent:
    err = None
    try:
      make()(*args)
    except ValueError as e:
      err = e
    except Exception as e:  # noqa: BLE001 - reported
      _viol(res, 'grad-alias-wrong-error', case,
            f'inconsistent DiffState aliasing of {inconsistent} raised {type(e).__name__}: '
            f'{str(e)[:200]}')
      return
    if err is None:
      _viol(res, 'grad-alias-accepted', case,
            f'variables {inconsistent} are shared by arguments with different differentiation '
            'specifications but the call returned')
      return
    if snapshot(vars_) != before:
      _viol(res, 'grad-alias-mutated', case, 'rejected call changed the state of its arguments')
    core.outcome(res, 'grad:alias-rejected')
    res['_last'] = 'alias-rejected'
    return

  # ---- reference ------------------------------------------------------------------------
  sel_ids = sorted(selected)

  def pure(sel_vals, x):
    vals = dict(stacked)
    vals.update(sel_vals)
    vs = M.build_vars(world, vals)
    a = tuple(M.build_arg(s, vs, x=x, cache={}) for s in args_spec)
    return loss(*a)

  sel0 = {vid: jnp.asarray(stacked[vid]) for vid in sel_ids}
  gfn = jax.grad(pure, argnums=(0, 1) if x_diff else 0, has_aux=has_aux)
  gref = gfn(sel0, jnp.asarray(x0))
  aux_ref = None
  if has_aux:
    gref, aux_ref = gref
  gx_ref = None
  if x_diff:
    gref, gx_ref = gref
  # value and side effects: one eager run on fresh objects
  vars_r = M.build_vars(world, stacked)
  args_r = tuple(M.build_arg(s, vars_r, x=jnp.asarray(x0), cache={}) for s in args_spec)
  val_ref = loss(*args_r)
  if has_aux:
    val_ref, aux_ref2 = val_ref
  finals = {vid: M.npv(vars_r[vid].value) for vid in world}

  # ---- implementation -------------------------------------------------------------------
  try:
    out = make()(*args)
  except Exception as e:  # noqa: BLE001 - reported
    _viol(res, 'grad-unexpected-raise', case,
          f'valid call raised {type(e).__name__}: {str(e)[:300]}')
    res['_last'] = 'unexpected-raise'
    return
  aux = None
  if vg:
    vpart, grads = out
    if has_aux:
      val, aux = vpart
    else:
      val = vpart
    if not close(val, val_ref):
      _viol(res, 'grad-value', case, 'value_and_grad value differs from the loss',
            observed=_j(val), expected=_j(val_ref))
  else:
    if has_aux:
      grads, aux = out
    else:
      grads = out
  if has_aux:
    for k in ('s', 'z'):
      if not close(aux[k], aux_ref[k]):
        _viol(res, 'grad-aux', case, f'aux[{k}] differs', observed=_j(aux[k]),
              expected=_j(aux_ref[k]))
  if is_tuple:
    if not isinstance(grads, tuple) or len(grads) != len(entries):
      _viol(res, 'grad-structure', case, 'gradients are not a tuple matching argnums',
            observed=repr(type(grads)))
      return
    glist = list(grads)
  else:
    glist = [grads]
  covered = set()
  for (ai, f), g in zip(entries, glist):
    spec = args_spec[ai]
    if spec[0] == 'x':
      if not close(g, gx_ref):
        _viol(res, 'grad-x', case, 'gradient w.r.t. the array argument differs',
              observed=_j(g), expected=_j(gx_ref))
      continue
    for key, ms in M.arg_modules(spec):
      try:
        st = M.get_path(g, key)
      except (AttributeError, KeyError, IndexError, TypeError):
        st = None
      if not isinstance(st, nnx.State):
        _viol(res, 'grad-structure', case, f'gradient for argument {ai}{list(key)} is not a State',
              observed=repr(type(st)))
        continue
      want = {path: vid for path, vid in M.mod_leaves(ms)}
      for path, vs in st.flat_state():
        vid = want.get(path)
        if vid is None:
          _viol(res, 'grad-paths', case, f'gradient of arg {ai} has unknown path {path}')
          continue
        if vid not in selected or not M.pred(f, path, world[vid][0]):
          _viol(res, 'grad-unselected', case,
                f'unselected variable {vid} (arg {ai}, path {path}) is present in the gradient')
          continue
        covered.add(vid)
        if not close(vs.value, gref[vid]):
          _viol(res, 'grad-value-of', case,
                f'gradient of {vid} (arg {ai}, path {path}) differs from jax.grad',
                observed=_j(vs.value), expected=_j(gref[vid]))
        if vs.type is not L['TYPES'][world[vid][0]]:
          _viol(res, 'grad-type', case, f'gradient entry of {vid} has type {vs.type}')
  if covered != set(sel_ids):
    _viol(res, 'grad-missing', case,
          f'selected variables {sorted(set(sel_ids) - covered)} have no gradient entry')
  bad = [v for v in world if not M.same(vars_[v].value, finals[v])]
  if bad:
    _viol(res, 'grad-state', case,
          f'state of {bad} after the call differs from one eager forward pass',
          observed={v: _j(vars_[v].value) for v in bad},
          expected={v: _j(finals[v]) for v in bad})
  core.outcome(res, ('vgrad' if vg else 'grad') + ':ok:sel=' + ','.join(sel_ids)
               + (':x' if x_diff else '') + (':aux' if has_aux else ''))
  res['_last'] = 'ok'
