"""C17, metrics part: value pools, metric variants, NumPy reference statistics.

A stream is a sequence of pool indices (0..2).  A *batch* is a non-empty tuple
of pool indices; a composition of a stream is a way of cutting it into
consecutive batches.  Every variant knows how to turn a batch into the keyword
arguments of `metric.update` and how to compute, with NumPy only, the statistic
of a concatenation of stream elements.
"""
from __future__ import annotations

import math

import numpy as np

# integer-valued, positive (so |mean| >= 1 and relative tolerances are meaningful)
VALUES = [1.0, 2.0, 5.0]
# multi-class logits rows / labels: correct, wrong, correct (no argmax ties)
MC_LOGITS = [[2.0, 1.0, 0.0], [0.0, 3.0, 1.0], [0.0, 1.0, 5.0]]
MC_LABELS = [0, 2, 2]
# binary logits / labels with threshold 0.5: wrong, correct *at the boundary*
# (docstring: "greater than or equal"), correct
BIN_LOGITS = [0.75, 0.5, 0.25]
BIN_LABELS = [0, 1, 0]
THRESHOLD = 0.5
# the same with thresholds on raw logits (0 and negative): labels stay 0/1 whatever the threshold
BIN = {'acc-thr': (BIN_LOGITS, BIN_LABELS, THRESHOLD),
       'acc-thr0': ([-0.5, 0.0, 0.25], [0, 1, 0], 0.0),      # correct, correct at the boundary, wrong
       'acc-thrn': ([-2.0, -1.0, -0.5], [0, 0, 1], -1.0)}    # correct, wrong at the boundary, correct

VARIANTS_QUICK = ['avg', 'avg-scalar', 'acc', 'acc-thr', 'acc-thr0', 'acc-thrn', 'welford',
                  'welford-scalar', 'multi', 'avg-2d']
VARIANTS_THOROUGH = VARIANTS_QUICK + ['welford-2d', 'avg-int']


def make_metric(variant):
  from flax import nnx
  M = nnx.metrics
  if variant in ('avg', 'avg-2d', 'avg-int'):
    return M.Average()
  if variant == 'avg-scalar':
    return M.Average('loss')
  if variant == 'acc':
    return M.Accuracy()
  if variant in BIN:
    return M.Accuracy(threshold=BIN[variant][2])
  if variant in ('welford', 'welford-2d'):
    return M.Welford()
  if variant == 'welford-scalar':
    return M.Welford('loss')
  if variant == 'multi':
    return nnx.MultiMetric(accuracy=M.Accuracy(), loss=M.Average(), stats=M.Welford())
  raise KeyError(variant)


def _arr(batch, variant):
  import jax.numpy as jnp
  dt = jnp.int32 if variant == 'avg-int' else jnp.float32
  a = jnp.asarray([VALUES[i] for i in batch], dtype=dt)
  if variant.endswith('-2d') and len(batch) % 2 == 0:
    a = a.reshape(2, len(batch) // 2)
  return a


def update_kwargs(variant, batch):
  import jax.numpy as jnp
  if variant in ('avg', 'welford', 'avg-2d', 'welford-2d', 'avg-int'):
    return dict(values=_arr(batch, variant))
  if variant in ('avg-scalar', 'welford-scalar'):
    if len(batch) == 1:  # Python scalars: float for pool members 0/1, int for member 2
      v = VALUES[batch[0]]
      return dict(loss=int(v) if batch[0] == 2 else float(v))
    return dict(loss=_arr(batch, variant))
  if variant == 'acc':
    return dict(logits=jnp.asarray([MC_LOGITS[i] for i in batch], dtype=jnp.float32),
                labels=jnp.asarray([MC_LABELS[i] for i in batch], dtype=jnp.int32))
  if variant in BIN:
    return dict(logits=jnp.asarray([BIN[variant][0][i] for i in batch], dtype=jnp.float32),
                labels=jnp.asarray([BIN[variant][1][i] for i in batch], dtype=jnp.int32))
  if variant == 'multi':
    return dict(logits=jnp.asarray([MC_LOGITS[i] for i in batch], dtype=jnp.float32),
                labels=jnp.asarray([MC_LABELS[i] for i in batch], dtype=jnp.int32),
                values=_arr(batch, variant))
  raise KeyError(variant)


# ---- NumPy statistics of a concatenation (tuple of pool indices) ------------

def _mc_correct(i):
  return int(np.argmax(np.asarray(MC_LOGITS[i])) == MC_LABELS[i])


def _bin_correct(i, variant='acc-thr'):
  lg, lb, thr = BIN[variant if variant in BIN else 'acc-thr']
  return int((lg[i] >= thr) == (lb[i] > 0))


def ref_average(xs):
  """float32 mean of integer-valued data: the sum is exact, one correctly
  rounded float32 division (the same IEEE operation the metric performs)."""
  if not xs:
    return np.float32('nan')
  return np.float32(np.sum(np.asarray(xs, np.float64))) / np.float32(len(xs))


def ref_welford(xs):
  """(mean, sem, std) in float64; population variance (the class divides m2 by count)."""
  if not xs:
    return (None, float('nan'), float('nan'))
  a = np.asarray(xs, np.float64)
  std = float(np.std(a))
  return (float(np.mean(a)), std / math.sqrt(len(xs)), std)


def ref_summary(variant, since):
  """Exact integer summary of the stream since the last reset: together with
  the metric's own accumulators it determines every future expectation."""
  vals = [int(VALUES[i]) for i in since]
  return (len(since), sum(vals), sum(v * v for v in vals),
          sum(_mc_correct(i) for i in since), sum(_bin_correct(i, variant) for i in since))


def expected(variant, since):
  """dict name -> ('exact', float32) | ('welford', (mean, sem, std))"""
  vals = [VALUES[i] for i in since]
  if variant.startswith('avg'):
    return {'': ('exact', ref_average(vals))}
  if variant == 'acc':
    return {'': ('exact', ref_average([_mc_correct(i) for i in since]))}
  if variant in BIN:
    return {'': ('exact', ref_average([_bin_correct(i, variant) for i in since]))}
  if variant.startswith('welford'):
    return {'': ('welford', ref_welford(vals))}
  if variant == 'multi':
    return {'accuracy': ('exact', ref_average([_mc_correct(i) for i in since])),
            'loss': ('exact', ref_average(vals)),
            'stats': ('welford', ref_welford(vals))}
  raise KeyError(variant)


# Welford tolerance.  float32 eps = 6e-8.  A stream has <= 6 elements in <= 6
# batches; every update performs < 15 float32 operations on non-negative
# quantities <= 6*25 (m2 is a sum of non-negative terms, no cancellation; the
# mean recurrence subtracts numbers of equal sign and magnitude in [1,5], so its
# absolute error is <= a few eps*5 against |mean| >= 1).  The accumulated
# relative error is therefore far below 100*eps = 6e-6 < 1e-5.  When the exact
# std is 0 every term is computed exactly (integer data, delta == 0), but we
# allow 1e-6 absolute there.
RTOL = 1e-5
ATOL0 = 1e-6


def close(obs, ref):
  if math.isnan(ref):
    return math.isnan(obs)
  if math.isnan(obs) or math.isinf(obs):
    return False
  if ref == 0.0:
    return abs(obs) <= ATOL0
  return abs(obs - ref) <= RTOL * abs(ref)


def batches(pool_order, maxlen, first=None, length=None):
  """All batches (tuples over the pool) of length 1..maxlen, shortest first;
  optionally restricted to a given first element / exact length."""
  import itertools
  out = []
  for n in range(1, maxlen + 1):
    if length is not None and n != length:
      continue
    for t in itertools.product(pool_order, repeat=n):
      if first is not None and t[0] != first:
        continue
      out.append(t)
  return out
