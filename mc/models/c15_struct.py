"""C15 helpers, struct part: field-layout enumeration and class factory.

A layout is a list of fields [kind, has_default]:
  kind 'bare'  annotation only                      -> pytree leaf
       'T'     struct.field(pytree_node=True)       -> pytree leaf
       'Tm'    ... plus user metadata               -> pytree leaf
       'F'     struct.field(pytree_node=False)      -> static (treedef)
       'Fm'    ... plus user metadata               -> static (treedef)
Class kinds:
  'dc'  @struct.dataclass           'ptn'  class S(struct.PyTreeNode)
  'dci' / 'ptni'  the first field lives in a base class of the same kind
  'dck' / 'ptnk'  kw_only=True (defaults may then precede non-defaults)
  'dcs'           @struct.dataclass(slots=True): dataclasses returns a *new* class
"""
from __future__ import annotations

import itertools
from typing import Any

NAMES = ['p', 'q', 'r']


def is_static(kind):
  return kind[0] == 'F'


def layouts(field_kinds, max_fields=3, kw_only=False):
  out = []
  for n in range(0, max_fields + 1):
    for ks in itertools.product(field_kinds, repeat=n):
      for ds in itertools.product([False, True], repeat=n):
        if not kw_only and any(ds[i] and not ds[i + 1] for i in range(n - 1)):
          continue  # a non-default field may not follow a default field
        out.append([[k, d] for k, d in zip(ks, ds)])
  return out


def cases(tier):
  """[class kind, layout] pairs."""
  if tier == 'quick':
    fk = ['bare', 'T', 'F', 'Fm']
    out = [[ck, l] for ck in ('dc', 'ptn') for l in layouts(fk)]
    out += [[ck, l] for ck in ('dci', 'ptni') for l in layouts(fk, 2) if len(l) == 2]
    out += [[ck, l] for ck in ('dck', 'ptnk') for l in layouts(fk, 2, kw_only=True)
            if len(l) == 2]
    out += [['dcs', l] for l in layouts(fk, 2) if len(l) >= 1
            and not any(d for _, d in l)]
    return out
  fk = ['bare', 'T', 'Tm', 'F', 'Fm']
  out = [[ck, l] for ck in ('dc', 'ptn') for l in layouts(fk)]
  out += [[ck, l] for ck in ('dci', 'ptni') for l in layouts(fk) if len(l) >= 2]
  out += [[ck, l] for ck in ('dck', 'ptnk')
          for l in layouts(['bare', 'T', 'F', 'Fm'], kw_only=True) if len(l) >= 1]
  out += [['dcs', l] for l in layouts(['bare', 'T', 'F', 'Fm']) if len(l) >= 1
          and not any(d for _, d in l)]
  return out


def _namespace(struct, fields, defaults):
  ns = {'__annotations__': {}}
  for name, (kind, has_default) in fields:
    ns['__annotations__'][name] = Any
    if kind == 'bare':
      if has_default:
        ns[name] = defaults[name]
    else:
      kw = {}
      if has_default:
        kw['default'] = defaults[name]
      if kind.endswith('m'):
        kw['metadata'] = {'doc': 'user metadata'}
      ns[name] = struct.field(pytree_node=(kind[0] == 'T'), **kw)
  return ns


def make_class(struct, ckind, layout, defaults):
  """Builds the class with the real flax.struct; returns (cls, field names)."""
  names = NAMES[:len(layout)]
  fields = list(zip(names, [tuple(f) for f in layout]))
  kw = {'kw_only': True} if ckind.endswith('k') else {}
  if ckind == 'dcs':
    kw = {'slots': True}   # (fields with defaults clash with __slots__: layouts without defaults)
  split = 1 if ckind.endswith('i') else 0
  base_fields, own_fields = fields[:split], fields[split:]
  if ckind.startswith('dc'):
    bases = ()
    if split:
      bases = (struct.dataclass(type('Base', (), _namespace(struct, base_fields, defaults))),)
    cls = type('S', bases, _namespace(struct, own_fields, defaults))
    cls = struct.dataclass(cls, **kw) if kw else struct.dataclass(cls)
  else:
    base = struct.PyTreeNode
    if split:
      base = type('Base', (struct.PyTreeNode,), _namespace(struct, base_fields, defaults))
    cls = type('S', (base,), _namespace(struct, own_fields, defaults), **kw)
  return cls, names
