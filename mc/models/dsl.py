"""Module-program DSL shared by the Linen checks (DESIGN §3).

A *definition* is a tuple of statements; generic interpreter modules (`A`, `B`
compact style, `S` setup style) carry a definition as a static dataclass field
and execute it.  `ref_run` is an independent pure-Python reading of the same
definition over an explicit {collection: nested dict} store (no Scope, no
Module); it gives absolute expectations: tree paths, values, which
collections come back, which write raises.

Statements
  ('param', name, kind)         kind 's' scalar () | 'v' vector (x.shape[-1],)
                                x = x * p
  ('var', col, name, kind)      kind read | count | acc | force ; x = x + v
  ('sow', col, name)            self.sow(col, name, x)
  ('perturb', name)             x = self.perturb(name, x)
  ('rng', stream)               k = make_rng(stream); key data appended to the
                                'k' output; x = x + randint(k, 0..3)
  ('child', cls, defn, name, times)   cls in {'A','B','S'}; name None = auto

Every module call returns {'x': array, 'k': tuple of key-data arrays}.
All data are small integers in float32, so arithmetic is exact.
"""
from __future__ import annotations

import itertools
from typing import Any

import jax
import jax.numpy as jnp
import numpy as np
import flax.linen as nn

F32 = jnp.float32


def pinit(ki):
  def init(key, shape):
    if ki:
      return jax.random.randint(key, shape, 1, 4).astype(F32)
    n = int(np.prod(shape)) if shape else 1
    return (jnp.arange(n, dtype=F32) + 2.0).reshape(shape)
  return init


def vzero():
  return jnp.zeros((), F32)


def rng_bump(k):
  return jax.random.randint(k, (), 0, 4).astype(F32)


def _exec(self, x, get_child, get_param, get_var):
  ks = ()
  for i, st in enumerate(self.d):
    op = st[0]
    if op == 'param':
      p = get_param(i, st, x)
      if st[2] == 'm':   # kind 'm': square matrix, x = x @ p
        x = x @ p
      elif st[2] != 'k':   # kind 'k': the parameter *is* the key data its initialiser received
        x = x * p
    elif op == 'var':
      _, col, n, kind = st
      v = get_var(i, st)
      if kind == 'count':
        if self.is_mutable_collection(col):
          v.value = v.value + 1.0
      elif kind == 'acc':
        if self.is_mutable_collection(col):
          v.value = v.value + x.sum()
      elif kind == 'force':
        v.value = v.value + 1.0
      x = x + v.value
    elif op == 'sow':
      self.sow(st[1], st[2], x)
    elif op == 'perturb':
      x = self.perturb(st[1], x)
    elif op == 'rng':
      k = self.make_rng(st[1])
      kd = jax.random.key_data(k)
      if RNGLOG is not None and not isinstance(kd, jax.core.Tracer):
        RNGLOG.append((tuple(self.path), st[1], tuple(np.asarray(kd).tolist())))
      ks = ks + (kd,)
      x = x + rng_bump(k)
    elif op == 'child':
      c = get_child(i, st)
      for _ in range(st[4]):
        o = c(x)
        x = o['x']
        ks = ks + tuple(o['k'])
    elif op in ('cond', 'switch', 'while'):
      x, ks2 = _control(self, st, x)
      ks = ks + ks2
    elif op == 'sub':
      o = self.sub(x)
      x = o['x']
      ks = ks + tuple(o['k'])
    elif op == 'leak':
      LEAKS.append(self.scope)
    else:
      raise AssertionError(op)
  return {'x': x, 'k': ks}


def _control(self, st, x):
  """('cond', lifted, pred, cls, cd, name) | ('switch', lifted, index, cls, cd, name)
  | ('while', lifted, trips, cls, cd, name, carry_cols).
  The child is created inside the branch / body under an explicit name (the
  documented idiom); when initializing it is called once before the control
  flow so that its variables exist (same in the lifted and the plain form)."""
  op, lifted, arg, cls, cd, name = st[:6]
  ki = self.ki

  if lifted:
    def call(mdl, x):
      # created in the context of `mdl` (the lifted clone inside the transform)
      return CLS[cls](d=cd, ki=ki, name=name, parent=mdl)(x)
  else:
    inst = CLS[cls](d=cd, ki=ki, name=name, parent=self)

    def call(mdl, x):
      return inst(x)

  ks = ()
  if self.is_initializing():
    o = call(self, x)
    x, ks = o['x'], tuple(o['k'])
    pre = True
  if op == 'cond':
    if lifted:
      o = nn.cond(bool(arg), lambda m, x: call(m, x), lambda m, x: call(m, x + 1.0), self, x)
    else:
      o = call(self, x) if arg else call(self, x + 1.0)
    return o['x'], ks + tuple(o['k'])
  if op == 'switch':
    if lifted:
      branches = [(lambda m, x, i=i: call(m, x + float(i))) for i in range(3)]
      o = nn.switch(int(arg), branches, self, x)
    else:
      o = call(self, x + float(arg))
    return o['x'], ks + tuple(o['k'])
  if op == 'while':
    carry_cols = list(st[6]) if len(st) > 6 else []
    if lifted:
      def cond_fn(m, c):
        return c['i'] < arg

      def body_fn(m, c):
        o = call(m, c['x'])
        return {'i': c['i'] + 1, 'x': o['x']}
      c = nn.while_loop(cond_fn, body_fn, self, {'i': jnp.int32(0), 'x': x},
                        carry_variables=carry_cols, broadcast_variables=True)
      return c['x'], ks
    i = 0
    while i < arg:
      x = call(self, x)['x']
      i += 1
    return x, ks
  raise AssertionError(op)


LEAKS: list = []
RNGLOG: list | None = []   # (module path, stream, key data) of every eager make_rng
SHARED: dict = {}   # slot -> module instance handed to several parents (set by the harness)


TRACES: list = []   # (class name, definition) appended every time a body is interpreted


def _compact_call(self, x):
  TRACES.append((type(self).__name__, self.d))

  def get_child(i, st):
    kw = {}
    if len(st) > 5 and st[5] is not None:
      kw['sub'] = SHARED[st[5]]
    key = st[1]
    if '"init": "auto"' in key:
      # the documented idiom map_variables(..., init=self.is_initializing())
      key = key.replace('"init": "auto"',
                        '"init": true' if self.is_initializing() else '"init": false')
    return CLS[key](d=st[2], ki=self.ki, name=st[3], **kw)

  def get_param(i, st, x):
    if st[2] == 'k':
      return self.param(st[1], lambda key: jax.random.key_data(key))
    shape = {'s': (), 'v': (x.shape[-1],), 'm': (x.shape[-1], x.shape[-1])}[st[2]]
    return self.param(st[1], pinit(self.ki), shape)

  def get_var(i, st):
    return self.variable(st[1], st[2], vzero)

  return _exec(self, x, get_child, get_param, get_var)


class _Compact(nn.Module):
  d: tuple = ()
  ki: bool = False
  sub: Any = None

  @nn.compact
  def __call__(self, x):
    return _compact_call(self, x)


class AJ(nn.Module):
  """decorator form: the method, not the class, is transformed"""
  d: tuple = ()
  ki: bool = False
  sub: Any = None

  @nn.jit
  @nn.compact
  def __call__(self, x):
    return _compact_call(self, x)


class AR(nn.Module):
  d: tuple = ()
  ki: bool = False
  sub: Any = None

  @nn.remat
  @nn.compact
  def __call__(self, x):
    return _compact_call(self, x)


class A(_Compact):
  pass


class B(_Compact):
  pass


class S(nn.Module):
  """setup-style interpreter: children/params/variables are created in setup
  (children are named by attribute: explicit name or c<i>); vector params need
  the input and are therefore not available in this style."""
  d: tuple = ()
  ki: bool = False

  def setup(self):
    for i, st in enumerate(self.d):
      if st[0] == 'child':
        setattr(self, st[3] or f'c{i}', CLS[st[1]](d=st[2], ki=self.ki))
      elif st[0] == 'param':
        assert st[2] == 's'
        setattr(self, f'p_{i}', self.param(st[1], pinit(self.ki), ()))
      elif st[0] == 'var':
        setattr(self, f'v_{i}', self.variable(st[1], st[2], vzero))

  def __call__(self, x):
    return _exec(
      self, x,
      lambda i, st: getattr(self, st[3] or f'c{i}'),
      lambda i, st, x: getattr(self, f'p_{i}'),
      lambda i, st: getattr(self, f'v_{i}'))


class _ClsTable(dict):
  """'A' | 'B' | 'S' | '<transform>@<base>' (e.g. 'jit@A'); transformed classes are
  built on first use by the factory registered in TRANSFORMS."""

  def __missing__(self, key):
    t, base = key.rsplit('@', 1)
    name, _, args = t.partition('[')
    kw = {}
    if args:
      import json
      kw = json.loads(args.rstrip(']'))
    c = TRANSFORMS[name](self[base], **{k: _decode_filter(v) for k, v in kw.items()})
    self[key] = c
    return c


CLS = _ClsTable({'A': A, 'B': B, 'S': S, 'AJ': AJ, 'AR': AR})
def _decode_filter(v):
  if isinstance(v, dict) and 'deny' in v:
    return to_flax_filter(v)
  return v


def tcls(name, base, **kw):
  """class key of a transformed class with lifting arguments, e.g.
  tcls('jit', 'A', variables='params') -> 'jit[{"variables": "params"}]@A'"""
  import json
  if not kw:
    return f'{name}@{base}'
  return f'{name}[{json.dumps(kw, sort_keys=True)}]@{base}'


def _ident(v):
  return v


TRANSFORMS = {
  'jit': lambda c, **kw: nn.jit(c, **kw),
  'remat': lambda c, **kw: nn.remat(c, **kw),
  'checkpoint': lambda c, **kw: nn.checkpoint(c, policy=None, **kw),
  'mapv': lambda c, mapped='params', **kw: nn.map_variables(
    c, mapped, trans_in_fn=_ident, trans_out_fn=_ident, **kw),
}


def base_cls(cls):
  return cls.rsplit('@', 1)[-1]


def auto_class_name(cls):
  """Class name used in auto-generated names (learned from the class object)."""
  return CLS[cls].__name__


def strip_transforms(d):
  """The plain program: every 'T@X' class replaced by 'X'."""
  out = []
  for st in d:
    if st[0] == 'child':
      b = base_cls(st[1])
      b = {'AJ': 'A', 'AR': 'A'}.get(b, b)
      out.append(('child', b, strip_transforms(st[2])) + tuple(st[3:]))
    elif st[0] in ('cond', 'switch', 'while'):
      out.append((st[0], False, st[2], base_cls(st[3]), strip_transforms(st[4])) + tuple(st[5:]))
    else:
      out.append(st)
  return tuple(out)


def make(cls, d, ki=False, **kw):
  return CLS[cls](d=d, ki=ki, **kw)


# --------------------------------------------------------------------------
# learned auto-name format (probe, not hard-coded)

_AUTONAME = None


def autoname(cls, i):
  global _AUTONAME
  if _AUTONAME is None:
    m = A(d=(('child', 'B', (('param', 'a', 's'),), None, 1),))
    v = m.init(jax.random.key(0), jnp.ones((2,), F32))
    (k,) = v['params'].keys()
    assert 'B' in k and '0' in k, k
    _AUTONAME = k.replace('B', '{cls}').replace('0', '{i}')
  return _AUTONAME.format(cls=cls, i=i)


# --------------------------------------------------------------------------
# reference interpreter


class RefError(Exception):
  def __init__(self, kind, detail=''):
    super().__init__(f'{kind}: {detail}')
    self.kind = kind


def in_filter_ref(f, col):
  """Independent reading of the documented CollectionFilter semantics.
  f is JSON-able: True | False | 'name' | ['n1', ...] | {'deny': f}"""
  if f is True:
    return True
  if f is False:
    return False
  if isinstance(f, str):
    return col == f
  if isinstance(f, dict):
    return not in_filter_ref(f['deny'], col)
  return col in f


def to_flax_filter(f):
  from flax.core.scope import DenyList
  if isinstance(f, dict):
    return DenyList(to_flax_filter(f['deny']))
  if isinstance(f, list):
    return list(f)
  return f


def _get(store, col, path):
  d = store.get(col)
  if d is None:
    return None
  for p in path:
    if not isinstance(d, dict) or p not in d:
      return None
    d = d[p]
  return d


def _put(store, col, path, val):
  d = store.setdefault(col, {})
  for p in path[:-1]:
    d = d.setdefault(p, {})
  d[path[-1]] = val


def ref_run(cls, d, store, mutable, x, keys=None, initializing=False, trace=None):
  """Runs definition `d` (class `cls`) on a deep-copied `store`.

  `mutable(col) -> bool`.  `keys`: list of key-data arrays observed from the
  implementation, consumed in order (the reference does not know how keys are
  derived; it only needs their effect on x).
  Returns (x, store_after, keys_used).  Raises RefError(kind).
  kinds: 'lookup' (missing variable/param/collection), 'modify' (write to an
  immutable collection), 'shape', 'name' (name clash), 'rng' (no key)
  """
  import copy
  store = copy.deepcopy(store)
  keys = list(keys or [])
  used = []

  def run(cls, d, path, x):
    names = {}   # name -> set of cols (None = submodule)
    auto = {}

    def reserve(name, col):
      cols = names.setdefault(name, set())
      if col in cols or (None in cols) or (col is None and cols):
        raise RefError('name', f'{name} at {path}')
      cols.add(col)

    for i, st in enumerate(d):
      op = st[0]
      if op == 'param':
        _, n, kind = st
        reserve(n, 'params')
        shape = {'s': (), 'v': (x.shape[-1],), 'm': (x.shape[-1], x.shape[-1])}[kind]
        cur = _get(store, 'params', path + (n,))
        if cur is None:
          if not mutable('params'):
            raise RefError('lookup', f'param {n} at {path}')
          size = int(np.prod(shape)) if shape else 1
          cur = (np.arange(size, dtype=np.float32) + 2.0).reshape(shape)
          _put(store, 'params', path + (n,), cur)
        elif np.shape(cur) != shape:
          raise RefError('shape', f'param {n} at {path}')
        x = (x @ cur) if kind == 'm' else (x * cur)
      elif op == 'var':
        _, col, n, kind = st
        reserve(n, col)
        cur = _get(store, col, path + (n,))
        if cur is None:
          if not mutable(col):
            raise RefError('lookup', f'var {col}/{n} at {path}')
          cur = np.float32(0)
          _put(store, col, path + (n,), cur)
        if kind == 'count' and mutable(col):
          cur = np.float32(cur + 1)
          _put(store, col, path + (n,), cur)
        elif kind == 'acc' and mutable(col):
          cur = np.float32(cur + x.sum())
          _put(store, col, path + (n,), cur)
        elif kind == 'force':
          if not mutable(col):
            raise RefError('modify', f'var {col}/{n} at {path}')
          cur = np.float32(cur + 1)
          _put(store, col, path + (n,), cur)
        x = x + cur
      elif op == 'sow':
        _, col, n = st
        if mutable(col):
          cur = _get(store, col, path + (n,))
          if cur is None:
            reserve(n, col)
            cur = ()
          if not isinstance(cur, tuple):
            raise RefError('sow-type', f'sow onto a non-tuple variable {col}/{n} at {path}')
          _put(store, col, path + (n,), tuple(cur) + (np.array(x),))
      elif op == 'perturb':
        _, n = st
        col = 'perturbations'
        if mutable(col) and _get(store, col, path + (n,)) is None:
          reserve(n, col)
          _put(store, col, path + (n,), np.zeros_like(x))
        if col in store:
          cur = _get(store, col, path + (n,))
          if cur is None:
            raise RefError('perturb-missing', f'{n} at {path}')
          x = x + cur
      elif op == 'rng':
        if not keys:
          raise RefError('rng', 'no key observed')
        k = keys.pop(0)
        used.append(k)
        x = x + np.float32(rng_bump(jax.random.wrap_key_data(jnp.asarray(k))))
      elif op == 'child':
        _, ccls, cd, name, times = st
        if name is None:
          if cls == 'S':
            name = f'c{i}'
          else:
            an = auto_class_name(ccls)
            j = auto.get(an, 0)
            auto[an] = j + 1
            name = autoname(an, j)
        reserve(name, None)
        for ci in range(times):
          x_in = x
          x = run(base_cls(ccls), cd, path + (name,), x)
          if trace is not None:
            trace.append(dict(path=path + (name,), call=ci, cls=ccls, d=cd,
                              x_in=np.array(x_in), x_out=np.array(x)))
      elif op == 'leak':
        pass
      else:
        raise AssertionError(op)
    return x

  x = run(cls, d, (), np.asarray(x, np.float32))
  return x, store, used


# --------------------------------------------------------------------------
# program enumeration

NAMES = ('a', 'b')


def leaf_statements(cols=('stats', 'cnt'), kinds=('read', 'count', 'acc'),
                    sow=True, perturb=True, rng=(), vec=True, force=False):
  out = []
  for n in NAMES:
    out.append(('param', n, 's'))
  if vec:
    out.append(('param', 'a', 'v'))
  for col in cols:
    for k in kinds:
      out.append(('var', col, 'a', k))
  if force:
    out.append(('var', cols[0], 'a', 'force'))
  if sow:
    out.append(('sow', 'aux', 'a'))
    out.append(('sow', 'intermediates', 'b'))
  if perturb:
    out.append(('perturb', 'b'))
  for s in rng:
    out.append(('rng', s))
  return out


def legal(d):
  """No (col, name) created twice, no child/variable name clash."""
  seen = {}
  for st in d:
    if st[0] == 'param':
      key, col = st[1], 'params'
    elif st[0] == 'var':
      key, col = st[2], st[1]
    elif st[0] == 'sow':
      key, col = st[2], st[1]
    elif st[0] == 'perturb':
      key, col = st[1], 'perturbations'
    elif st[0] == 'child':
      key, col = st[3], None
      if key is None:
        continue
    else:
      continue
    cols = seen.setdefault(key, set())
    if col in cols or None in cols or (col is None and cols):
      return False
    cols.add(col)
  return True


def size(d):
  return sum(1 + (size(st[2]) if st[0] == 'child' else 0) for st in d)


def defs_upto(n, depth, leaves, child_cls=('A', 'B'), child_names=(None, 'a', 'c'),
              times=(1, 2), variants=None):
  """All legal definitions with total statement count <= n and nesting <= depth,
  in canonical (size, lexicographic) order."""
  memo = {}

  def gen(n, depth):
    key = (n, depth)
    if key in memo:
      return memo[key]
    res = [()]
    if n > 0:
      # first statement + rest
      firsts = [(st, 1) for st in leaves]
      if depth > 0:
        for sub_n in range(1, n):
          for cd in gen(sub_n, depth - 1):
            if not cd or size(cd) != sub_n:
              continue
            vs = variants or [(cc, nm, t) for cc in child_cls for nm in child_names
                              for t in times]
            for cc, nm, t in vs:
              if cc == 'S' and not _setup_ok(cd):
                continue
              firsts.append((('child', cc, cd, nm, t), 1 + sub_n))
      for st, cost in firsts:
        for rest in gen(n - cost, depth):
          d = (st,) + rest
          if legal(d):
            res.append(d)
    # dedupe, stable
    seen = set()
    out = []
    for d in res:
      if d not in seen:
        seen.add(d)
        out.append(d)
    memo[key] = out
    return out

  ds = gen(n, depth)
  ds = [d for d in ds if d]
  ds.sort(key=lambda d: (size(d), repr(d)))
  return ds


def _setup_ok(d):
  return all(not (st[0] == 'param' and st[2] == 'v') for st in d)


def setup_ok(d):
  return _setup_ok(d) and all(
    (st[0] != 'child') or (st[1] != 'S' or setup_ok(st[2])) for st in d)


def has(d, pred):
  for st in d:
    if pred(st):
      return True
    if _is_nested(st) and has(st[_def_index(st)], pred):
      return True
  return False


def _is_nested(st):
  return st[0] in ('child', 'cond', 'switch', 'while')


def _def_index(st):
  return 2 if st[0] == 'child' else 4


def tolist(d):
  out = []
  for st in d:
    if _is_nested(st):
      i = _def_index(st)
      out.append([_j(v) for v in st[:i]] + [tolist(st[i])] + [_j(v) for v in st[i + 1:]])
    else:
      out.append([_j(v) for v in st])
  return out


def _j(v):
  return list(v) if isinstance(v, tuple) else v


def fromlist(l):
  out = []
  for st in l:
    if _is_nested(st):
      i = _def_index(st)
      out.append(tuple(_t(v) for v in st[:i]) + (fromlist(st[i]),) +
                 tuple(_t(v) for v in st[i + 1:]))
    else:
      out.append(tuple(_t(v) for v in st))
  return tuple(out)


def _t(v):
  return tuple(v) if isinstance(v, list) else v


def _old_tolist(d):
  """JSON-able form of a definition (tuples -> lists)."""
  return [([st[0], st[1], tolist(st[2])] + list(st[3:])) if st[0] == 'child' else list(st)
          for st in d]


def _old_fromlist(l):
  return tuple(
    (('child', st[1], _old_fromlist(st[2])) + tuple(st[3:])) if st[0] == 'child' else tuple(st)
    for st in l)
