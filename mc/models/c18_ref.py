"""C18 — plain-Python readers of both sides of the bridge (no bridge code).

* canonical forms of Linen variable dicts whose leaves may be arrays,
  nn.Partitioned boxes, NNXMeta boxes or an NNX GraphDef;
* `held(wrapper)`: the Variables a ToNNX wrapper holds, read attribute by
  attribute;
* `nnx_vars(module)`: the Variables of a plain NNX module, by attribute path.
"""
from __future__ import annotations

import hashlib

import numpy as np

from mc.engine.canon import leaf_sig

HOOKS = ('_hooks',)
_GD_CACHE = {}


def _meta_sig(md):
  """Metadata dict -> sorted tuple; empty hook tuples are not metadata."""
  out = []
  for k in sorted(md):
    v = md[k]
    if k.endswith(HOOKS) and v == ():
      continue
    if isinstance(v, type):
      v = v.__module__ + '.' + v.__qualname__
    out.append((k, repr(v)))
  return tuple(out)


def box_sig(leaf):
  """Canonical form of one Linen leaf (box kind, sharding metadata, value)."""
  from flax.core import meta
  from flax.nnx import graph
  from flax.nnx.bridge import variables as bv
  if isinstance(leaf, bv.NNXMeta):
    return ('NNXMeta', leaf.var_type.__module__ + '.' + leaf.var_type.__qualname__,
            _meta_sig(leaf.metadata), leaf_sig(leaf.value))
  if isinstance(leaf, meta.AxisMetadata):
    fields = {k: v for k, v in vars(leaf).items() if k != 'value'}
    return (type(leaf).__name__, _meta_sig(fields),
            leaf_sig(getattr(leaf, 'value', None)))
  if isinstance(leaf, (graph.NodeDef, graph.NodeRef)):
    hit = _GD_CACHE.get(id(leaf))
    if hit is None or hit[0] is not leaf:
      hit = (leaf, hashlib.sha1(repr(leaf).encode()).hexdigest()[:16])
      if len(_GD_CACHE) > 4096:
        _GD_CACHE.clear()
      _GD_CACHE[id(leaf)] = hit  # keeps `leaf` alive, so the id stays valid
    return ('graphdef', hit[1])
  return leaf_sig(leaf)


def is_leaf(x):
  from flax.core import meta
  from flax.nnx import graph
  return isinstance(x, (meta.AxisMetadata, graph.NodeDef, graph.NodeRef)) or not hasattr(x, 'items')


def flat(tree, prefix=()):
  """{path: leaf} of nested mappings; boxes and graphdefs are leaves."""
  out = {}
  if is_leaf(tree):
    out[prefix] = tree
    return out
  for k in tree.keys():
    out.update(flat(tree[k], prefix + (k,)))
  return out


def canon_vars(variables):
  return tuple(sorted((p, box_sig(v)) for p, v in flat(variables).items()))


def fresh(variables):
  """Structural copy: new dicts, new boxes (same arrays)."""
  from flax.core import meta
  def cp(t):
    if is_leaf(t):
      if isinstance(t, meta.AxisMetadata):
        return t.replace_boxed(t.value) if hasattr(t, 'value') else t
      return t
    return {k: cp(t[k]) for k in t.keys()}
  return cp(variables)


def unbox1(leaf):
  from flax.core import meta
  if isinstance(leaf, meta.AxisMetadata):
    return leaf.value
  return leaf


def names_of(leaf):
  """Sharding names a Linen leaf carries (None for a bare array)."""
  from flax.core import meta
  from flax.nnx.bridge import variables as bv
  if isinstance(leaf, bv.NNXMeta):
    return leaf.metadata.get('sharding')
  if isinstance(leaf, meta.AxisMetadata):
    return getattr(leaf, 'names', '<no names attribute>')
  return None


def var_sig(v):
  """(type, value, metadata) of an NNX Variable / VariableState."""
  from flax import nnx
  t = type(v) if isinstance(v, nnx.Variable) else v.type
  return (t.__module__ + '.' + t.__qualname__, _meta_sig(v.get_metadata()), leaf_sig(v.value))


def held(wrapper):
  """{attribute path: nnx.Variable} held by a ToNNX wrapper; other things raise."""
  from flax import nnx
  out = {}

  def walk(node, path):
    if isinstance(node, nnx.Variable):
      out[path] = node
    elif isinstance(node, dict):
      for k in node:
        walk(node[k], path + (k,))
    else:
      out[path] = node  # reported by the caller as a foreign attribute

  for name, val in vars(wrapper).items():
    if name in ('module', 'rngs', '_object__state'):
      continue
    walk(val, (name,))
  return out


def nnx_vars(module):
  """{attribute path: nnx.Variable} of a plain NNX module (Modules, dicts)."""
  from flax import nnx
  out = {}
  seen = set()

  def walk(node, path):
    if isinstance(node, nnx.Variable):
      out[path] = node
    elif isinstance(node, nnx.Object):
      if id(node) in seen:
        return
      seen.add(id(node))
      for k, v in sorted(vars(node).items()):
        if k != '_object__state':
          walk(v, path + (k,))
    elif isinstance(node, dict):
      for k in node:
        walk(node[k], path + (k,))

  walk(module, ())
  return out


def rng_sig(rngs):
  """Canonical (stream -> key data, count) of an nnx.Rngs."""
  import jax
  out = []
  for name, s in rngs.items():
    out.append((name, tuple(np.asarray(jax.random.key_data(s.key.value)).ravel().tolist()),
                int(s.count.value)))
  return tuple(sorted(out))


def in_filter(mutable, col):
  if mutable is True:
    return True
  if mutable is False or mutable is None:
    return False
  if isinstance(mutable, str):
    return col == mutable
  return col in mutable


def merge_cols(state, updates):
  new = dict(state)
  for c in updates.keys():
    new[c] = updates[c]
  return new
