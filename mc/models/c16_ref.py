"""C16 reference models: tree enumeration, a boring recursive flatten / prune,
and a path-set model of NNX State operations.  Nothing here imports flax.

Tree descriptors (JSON-free, hashable): a node is either a leaf token
'I' (int), 'A' (array), 'N' (None) or a tuple of (key, node) pairs (a dict;
the empty tuple is the empty dict).  Keys are str or int.
"""
from __future__ import annotations

import itertools

LEAF_TOKENS = ('I', 'A', 'N')


def is_dict(n):
  return isinstance(n, tuple)


# --------------------------------------------------------------------------
# enumeration


def keysets(keys, maxk):
  out = [()]
  for k in range(1, maxk + 1):
    out.extend(itertools.combinations(keys, k))
  return out


def trees(keys, leaves, depth, maxk=2, budget=None, homogeneous=True):
  """Every dict of depth <= `depth` (root counts as level 1 ... a root whose
  children are all leaves has depth 1), <= maxk keys per dict drawn from `keys`
  in alphabet order, leaves from `leaves` (tokens) plus the empty dict, and at
  most `budget` non-root nodes (None = unbounded).  With homogeneous=True the
  keys of one dict are all str or all int.  Deterministic order, smallest first
  within a key set.
  """
  ks = [s for s in keysets(keys, maxk)
        if not homogeneous or len({type(k) for k in s}) <= 1]

  memo = {}

  def nodes(d, b):
    """all nodes of height <= d using exactly... at most b descendant nodes;
    returns list of (node, size) where size = number of descendants."""
    key = (d, b)
    if key in memo:
      return memo[key]
    out = [(t, 0) for t in leaves]
    out.extend(dicts(d, b))
    memo[key] = out
    return out

  dmemo = {}

  def dicts(d, b):
    key = (d, b)
    if key in dmemo:
      return dmemo[key]
    out = [((), 0)]
    if d > 0:
      for s in ks:
        if not s or len(s) > b:
          continue
        out.extend(_prod(s, d, b))
    dmemo[key] = out
    return out

  def _prod(s, d, b):
    res = []

    def rec(i, acc, used):
      if i == len(s):
        res.append((tuple(acc), used))
        return
      remaining_keys = len(s) - i - 1
      for c, sz in nodes(d - 1, b - used - 1 - remaining_keys):
        rec(i + 1, acc + [(s[i], c)], used + 1 + sz)

    rec(0, [], 0)
    return res

  b = budget if budget is not None else 10 ** 9
  return [t for t, _ in dicts(depth, b)]


def depth_of(n):
  if not is_dict(n):
    return 0
  return 1 + max((depth_of(c) for _, c in n), default=0)


def size_of(n):
  if not is_dict(n):
    return 0
  return sum(1 + size_of(c) for _, c in n)


def has_int_key(n):
  if not is_dict(n):
    return False
  return any(isinstance(k, int) or has_int_key(c) for k, c in n)


def tree_text(n):
  if not is_dict(n):
    return n
  return '{' + ','.join(f'{k!r}:{tree_text(c)}' for k, c in n) + '}'


def to_jsonable(n):
  if not is_dict(n):
    return n
  return [[k, to_jsonable(c)] for k, c in n]


def from_jsonable(j):
  if isinstance(j, str):
    return j
  return tuple((k, from_jsonable(c)) for k, c in j)


# --------------------------------------------------------------------------
# is_leaf predicates (all False at the root: `is_leaf` is documented for the
# *nested* dictionaries).  They are evaluated on descriptor nodes by the
# reference and on real mappings by the implementation.

PREDS = {
  'none': None,
  'd1': lambda p, keys: len(p) >= 1,
  'd2': lambda p, keys: len(p) >= 2,
  'ka': lambda p, keys: len(p) >= 1 and 'a' in keys,
  'em': lambda p, keys: len(p) >= 1 and len(keys) == 0,
  # path-shaped predicates: the path is the tuple of keys whatever `sep` is
  'e2': lambda p, keys: len(p) == 2,
  'lb': lambda p, keys: len(p) >= 1 and p[-1:] == ('b',),
}


def real_pred(name):
  f = PREDS[name]
  if f is None:
    return None
  return lambda p, xs: f(p, list(xs.keys()))


# --------------------------------------------------------------------------
# reference flatten / round trip on descriptors.  Values in the results are
# ('leaf', path) for a non-dict leaf (the leaf at that path of the input),
# ('sub', path) for a whole sub-dict kept by is_leaf, 'EMPTY' for the sentinel.


def ref_flatten(t, keep, pred):
  """list of (path, marker) in traversal order."""
  f = PREDS[pred]
  out = []

  def rec(n, p):
    if not is_dict(n):
      out.append((p, ('leaf', p)))
      return
    if f is not None and f(p, [k for k, _ in n]):
      out.append((p, ('sub', p)))
      return
    if not n:
      if keep and p != ():
        out.append((p, 'EMPTY'))
      return
    for k, c in n:
      rec(c, p + (k,))

  rec(t, ())
  return out


def ref_round(t, keep, pred):
  """Descriptor of unflatten(flatten(t)): t itself with keep_empty_nodes, t
  with every leafless sub-dict removed without (sub-dicts kept whole by
  is_leaf are values and survive untouched)."""
  f = PREDS[pred]
  GONE = object()

  def rec(n, p):
    if not is_dict(n):
      return n
    if f is not None and f(p, [k for k, _ in n]):
      return n
    kids = []
    for k, c in n:
      r = rec(c, p + (k,))
      if r is not GONE:
        kids.append((k, r))
    if not kids and p != () and not (keep and not n):
      # nothing survived below: without keep the node vanishes; with keep a
      # non-empty node always has a survivor, so this is only reached without
      return GONE
    return tuple(kids)

  return rec(t, ())


def ref_leaves(t):
  """[(path, token)] of the non-dict leaves, traversal order."""
  out = []

  def rec(n, p):
    if not is_dict(n):
      out.append((p, n))
    else:
      for k, c in n:
        rec(c, p + (k,))

  rec(t, ())
  return out


def join(path, sep):
  """separator-joined key, written without str.join on purpose."""
  if sep is None:
    return path
  s = ''
  for i, k in enumerate(path):
    if not isinstance(k, str):
      raise TypeError('non-str key with a separator')
    s = s + (sep if i else '') + k
  return s


def subtree(t, path):
  for k in path:
    t = dict(t)[k]
  return t


# --------------------------------------------------------------------------
# NNX State model: a state is {path: (type name, value)}.

UNIVERSES = {
  # name: list of (path, type name); prefix-free, sortable as tuples
  'U1': [(('a',), 'Param'), (('b', 'c'), 'Param'), (('b', 'd'), 'BatchStat'),
         (('e', 0), 'Cache')],
  'U2': [(('b', 'a'), 'BatchStat'), (('b', 'c', 'd'), 'Param'), (('e', 0), 'Param'),
         (('e', 1), 'raw')],
  'U3': [(('a',), 'Param'), (('b', 'c'), 'BatchStat'), (('b', 'd', 'a'), 'Param'),
         (('e', 0, 'w'), 'Cache'), (('e', 1, 'w'), 'raw')],
}

# value schemes: value of path i in state side s ('a' | 'b')
SCHEMES = {
  'distinct': lambda side, i: (10 if side == 'a' else 20) + i,
  'same': lambda side, i: i,                                     # equal values at equal paths
  'crossed': lambda side, i: i if side == 'a' else (i + 1) % 4,  # equal values at different paths
}

# in side b some paths carry another Variable type than in side a, so that
# "later wins" is observable on the type as well
B_TYPE_SWAP = {'Param': 'BatchStat', 'BatchStat': 'Param', 'Cache': 'Cache', 'raw': 'raw'}


def model_state(universe, scheme, side, mask):
  u = UNIVERSES[universe]
  out = {}
  for i, (path, tname) in enumerate(u):
    if mask >> i & 1:
      if side == 'b' and i % 2 == 1:
        tname = B_TYPE_SWAP[tname]
      out[path] = (tname, SCHEMES[scheme](side, i))
  return out


SUBTYPES = {  # type name -> set of filter type names it satisfies
  'Param': {'Param', 'Variable'},
  'BatchStat': {'BatchStat', 'Variable'},
  'Cache': {'Cache', 'Variable'},
  'raw': set(),
}

# filter alphabet: name -> reference predicate on (path, type name, value)
FILTERS = {
  'Param': lambda p, t, v: 'Param' in SUBTYPES[t],
  'BatchStat': lambda p, t, v: 'BatchStat' in SUBTYPES[t],
  'Variable': lambda p, t, v: 'Variable' in SUBTYPES[t],
  'path:b': lambda p, t, v: 'b' in p,
  'path:0': lambda p, t, v: 0 in p,
  'not:Param': lambda p, t, v: 'Param' not in SUBTYPES[t],
  'any:BatchStat,path:e': lambda p, t, v: 'BatchStat' in SUBTYPES[t] or 'e' in p,
  'all:Param,path:b': lambda p, t, v: 'Param' in SUBTYPES[t] and 'b' in p,
  'len2': lambda p, t, v: len(p) == 2,
  'odd': lambda p, t, v: v % 2 == 1,
  'nothing': lambda p, t, v: False,
  'none': lambda p, t, v: False,
  'false': lambda p, t, v: False,
  '...': lambda p, t, v: True,
  'true': lambda p, t, v: True,
}
EVERYTHING = ('...', 'true')


def legal_tuple(ft):
  """`...` / True may only be followed by `...` / True (statelib._split_state)."""
  for i, f in enumerate(ft):
    if f in EVERYTHING and any(g not in EVERYTHING for g in ft[i + 1:]):
      return False
  return True


def partition(state, ft):
  """first-match partition: list of len(ft)+1 dicts, the last is the rest."""
  parts = [dict() for _ in range(len(ft) + 1)]
  for p, (t, v) in state.items():
    for i, f in enumerate(ft):
      if FILTERS[f](p, t, v):
        parts[i][p] = (t, v)
        break
    else:
      parts[-1][p] = (t, v)
  return parts


def m_merge(*states):
  out = {}
  for s in states:
    for p, tv in s.items():
      out[p] = tv
  return out


def m_diff(a, b):
  return {p: tv for p, tv in a.items() if p not in b}


def nest(flat):
  """{path: x} -> nested dict (paths are prefix-free)."""
  out = {}
  for p, x in flat.items():
    cur = out
    for k in p[:-1]:
      cur = cur.setdefault(k, {})
    cur[p[-1]] = x
  return out
