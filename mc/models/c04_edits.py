"""C04 helpers (DESIGN §4 C04): base argument graphs, the edit-op alphabet and
edit-program bodies, canonical forms with identity labels, and the node-clone
model of `nnx.cached_partial`.

Nothing here calls flax.nnx.graph (split / merge / flatten / update_context)
to compute an expectation.  The oracle side is *the same Python body run
eagerly* on a structurally identical fresh copy; graphs are read with `vars()`,
`isinstance`, `.value` and `.get_metadata()` only.

Vocabulary
  x = args[0]   always a graph node of class A:  {v: Param, s: int, c: B{w: BatchStat(tag='t')}}
  y = args[-1]  a graph node (A or B) or a bare Variable, depending on the family
Families (argument tuples)
  one     (a,)                      cyc     (a,) with the back edge a.c.p = a
  two     (a, b)  disjoint          same    (a, a)  the same object twice
  shnode  (a, b)  b.c is a.c        shvar   (a, b)  b.v is a.v
  objvar  (a, a.v) bare Variable    objsub  (a, a.c) a contained sub-node
  mutual  (a, b)  a.c.p = b, b.c.p = a
"""
from __future__ import annotations

import types

import numpy as np

_LIB = None


def lib():
  """Lazy import of jax / flax (after core.bind_repo()) and the node classes."""
  global _LIB
  if _LIB is None:
    import jax
    import jax.numpy as jnp
    from flax import nnx

    class A(nnx.Module):
      pass

    class B(nnx.Module):
      pass

    _LIB = types.SimpleNamespace(jax=jax, jnp=jnp, nnx=nnx, A=A, B=B,
                                 Variable=nnx.Variable, Object=nnx.Object)
  return _LIB


class Inapplicable(Exception):
  """The edit op does not apply to the current structure (e.g. the attribute
  it addresses was deleted, or y is a bare Variable)."""


# ---------------------------------------------------------------------------
# base graphs

# integer-valued float32 data; VERIF_SEED rotates the pool (never the structure)
_POOL = [(1., 10.), (2., 20.), (3., 12.), (5., 30.)]

ARITY1 = ('one', 'cyc')
ARITY2 = ('two', 'same', 'shnode', 'shvar', 'objvar')
ARITY2_T = ARITY2 + ('objsub', 'mutual')


def families(tier):
  return ARITY1 + (ARITY2 if tier == 'quick' else ARITY2_T)


def partner(fam, tier):
  """The structurally different graph of the same arity used by the 'graph'
  between-call action (cyclic successor)."""
  group = ARITY1 if fam in ARITY1 else (ARITY2 if tier == 'quick' else ARITY2_T)
  return group[(group.index(fam) + 1) % len(group)]


def mk(k, seed):
  """Object number k: A{v: Param, s: 1+k, c: B{w: BatchStat(tag='t')}}."""
  L = lib()
  v0, w0 = _POOL[seed % len(_POOL)]
  a = L.A()
  a.v = L.nnx.Param(L.jnp.float32(v0 + 3 * k))
  a.s = 1 + k
  a.c = L.B()
  a.c.w = L.nnx.BatchStat(L.jnp.float32(w0 + 5 * k), tag='t')
  return a


def derive(fam, a, seed):
  """The second argument of a 2-argument family, given the first.  Raises
  Inapplicable (before touching anything) when `a` no longer has the attribute
  the family needs (a program may have deleted it)."""
  if fam == 'two':
    return mk(1, seed)
  if fam == 'same':
    return a
  if fam == 'shnode':
    c = _N(_get(a, 'c'))
    b = mk(1, seed)
    b.c = c
    return b
  if fam == 'shvar':
    v = _V(_get(a, 'v'))
    b = mk(1, seed)
    b.v = v
    return b
  if fam == 'objvar':
    return _V(_get(a, 'v'))
  if fam == 'objsub':
    return _N(_get(a, 'c'))
  if fam == 'mutual':
    c = _N(_get(a, 'c'))
    b = mk(1, seed)
    c.p = b
    b.c.p = a
    return b
  raise KeyError(fam)


def build(fam, seed):
  a = mk(0, seed)
  if fam == 'one':
    return (a,)
  if fam == 'cyc':
    a.c.p = a
    return (a,)
  return (a, derive(fam, a, seed))


# ---------------------------------------------------------------------------
# reading graphs


def _attrs(o):
  return [(n, v) for n, v in sorted(vars(o).items()) if n != '_object__state']


def walk(roots):
  """Graph nodes and Variables reachable from `roots`, in first-visit order
  (roots in order, attributes in sorted order)."""
  L = lib()
  out, seen = [], set()

  def rec(o):
    if isinstance(o, (L.Variable, L.Object)):
      if id(o) in seen:
        return
      seen.add(id(o))
      out.append(o)
      if isinstance(o, L.Object):
        for _, c in _attrs(o):
          rec(c)
    elif isinstance(o, (tuple, list)):
      for c in o:
        rec(c)

  for r in roots:
    rec(r)
  return out


def label_map(objs):
  """id -> 'p<k>' for a list of live objects (the caller keeps `objs` alive)."""
  return {id(o): f'p{k}' for k, o in enumerate(objs)}


def canon(roots, labels=None, values=True):
  """Canonical form of the graphs under `roots`: node types, static attributes,
  Variable types / values / metadata and the identity partition (first-visit
  index + back references).  With `labels` every node / Variable additionally
  carries its pre-call label ('new' if it did not exist before the call), so
  equality of two labelled forms means: the same pre-existing objects sit at
  the same places, new objects are new on both sides."""
  L = lib()
  seen = {}

  def lab(o):
    return None if labels is None else labels.get(id(o), 'new')

  def rec(o):
    if isinstance(o, L.Variable):
      if id(o) in seen:
        return ['ref', seen[id(o)]]
      k = seen[id(o)] = len(seen)
      val = np.asarray(o.value)
      md = sorted([n, repr(m)] for n, m in o.get_metadata().items() if not callable(m))
      return ['var', k, lab(o), type(o).__name__, str(val.dtype), list(val.shape),
              val.tolist() if values else None, md]
    if isinstance(o, L.Object):
      if id(o) in seen:
        return ['ref', seen[id(o)]]
      k = seen[id(o)] = len(seen)
      return ['node', k, lab(o), type(o).__name__, [[n, rec(c)] for n, c in _attrs(o)]]
    if o is None or isinstance(o, (bool, int, float, str)):
      return ['static', type(o).__name__, o]
    if isinstance(o, (tuple, list)):
      return [type(o).__name__, [rec(c) for c in o]]
    arr = np.asarray(o)
    return ['array', str(arr.dtype), list(arr.shape), arr.tolist() if values else None]

  return [rec(r) for r in roots]


def clone_nodes(root):
  """Model of what `cached_partial` documents: the cached graph nodes are
  cloned, the clones reference the *same* Variable objects."""
  L = lib()
  memo = {}

  def rec(o):
    if isinstance(o, L.Object):
      if id(o) in memo:
        return memo[id(o)]
      n = type(o)()
      memo[id(o)] = n
      for name, c in _attrs(o):
        setattr(n, name, rec(c))
      return n
    return o

  return rec(root)


def first_variable(roots):
  L = lib()
  for o in walk(roots):
    if isinstance(o, L.Variable):
      return o
  return None


# ---------------------------------------------------------------------------
# edit ops


def _N(o):
  if not isinstance(o, lib().Object):
    raise Inapplicable('not a graph node')
  return o


def _V(o):
  if not isinstance(o, lib().Variable):
    raise Inapplicable('not a Variable')
  return o


def _get(o, name):
  d = vars(_N(o))
  if name not in d:
    raise Inapplicable(f'no attribute {name}')
  return d[name]


def _yv(args):
  y = args[-1]
  return y if isinstance(y, lib().Variable) else _V(_get(y, 'v'))


def _yw(args):
  y = args[-1]
  return y if isinstance(y, lib().Variable) else _V(_get(_get(y, 'c'), 'w'))


def op_inc(args):
  v = _V(_get(args[0], 'v'))
  v.value = v.value + 1


def op_dbl(args):
  w = _yw(args)
  w.value = w.value * 2


def op_mov(args):
  w = _V(_get(_get(args[0], 'c'), 'w'))
  w.value = w.value + _yv(args).value


def op_sinc(args):
  x = args[0]
  s = _get(x, 's')
  if not isinstance(s, int):
    raise Inapplicable('s is not a static int')
  x.s = s + 1


def op_sset(args):
  c = _N(_get(_N(args[-1]), 'c'))
  c.t = 7


def op_addv(args):
  L = lib()
  x = _N(args[0])
  x.n = L.nnx.Param(_V(_get(x, 'v')).value + 5)


def op_addw(args):
  L = lib()
  c = _N(_get(_N(args[-1]), 'c'))
  c.n = L.nnx.BatchStat(L.jnp.float32(100.), tag='n')


def op_delc(args):
  _get(args[0], 'c')
  del args[0].c


def op_delv(args):
  _get(args[-1], 'v')
  del args[-1].v


def op_dels(args):
  _get(args[0], 's')
  del args[0].s


def op_rnode(args):
  _N(args[-1]).r = _N(_get(args[0], 'c'))


def op_rchild(args):
  _N(args[0]).c = _N(_get(_N(args[-1]), 'c'))


def op_rvar(args):
  _N(args[0]).r = _yv(args)


def op_rback(args):
  _N(_get(args[0], 'c')).p = args[-1]


def op_rvslot(args):
  _get(args[0], 'v')
  args[0].v = _yw(args)


def op_newo(args):
  L = lib()
  d = L.B()
  d.w = L.nnx.BatchStat(L.jnp.float32(3.))
  _N(args[0]).d = d


def op_newsh(args):
  L = lib()
  d = L.B()
  d.w = _V(_get(args[0], 'v'))
  _N(args[-1]).d = d


def op_swapv(args):
  x = _N(args[0])
  c = _N(_get(x, 'c'))
  v, w = _get(x, 'v'), _get(c, 'w')
  x.v, c.w = w, v


def op_swapc(args):
  x, y = _N(args[0]), _N(args[-1])
  cx, cy = _get(x, 'c'), _get(y, 'c')
  x.c, y.c = cy, cx


def op_self(args):
  x = _N(args[0])
  x.me = x


def op_selfc(args):
  c = _N(_get(_N(args[-1]), 'c'))
  c.me = c


OPS = dict(inc=op_inc, dbl=op_dbl, mov=op_mov, sinc=op_sinc, sset=op_sset, addv=op_addv,
           addw=op_addw, delc=op_delc, delv=op_delv, dels=op_dels, rnode=op_rnode,
           rchild=op_rchild, rvar=op_rvar, rback=op_rback, rvslot=op_rvslot, newo=op_newo,
           newsh=op_newsh, swapv=op_swapv, swapc=op_swapc, self=op_self, selfc=op_selfc)

VALUE_OPS = ('inc', 'dbl', 'mov')
# edit kinds of the DESIGN alphabet -> ops
KIND = dict(inc='value', dbl='value', mov='value', sinc='static', sset='static',
            addv='add-variable', addw='add-variable', delc='delete', delv='delete',
            dels='delete', rnode='rebind', rchild='rebind', rvar='rebind', rback='rebind',
            rvslot='rebind', newo='new-object', newsh='new-object', swapv='swap',
            swapc='swap', self='self-reference', selfc='self-reference')
ALPHA_QUICK = ('inc', 'dbl', 'mov', 'sinc', 'sset', 'addv', 'delc', 'rnode', 'rchild',
               'rback', 'newo', 'swapv', 'self')
ALPHA_FULL = ALPHA_QUICK + ('delv', 'rvar', 'addw', 'dels', 'rvslot', 'newsh', 'swapc',
                            'selfc')


def is_value_only(prog):
  return all(op in VALUE_OPS for op in prog)


def programs(alpha, maxlen):
  out = [()]
  layer = [()]
  for _ in range(maxlen):
    layer = [p + (op,) for p in layer for op in alpha]
    out.extend(layer)
  return out


# ---------------------------------------------------------------------------
# bodies


def readout(args):
  """A read of everything reachable (runs inside the transform): the values of
  all Variables in first-visit order, plus one entry folded from the static
  ints (a trace-time constant: a replayed stale trace shows here)."""
  L = lib()
  vals, seen = [], set()
  acc = [0, 0]

  def rec(o):
    if id(o) in seen:
      return
    seen.add(id(o))
    if isinstance(o, L.Variable):
      vals.append(o.value)
      return
    for _, c in _attrs(o):
      acc[1] += 1
      if isinstance(c, (L.Variable, L.Object)):
        rec(c)
      elif isinstance(c, int):
        acc[0] += acc[1] * c

  for a in args:
    rec(a)
  return L.jnp.stack([L.jnp.asarray(v, L.jnp.float32) for v in vals]
                     + [L.jnp.float32(acc[0])])


def apply_prog(prog, args):
  for op in prog:
    OPS[op](args)


def make_body(prog, counter, ret_node):
  """f(*args) -> (readout before, readout after[, x.c if it is a graph node])."""
  L = lib()

  def body(*args):
    counter[0] += 1
    pre = readout(args)
    apply_prog(prog, args)
    post = readout(args)
    if not ret_node:
      return pre, post
    rn = vars(args[0]).get('c')
    return pre, post, (rn if isinstance(rn, L.Object) else None)

  return body


def fold(acc, post):
  """Loop accumulator: scalar, exact in float32 for the data used here."""
  return acc * 2 + lib().jnp.sum(post)
