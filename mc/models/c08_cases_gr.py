"""C08: case lists of the grad (GR) and rng (RN) families (pure data)."""
from __future__ import annotations

import itertools

T = lambda n: ['T', n]
P = lambda k: ['P', k]

WG = dict(w1=['Param', [2, 3], 'f'], k1=['PSub', [2], 'f'], b1=['BatchStat', [2], 'f'],
          c1=['Count', [2], 'i'], sw1=['Param', [2], 'f'], sb1=['BatchStat', [2], 'f'],
          w2=['Param', [2], 'f'], k2=['PSub', [2], 'f'], b2=['BatchStat', [2], 'f'],
          c2=['Count', [2], 'i'])
M1 = dict(w='w1', k='k1', b='b1', c='c1', sub=dict(w='sw1', b='sb1'))
M2 = dict(w='w2', k='k2', b='b2', c='c2')
M2_SHW = dict(w='w1', k='k2', b='b2', c='c2')       # shares the Param w1 with M1
M2_SHK = dict(w='w2', k='k1', b='b2', c='c2')       # shares the PSub k1 with M1

STRUCTS = {
  'G1': [['m', M1], ['m', M2], ['x']],
  'G2': [['m', M1], ['m', M2_SHW], ['x']],
  'G5': [['m', M1], ['m', M2_SHK], ['x']],
  'G4': [['m', M1, 'A'], ['m', M1, 'A'], ['x']],
  'G3': [['d', {'p': ['m', M1], 'q': ['m', dict(w='w1', k='k1')]}], ['m', M2], ['x']],
}

FILTERS = [T('Param'), T('PSub'), P('sub'), T('BatchStat'), ['any', T('PSub'), T('BatchStat')],
           P('w'), ['all', T('Param'), ['not', T('PSub')]]]
GBODIES = ['ro', 'inc', 'stat', 'wall']


def DS(i, f):
  return ['ds', i, f]


def _argnums(tier):
  out = [0, 1, ['t', [0, 1]], ['t', [1, 0]], ['t', [0]], 2, ['t', [0, 2]], ['t', [2, 1]],
         ['t', [0, 1, 2]]]
  fs = FILTERS
  for f in fs:
    out.append(DS(0, f))
    out.append(DS(1, f))
    out.append(['t', [DS(0, f), 1]])
    out.append(['t', [0, DS(1, f)]])
    out.append(['t', [DS(0, f), DS(1, f)]])
    out.append(['t', [DS(1, f), DS(0, f), 2]])
  pairs = list(itertools.permutations(fs, 2))
  if tier == 'quick':
    pairs = pairs[::5]
  for f, g in pairs:
    out.append(['t', [DS(0, f), DS(1, g)]])
  return out


def fam_GR(tier):
  out = []
  i = 0
  for sname in sorted(STRUCTS):
    for an in _argnums(tier):
      if tier == 'quick':
        # has_aux x value_and_grad in full, the body kind runs through its list
        combos = [(GBODIES[(i // 4 + k) % 4], a, v)
                  for k, (a, v) in enumerate(itertools.product((False, True), repeat=2))]
      else:
        combos = [(b, a, v) for b in GBODIES for a in (False, True) for v in (False, True)]
      for body, has_aux, vg in combos:
        out.append(dict(fam='GR', tf='grad', struct=sname, world=WG, args=STRUCTS[sname],
                        argnums=an, has_aux=has_aux, vg=vg, body=body))
        i += 1
  return out


# ---------------------------------------------------------------------------
# rng family

ONLY = [['...'], ['tag', 'a'], ['tag', 'b'], ['any', ['tag', 'a'], ['tag', 'b']],
        ['not', ['tag', 'a']], ['P', 'a'], ['T', 'RngState'], ['T', 'RngKey'], ['T', 'Param']]
DRAWS = [[1, 0], [0, 1], [1, 1], [2, 1]]
FORMS = ['ctx', 'deco', 'manual']


def _mixed(t, *options):
  out = []
  for opts in options:
    out.append(opts[t % len(opts)])
    t //= len(opts)
  return out


def fam_RN(tier):
  out = []
  i = 0
  g = 0
  for only in ONLY:
    for mode in ['vmap', 'scan', 'init']:
      for ni, n in enumerate([1, 2, 3]):
        if tier == 'quick':
          combos = [(FORMS[(g + ni) % 3], DRAWS[(g // 3 + ni) % 4])]
          if mode == 'vmap':
            combos.append((FORMS[(g + ni + 1) % 3], DRAWS[(g // 3 + ni + 2) % 4]))
        else:
          combos = [(f, d) for f in FORMS for d in DRAWS]
        for k, (form, draws) in enumerate(combos):
          u = g + ni + k
          out.append(dict(fam='RN', tf='rng', mode=mode, n=n, only=only, form=form, draws=draws,
                          tuple_splits=bool(u % 2), p_axis=[0, None, 1][(g + 2 * ni + k) % 3],
                          reverse=bool((g // 2 + k) % 2)))
          i += 1
      g += 1
  # no split at all: every rng stream carried through scan / shared in vmap
  for mode in ['scanC', 'vmapN']:
    for n in [1, 2, 3]:
      for draws in DRAWS:
        out.append(dict(fam='RN', tf='rng', mode=mode, n=n, only=None, form='none', draws=draws,
                        tuple_splits=False, p_axis=[0, None, 1][i % 3], reverse=bool(i % 2)))
        i += 1
  return out
