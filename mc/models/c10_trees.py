"""C10 helpers: leaf alphabet, container-tree enumeration, flat canonical form,
snapshots and single-point state-dict edits.

Nothing here calls the code under test except the container classes
themselves (FrozenDict, struct.dataclass, TrainState are *inputs* of the
property).  The oracle side (expected bytes, expected structure) is plain
Python / NumPy element access.
"""
from __future__ import annotations

import collections
import itertools
import re

import numpy as np

# ---------------------------------------------------------------------------
# (a) leaf alphabet

NP_DTYPES = ['bool', 'int8', 'int16', 'int32', 'int64', 'uint8', 'uint16', 'uint32',
             'uint64', 'float16', 'float32', 'float64', 'complex64', 'complex128']
# every scalar type ml_dtypes registers is added at run time (bfloat16, int4,
# uint4, all float8 names, and whatever else the installed version has)
JAX_UNSUPPORTED = {'int1', 'uint1', 'bcomplex32', 'complex32'}  # jnp.asarray rejects these
SHAPES = [(), (0,), (1,), (3,), (2, 3), (2, 0, 3), (2, 3, 2)]
LAYOUTS = ['C', 'F', 'stride2', 'stride2last', 'rev', 'bcast', 'T', 'perm', 'unaligned',
           'readonly']
TH_DEFAULT = 2 ** 30
TH_QUICK = [1, 2, 3, 7, 16, 64, TH_DEFAULT]
TH_THOROUGH = list(range(1, 66)) + [95, 96, 97, 127, 128, 129, 191, 192, 193, TH_DEFAULT]


def ml_dtype_names():
  import ml_dtypes
  out = []
  for n in sorted(dir(ml_dtypes)):
    o = getattr(ml_dtypes, n)
    if isinstance(o, type) and issubclass(o, np.generic) and np.dtype(o).name == n:
      out.append(n)
  return out


def all_dtype_names():
  return NP_DTYPES + ml_dtype_names()


def np_dtype(name):
  if name in NP_DTYPES:
    return np.dtype(name)
  import ml_dtypes
  return np.dtype(getattr(ml_dtypes, name))


def _modulus(name):
  if name in ('bool', 'int1', 'uint1', 'int2', 'uint2'):
    return 2
  if name.startswith('float4'):
    return 4
  return 7


def base_array(name, shape, rot):
  """C-contiguous array of the logical shape with small distinct values."""
  dt = np_dtype(name)
  n = int(np.prod(shape, dtype=np.int64))
  m = _modulus(name)
  vals = [(1 + 3 * i + rot) % m for i in range(n)]
  if name == 'float8_e8m0fnu':  # only powers of two are representable
    src = np.array([2.0 ** v for v in vals], np.float64)
  elif dt.kind == 'c' or 'complex' in name:
    src = np.array([complex(v, -((v + 2) % m)) for v in vals], np.complex128)
  else:
    src = np.array(vals, np.int64)
  return src.astype(dt).reshape(shape)


def apply_layout(base, layout):
  """A view/array logically of base.shape in the given memory layout, or None
  when the layout does not exist for that rank."""
  s = base.shape
  nd = base.ndim
  dt = base.dtype
  if layout == 'C':
    return base
  if layout == 'readonly':
    a = base.copy()
    a.setflags(write=False)
    return a
  if nd == 0:
    return None
  if layout == 'F':
    return np.asfortranarray(base) if nd >= 2 else None
  if layout == 'stride2':
    big = np.zeros((2 * s[0],) + s[1:], dt)
    big[::2] = base
    return big[::2]
  if layout == 'stride2last':
    if nd < 2:
      return None
    big = np.zeros(s[:-1] + (2 * s[-1],), dt)
    big[..., ::2] = base
    return big[..., ::2]
  if layout == 'rev':
    r = np.ascontiguousarray(base[::-1])
    return r[::-1]
  if layout == 'bcast':  # stride-0 view; logical content = repeated row / scalar
    if base.size == 0:
      return np.broadcast_to(np.zeros((), dt), s)
    if nd == 1:
      return np.broadcast_to(base.reshape(-1)[-1], s)
    return np.broadcast_to(base.reshape(-1)[:s[-1]], s)
  if layout == 'T':
    return np.ascontiguousarray(base.T).T if nd >= 2 else None
  if layout == 'perm':
    return np.ascontiguousarray(base.transpose(1, 0, 2)).transpose(1, 0, 2) if nd == 3 else None
  if layout == 'unaligned':
    buf = bytearray(base.nbytes + 1)
    v = np.frombuffer(buf, dtype=dt, offset=1, count=base.size).reshape(s)
    v[...] = base
    return v
  raise KeyError(layout)


PY_LEAVES = [
  0, -1, 255, 2 ** 31, 2 ** 63 - 1, -2 ** 63, 2 ** 64 - 1, True, False,
  0.0, -0.0, 1.5, -2.25e300, 5e-324, float('inf'), float('-inf'),
  complex(0, 0), complex(1.5, -2.0), complex(-0.0, float('inf')),
  None, b'', b'\x00\xff\x80abc', b'x' * 70, '', 'a', 'café 中', 'y' * 70,
]


# ---------------------------------------------------------------------------
# leaf signatures (layout independent)


def elementwise_bytes(a):
  """Bytes of the elements in row-major logical order, one element at a time."""
  a = np.asarray(a)
  return b''.join(a[idx].tobytes() for idx in np.ndindex(a.shape))


_DT_NAMES = {}


def is_py_leaf(x):
  return x is None or isinstance(x, (bool, int, float, complex, str, bytes))


def leaf_sig(x, elementwise=False):
  if is_py_leaf(x):
    return ('py', type(x).__name__, repr(x))
  a = np.asarray(x)
  dt = a.dtype
  nm = _DT_NAMES.get(dt)
  if nm is None:
    nm = _DT_NAMES[dt] = (dt.name, str(dt.str))
  return ('arr', nm[0], nm[1], a.shape,
          elementwise_bytes(a) if elementwise else a.tobytes())


# ---------------------------------------------------------------------------
# container classes (created lazily: flax must be imported from the bound tree)

_CLS = {}


def classes():
  if _CLS:
    return _CLS
  import optax
  from flax import struct
  from flax.core import FrozenDict
  from flax.training.train_state import TrainState

  NT1 = collections.namedtuple('NT1', ['x'])
  NT2 = collections.namedtuple('NT2', ['x', 'y'])

  @struct.dataclass
  class DC1:
    u: object

  @struct.dataclass
  class DC2:
    u: object
    v: object
    m: str = struct.field(pytree_node=False, default='meta')

  def apply_fn(*a, **k):
    return None

  _CLS.update(NT1=NT1, NT2=NT2, DC1=DC1, DC2=DC2, FrozenDict=FrozenDict,
              TrainState=TrainState, apply_fn=apply_fn, tx=optax.sgd(0.1))
  return _CLS


# ---------------------------------------------------------------------------
# (b) tree specs
#
# spec := 'A' | 'B' | (type, (spec, ...))
# types: dict fd list tuple nt dc ts

TYPES = ['dict', 'fd', 'list', 'tuple', 'nt', 'dc', 'ts']
ARITIES = {'dict': (0, 1, 2), 'fd': (0, 1, 2), 'list': (0, 1, 2), 'tuple': (0, 1, 2),
           'nt': (1, 2), 'dc': (1, 2), 'ts': (2,)}
LEAF_KINDS = ['A', 'B']
KEYS = {'dict': ('a', 'b'), 'fd': ('a', 'b'), 'list': ('0', '1'), 'tuple': ('0', '1'),
        'nt': ('x', 'y'), 'dc': ('u', 'v'), 'ts': ('params', 'opt_state')}


def _ok_child(parent, child):
  # a plain dict directly inside a FrozenDict *is* a FrozenDict after freezing:
  # the same object as the ('fd' in 'fd') spec, so it is not a distinct tree
  return not (parent == 'fd' and not isinstance(child, str) and child[0] == 'dict')


def trees(height):
  """All container specs of height <= `height` (height 1 = leaves only below)."""
  if height <= 0:
    return []
  kids = list(LEAF_KINDS) + trees(height - 1)
  out = []
  for ty in TYPES:
    ks = [k for k in kids if _ok_child(ty, k)]
    for ar in ARITIES[ty]:
      for combo in itertools.product(ks, repeat=ar):
        out.append((ty, tuple(combo)))
  return out


def height(spec):
  if isinstance(spec, str):
    return 0
  return 1 + max([height(c) for c in spec[1]] + [0])


def root_variants():
  """Roots for the depth-3 family: one slot takes a height-2 subtree, the
  sibling slot (if any) a leaf (kind B after the subtree, kind A before it)."""
  out = []
  for ty in TYPES:
    for ar in ARITIES[ty]:
      if ar == 0:
        continue
      for pos in range(ar):
        sib = None if ar == 1 else LEAF_KINDS[1 - pos]
        out.append((ty, ar, pos, sib))
  return out


def spine(variant, sub):
  ty, ar, pos, sib = variant
  if not _ok_child(ty, sub):
    return None
  kids = [sib] * ar
  kids[pos] = sub
  return (ty, tuple(kids))


def fmt(spec):
  if isinstance(spec, str):
    return spec
  return spec[0] + '(' + ','.join(fmt(c) for c in spec[1]) + ')'


def tojson(spec):
  if isinstance(spec, str):
    return spec
  return [spec[0], [tojson(c) for c in spec[1]]]


def fromjson(j):
  if isinstance(j, str):
    return j
  return (j[0], tuple(fromjson(c) for c in j[1]))


def same_shape(s1, s2):
  """Equal up to leaf kinds."""
  if isinstance(s1, str) or isinstance(s2, str):
    return isinstance(s1, str) and isinstance(s2, str)
  return s1[0] == s2[0] and len(s1[1]) == len(s2[1]) and all(
    same_shape(a, b) for a, b in zip(s1[1], s2[1]))


# leaves of trees: every position gets a distinct value; the pool member is
# rotated by position and seed
_LEAF_CACHE = {}


def tree_leaf(kind, n, seed):
  key = (kind, n, seed % 4)
  if key in _LEAF_CACHE:
    return _LEAF_CACHE[key]
  import ml_dtypes
  which = (n + seed) % 4
  v = 2 * n + 1
  if kind == 'A':
    if which == 0:
      x = np.array([v, v + 1], np.float32)
    elif which == 1:
      import jax.numpy as jnp
      x = jnp.asarray(np.array([[v, v + 1]], np.int32))
    elif which == 2:
      x = np.asfortranarray(np.array([[v, v + 1], [v + 2, v + 3]]).astype(ml_dtypes.bfloat16))
    else:
      x = np.array(v, np.int8)
  else:
    if which == 0:
      x = 1000 + v
    elif which == 1:
      x = np.float16(v)
    elif which == 2:
      x = f's{v}'
    else:
      x = v + 0.5
  _LEAF_CACHE[key] = x
  return x


def build(spec, seed, counter=None):
  c = classes()
  if counter is None:
    counter = [0]
  if isinstance(spec, str):
    n = counter[0]
    counter[0] += 1
    return tree_leaf(spec, n, seed)
  ty, kids = spec
  if ty == 'ts':
    step = build('B', seed, counter)
  vals = [build(k, seed, counter) for k in kids]
  if ty == 'dict':
    return dict(zip(KEYS[ty], vals))
  if ty == 'fd':
    return c['FrozenDict'](dict(zip(KEYS[ty], vals)))
  if ty == 'list':
    return list(vals)
  if ty == 'tuple':
    return tuple(vals)
  if ty == 'nt':
    return (c['NT1'] if len(vals) == 1 else c['NT2'])(*vals)
  if ty == 'dc':
    return c['DC1'](*vals) if len(vals) == 1 else c['DC2'](u=vals[0], v=vals[1], m='meta')
  if ty == 'ts':
    return c['TrainState'](step=step, apply_fn=c['apply_fn'], params=vals[0], tx=c['tx'],
                           opt_state=vals[1])
  raise KeyError(ty)


# ---------------------------------------------------------------------------
# generic walk over real objects


def node_children(obj):
  """(static, [(key, child)]) for a container, None for a leaf.  Keys are the
  state-dict keys (str)."""
  c = classes()
  if isinstance(obj, c['TrainState']):
    return (('apply_fn', id(obj.apply_fn), 'tx', id(obj.tx)),
            [('step', obj.step), ('params', obj.params), ('opt_state', obj.opt_state)])
  if isinstance(obj, c['DC1']):
    return ((), [('u', obj.u)])
  if isinstance(obj, c['DC2']):
    return (('m', obj.m), [('u', obj.u), ('v', obj.v)])
  if isinstance(obj, (dict, c['FrozenDict'])):
    return ((), [(k, obj[k]) for k in sorted(obj.keys())])
  if isinstance(obj, tuple) and hasattr(obj, '_fields'):
    return ((), [(f, getattr(obj, f)) for f in obj._fields])
  if isinstance(obj, (list, tuple)):
    return ((), [(str(i), v) for i, v in enumerate(obj)])
  return None


def flat(obj, path=(), out=None, elementwise=False):
  """{path: ('node', class, keys, static) | ('leaf', sig)}"""
  if out is None:
    out = {}
  nc = node_children(obj)
  if nc is None:
    out[path] = ('leaf', leaf_sig(obj, elementwise))
    return out
  static, kids = nc
  out[path] = ('node', type(obj), tuple(k for k, _ in kids), static)
  for k, v in kids:
    flat(v, path + (k,), out, elementwise)
  return out


def diff_flat(exp, got):
  """First few differences between two flat forms, [] when equal."""
  d = []
  for p in sorted(set(exp) | set(got)):
    e, g = exp.get(p), got.get(p)
    if e != g:
      d.append(('/'.join(p) or '<root>', _short(e), _short(g)))
      if len(d) >= 4:
        break
  return d


def _short(x):
  if x is None:
    return 'absent'
  if x[0] == 'node':
    return f'node {x[1].__name__} keys={list(x[2])} static={x[3]!r}'
  s = x[1]
  if s[0] == 'py':
    return f'{s[1]} {s[2][:60]}'
  return f'array {s[1]}({s[2]}) shape={s[3]} bytes={s[4][:24].hex()}'


def snapshot(obj):
  """Deep snapshot including object identity of mutable containers and of
  leaves, and leaf content."""
  nc = node_children(obj)
  if nc is None:
    if is_py_leaf(obj):
      return ('py', type(obj).__name__, repr(obj))
    a = np.asarray(obj)
    fl = a.flags if isinstance(obj, np.ndarray) else None
    return ('arr', id(obj), type(obj).__name__, a.dtype.name, a.shape, a.tobytes(),
            None if fl is None else (obj.strides, fl.writeable))
  static, kids = nc
  ident = id(obj) if isinstance(obj, (dict, list)) else None
  # insertion order of dicts is part of the snapshot
  order = tuple(obj.keys()) if isinstance(obj, dict) else None
  return (type(obj).__name__, ident, order, static, tuple((k, snapshot(v)) for k, v in kids))


def positions(spec, path=()):
  """[(path, spec)] of every container node."""
  if isinstance(spec, str):
    return []
  out = [(path, spec)]
  ks = KEYS[spec[0]]
  for k, c in zip(ks, spec[1]):
    out.extend(positions(c, path + (k,)))
  return out


def state_keys(spec):
  """Keys of the state dict of a node."""
  ty, kids = spec
  ks = list(KEYS[ty][:len(kids)])
  if ty == 'ts':
    ks = ['step'] + ks
  return ks


# ---------------------------------------------------------------------------
# (c) edits of a saved state dict


def copy_sd(sd):
  if isinstance(sd, dict):
    return {k: copy_sd(v) for k, v in sd.items()}
  return sd


def sd_at(sd, path):
  for p in path:
    sd = sd[p]
  return sd


SURPLUS_VALUE = np.array([77.0, 78.0], np.float32)


def edits(spec):
  """Single-point edits of the node's state dict.

  Yields (name, expectation, fn) where fn mutates the node's (private copy of
  the) state dict and expectation is
    'ValueError'          a mismatch class the property names
    'same'                restored tree equals the original
    ('swap', k0, k1)      restored tree is the original with the two
                          children exchanged (values follow names)
  """
  ty, kids = spec
  keys = state_keys(spec)
  out = []
  for k in keys:
    out.append((f'drop:{k}', 'ValueError', lambda s, k=k: s.pop(k)))
  if ty in ('dict', 'fd'):
    out.append(('surplus', 'same', lambda s: s.__setitem__('zz', SURPLUS_VALUE)))
  elif ty in ('list', 'tuple'):
    out.append(('longer', 'ValueError',
                lambda s, n=len(kids): s.__setitem__(str(n), SURPLUS_VALUE)))
  else:
    out.append(('surplus-field', 'ValueError', lambda s: s.__setitem__('zz', SURPLUS_VALUE)))
  if ty not in ('list', 'tuple'):
    for k in keys:
      def ren(s, k=k):
        # keep the position of the entry, change only its name
        items = [((kk + '_r') if kk == k else kk, v) for kk, v in s.items()]
        s.clear()
        s.update(items)
      out.append((f'rename:{k}', 'ValueError', ren))
  if len(keys) >= 2:
    def rev(s):
      items = list(s.items())[::-1]
      s.clear()
      s.update(items)
    out.append(('reorder', 'same', rev))
  if len(kids) == 2 and same_shape(kids[0], kids[1]):
    k0, k1 = KEYS[ty][0], KEYS[ty][1]

    def swap(s, k0=k0, k1=k1):
      s[k0], s[k1] = s[k1], s[k0]
    out.append(('swap', ('swap', k0, k1), swap))
  return out


def swapped_flat(fl, path, k0, k1):
  """Flat form of the tree with the children k0/k1 of `path` exchanged."""
  n = len(path)
  out = {}
  for p, v in fl.items():
    if p[:n] == path and len(p) > n and p[n] in (k0, k1):
      p = path + ((k1 if p[n] == k0 else k0),) + p[n + 1:]
    out[p] = v
  return out


def path_regex(root, path):
  """The components in order, separated by a few non-word characters."""
  comps = ([root] if root else []) + list(path)
  if not comps:
    return None
  return re.compile(r'(?<![A-Za-z0-9_])' + r'\W{1,4}'.join(re.escape(c) for c in comps)
                    + r'(?![A-Za-z0-9_])')
