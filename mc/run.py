"""CLI: python -m mc.run --property C07 --tier quick|thorough [--replay F]

exit 0: property held on everything explored (KNOWN-FINDING lines possible)
exit 1: at least one `VIOLATION property=<id> replay=<path>` line was printed
"""
import argparse
import importlib
import json
import os
import sys

sys.dont_write_bytecode = True
from mc.engine import core  # noqa: E402


def main(argv=None):
  ap = argparse.ArgumentParser()
  ap.add_argument('--property', '-p')
  ap.add_argument('--tier', default=os.environ.get('VERIF_TIER', 'quick'),
                  choices=['quick', 'thorough'])
  ap.add_argument('--replay')
  ap.add_argument('--workers', type=int)
  ap.add_argument('--budget', type=float, help='wall-clock cap in seconds')
  ap.add_argument('--unit', type=int, help='run only this unit index (debug)')
  ap.add_argument('--list-units', action='store_true')
  a = ap.parse_args(argv)
  seed = int(os.environ.get('VERIF_SEED', '0') or 0)

  if a.replay:
    with open(a.replay) as f:
      rec = json.load(f)
    core.bind_repo()
    os.environ['VERIF_SEED'] = str(rec.get('seed', 0))
    os.environ['VERIF_TIER'] = rec.get('tier', 'quick')
    mod = importlib.import_module(rec['module'])
    if hasattr(mod, 'setup_worker'):
      mod.setup_worker()
    core.assert_bound()
    print(f"replaying {rec['key']}: {rec['what']}"[:800])
    if hasattr(mod, 'replay'):
      bad = mod.replay(rec)
    else:
      res = mod.run_unit(rec['unit'])
      bad = [v for v in res['violations'] if v['key'] == rec['key']]
      for v in bad:
        print(json.dumps(v, indent=1, default=repr)[:4000])
    if bad:
      print(f"VIOLATION property={rec['property']} replay={a.replay}")
      return 1
    print('replay: no violation reproduced')
    return 0

  modname = f'mc.checks.{a.property.lower()}'
  if a.list_units:
    core.bind_repo()
    mod = importlib.import_module(modname)
    for i, u in enumerate(mod.units(a.tier, seed)):
      print(i, json.dumps(u, default=repr)[:300])
    return 0
  return core.run_check(modname, a.tier, seed, workers=a.workers, budget=a.budget,
                        only_unit=a.unit)


if __name__ == '__main__':
  sys.exit(main())
