"""Regenerates /verif/MANIFEST.json from the table below:  python -m mc.manifest"""
import json
import os

VERIF = os.path.dirname(os.path.dirname(os.path.abspath(__file__)))
PY = '/venv/bin/python'

BASELINE_OFF = ('cd /repo && env -u FLAX_VERIF /venv/bin/python -m pytest -ra -q -p no:cacheprovider '
                '--timeout=900 --continue-on-collection-errors')

# id -> (category, technique, text, note, design_ref)
CHECKS = {
  'C01': ('model_checking',
          'explicit-state BFS over apply histories of every DSL module program, on the '
          'implementation, vs a pure-Python reference interpreter',
          'Every legal module program of the DSL up to the tier size is initialised and then '
          'driven through every history of apply(mutable=f) calls up to the depth bound; each '
          'transition executes the real Module.init/apply and is compared with an independent '
          'reference interpreter (outputs, exactly which collections come back, which writes '
          'raise) plus input snapshots, determinism and aliasing checks. Exhaustive within the '
          'bounds, which is what a universally quantified purity contract needs and what example '
          'tests cannot give.',
          'Programs outside the DSL (interceptors, custom __post_init__) and data beyond small '
          'integers are not covered; leaf arrays are treated as immutable values.',
          '§4 C01'),
}

CHECKS['C04'] = ('model_checking',
  'explicit-state exploration of edit programs under nnx transforms vs eager execution',
  'Edit programs (value updates, added/removed attributes, static changes) are run under '
  'nnx.jit / nnx.remat on the real implementation and compared with eager execution on a fresh '
  'copy of the same graph: return value, graphdef and state.',
  'First version: two-step edit programs on one object; aliasing, control flow and call '
  'histories are added in later revisions.', '§4 C04')
CHECKS['C05'] = ('model_checking',
  'bounded enumeration of DSL programs with one lifted-transformed child vs the plain program',
  'DSL module programs with one child class wrapped in nn.jit / nn.remat / nn.checkpoint are '
  'run on the real implementation and compared with the untransformed program: output and '
  'variable tree (modulo the auto-generated name of the transformed class).',
  'First version: init only, three bodies; filters, histories and control-flow transforms are '
  'added in later revisions.', '§4 C05')

CHECKS['C14'] = ('exploration',
  'bounded-exhaustive enumeration of filter terms (small-scope, complete by name symmetry) '
  'against set semantics',
  'Linen: every filter term up to nesting depth 2 (quick) / 3 (thorough) over nine atoms closed '
  'under DenyList, every ordered pair under union/intersect/subtract, each result composed once '
  'more with every atom on both sides; membership is compared with or/and/and-not for every name '
  'of a universe that is complete by symmetry (a, b, c are the only names a term mentions, zz '
  'stands for all others), is_filter_empty with emptiness over that universe, filter_to_set, and '
  'group_collections with the first-match partition for every list of <= 3 terms and every subset '
  'of collections. NNX: every filter term up to depth 1 / 2 over type, tag, path, Any/All/Not, '
  '..., True/False/None, list/tuple against a set-semantics evaluator on 36 (path, Variable) '
  'items in both Variable and VariableState form; every tuple of <= 3 filters through '
  'split_state, State.split, filter_state, nnx.state and nnx.split on a module family must be '
  'the first-match partition, with the documented ValueErrors for `...` not last and for '
  'non-exhaustive splits.',
  'Terms deeper than the bound and names outside the symmetry argument are not enumerated; '
  'callable user predicates are not covered.', '§4 C14')

CHECKS['C20'] = ('model_checking',
  'stateless preemption-bounded schedule enumeration (DFS over choice sequences) of the real '
  'PrefetchIterator under a cooperative scheduler + bounded-exhaustive grids for the pure helpers',
  'PrefetchIterator runs on real OS threads that only move while holding the scheduler baton; '
  '`threading` inside flax.training.prefetch_iterator is replaced by a virtual namespace, and '
  'scheduling points sit at every lock/condition/thread operation and at every source line of '
  'that file (so unsynchronised stores are interleaved too). For every harness (source length, '
  'failing position, buffer_size, early close position) ALL schedules with at most 2 (quick) / 3 '
  '(thorough) preemptions are executed and the consumer-visible sequence is compared with the '
  'source sequence; deadlock, stuck producer and read-ahead are checked; every failing schedule is '
  'replayed twice before it is reported. The pure helpers (pad_shard_unpad under 1-4 simulated '
  'devices, scan_in_dim over all axis tuples, replicate/unreplicate/shard/stack_forest/onehot/'
  'get_metrics, prefetch_to_device over length x size x failing position) are compared with direct '
  'evaluation on complete small grids.',
  'Interleavings below source-line granularity and more than 3 preemptions are not explored; '
  'devices are simulated host devices; early close() is outside the statement and only order / '
  'each-once / error position are asserted there.', '§4 C20')

CHECKS['C11'] = ('fault_enumeration',
  'exhaustive crash-point enumeration over recorded file-system operations of every save '
  'history + preemption-bounded schedule enumeration of the AsyncManager worker',
  'Every history of save_checkpoint calls up to the tier length (steps x keep x '
  'keep_every_n_steps x overwrite x prefix, both back-ends, plus a family of negative / float / '
  'exponent steps) runs on the real code in a scratch directory. After each completed save the '
  'directory, available_steps, latest_checkpoint and restore_checkpoint(step) are compared with a '
  'reference model (set of committed steps + the retention policy in ten lines). The last save '
  'of each history runs under a recorder at the flax.io / os seam; EVERY post-crash state it can '
  'leave (before each operation, torn prefixes of the file being written, every prefix of each '
  'recursive delete) is materialised and checked: latest is a complete committed checkpoint and '
  'restores to its tree, promised checkpoints are still there, retrying the step and saving a '
  'later step succeed and re-establish the policy. AsyncManager saves are explored under the '
  'cooperative scheduler (all interleavings of the worker with the caller up to the preemption '
  'bound, a scheduling point at every file-system operation) and must leave the synchronous '
  'run\'s directory while a concurrent reader only ever sees complete checkpoints.',
  'Crash = process kill (no power-loss reordering); tensorstore writes inside Orbax\'s temporary '
  'directory are observed only at the os-level operations Orbax issues; local file system only. '
  'Two crash windows of the Orbax back-end under overwrite=True are genuine and listed in '
  'known_findings.json.', '§4 C11')

NOT_APPLICABLE = {}


def build():
  checks = []
  for pid in sorted(CHECKS):
    cat, tech, text, note, ref = CHECKS[pid]
    checks.append(dict(
      property_id=pid,
      quick_cmd=f'{PY} -m mc.run --property {pid} --tier quick',
      thorough_cmd=f'{PY} -m mc.run --property {pid} --tier thorough',
      evidence_file=f'/verif/evidence/{pid}.json',
      replay_cmd_template=f'{PY} -m mc.run --replay {{path}}',
      engine='mc',
      level_claimed=dict(category=cat, text=text, design_ref=ref),
      level_note=note,
      technique=tech,
    ))
  all_ids = [f'C{i:02d}' for i in range(1, 21)]
  na = []
  for pid in all_ids:
    if pid not in CHECKS:
      na.append(dict(property_id=pid, reason=NOT_APPLICABLE.get(
        pid, 'check not built yet in this revision (planned, see DESIGN.md §4); not claimed')))
  m = dict(
    version=1,
    setup_cmd=f'cd /verif && {PY} -m mc.selftest',
    hooks=dict(guard='FLAX_VERIF', enable='no source hooks are needed: all seams are reached '
               'from the harness by patching module attributes at run time (DESIGN §2)',
               baseline_off_cmd=BASELINE_OFF, source_commits=[], add_only=True),
    engines=[dict(name='mc', path='/verif/mc', serves_properties=sorted(CHECKS),
                  kind_free_text='hand-written bounded-exhaustive explorer for Python: '
                  'explicit-state BFS over operation histories, small-scope program/configuration '
                  'enumeration with differential oracles, crash-state enumeration over a '
                  'file-system seam, preemption-bounded thread-schedule DFS; runs the real flax '
                  'code from /repo in 16 spawned workers')],
    checks=checks,
    notes='All checks import flax from /repo (asserted at start-up) and rebuild nothing else. '
          'Genuine defects found are listed in /verif/known_findings.json.',
    not_applicable=na,
  )
  return m


if __name__ == '__main__':
  m = build()
  with open(os.path.join(VERIF, 'MANIFEST.json'), 'w') as f:
    json.dump(m, f, indent=1)
  print('wrote MANIFEST.json with', len(m['checks']), 'checks')
