"""Regenerates /verif/MANIFEST.json from the table below:  python -m mc.manifest"""
import json
import os

VERIF = os.path.dirname(os.path.dirname(os.path.abspath(__file__)))
PY = '/venv/bin/python'

BASELINE_OFF = ('cd /repo && env -u FLAX_VERIF /venv/bin/python -m pytest -ra -q -p no:cacheprovider '
                '--timeout=900 --continue-on-collection-errors')

# id -> (category, technique, text, note, design_ref)
CHECKS = {
  'C01': ('model_checking',
          'explicit-state BFS over apply histories of every DSL module program, on the '
          'implementation, vs a pure-Python reference interpreter',
          'Every legal module program of the DSL up to the tier size is initialised and then '
          'driven through every history of apply(mutable=f) calls up to the depth bound; each '
          'transition executes the real Module.init/apply and is compared with an independent '
          'reference interpreter (outputs, exactly which collections come back, which writes '
          'raise) plus input snapshots, determinism and aliasing checks. Exhaustive within the '
          'bounds, which is what a universally quantified purity contract needs and what example '
          'tests cannot give.',
          'Programs outside the DSL (interceptors, custom __post_init__) and data beyond small '
          'integers are not covered; leaf arrays are treated as immutable values.',
          '§4 C01'),
}

CHECKS['C04'] = ('model_checking',
  'bounded-exhaustive edit programs x aliased argument graphs x call histories on one shared '
  'transformed function, differential against eager execution with identity-labelled canonical '
  'graphs',
  'Every edit program up to length 2 (quick) / 3 (thorough) over an op alphabet covering value '
  'updates, static sets, added / deleted / re-bound attributes, new sub-objects, swaps and '
  'self-references is run under nnx.jit, nnx.remat and nnx.cached_partial(nnx.jit(f), obj) on every '
  'base argument graph (single, cyclic, disjoint, same object twice, shared sub-node, shared '
  'Variable, object plus its bare Variable), through every call history of up to 2 / 3 calls with '
  'between-call actions that force trace-cache hits and misses on one shared transformed function. '
  'After every call the return value, the canonical form of all argument graphs and its '
  'identity-labelled version (caller\'s own objects, new aliasing) are compared with the same body '
  'run eagerly on a fresh copy. Value-only programs are also run under nnx.cond (both predicates), '
  'switch (each index), while_loop and fori_loop (trip counts 0-3) against the selected branch / '
  'unrolled Python loop; structural programs there must raise or agree with eager; for '
  'cached_partial a net structure change of the cached node must raise ValueError.',
  'States are (canonical argument structure, set of structures the function has seen); every '
  'transition is a real transformed call. Data are integer float32 scalars; Variable metadata '
  'edits (observed: dropped by nnx.jit) and detached objects are out of scope.', '§4 C04')
CHECKS['C05'] = ('model_checking',
  'bounded-exhaustive enumeration of DSL programs with one lifted-transformed child vs the plain '
  'program + explicit-state search over call histories of one jitted class',
  'Every body up to the tier size x wrapper (auto / explicit name, called once or twice, pre / '
  'post statements) x transform (nn.jit, nn.remat, nn.checkpoint, identity nn.map_variables with '
  'three mapped filters, the decorator forms, nn.cond x both predicates, nn.switch x 3 indices, '
  'nn.while_loop x trip counts 0-3) is initialised and applied under a filter alphabet on the '
  'real implementation and compared with the same program with the transform removed (plain '
  'child, Python if / while): outputs, updated collections, init tree up to the transformed '
  'class\' auto name, error outcomes. Lifting filters (variables= / rngs=) must equal plain when '
  'everything the body touches is lifted and raise otherwise. The rng clause checks remat keys == '
  'plain keys, jit keys deterministic and pairwise distinct, and outer draws unchanged. Call '
  'histories (all sequences up to the tier length over 12 call kinds changing static attributes, '
  'variable structure, mutability and rng presence) on one jitted class object are explored as a '
  'state space; every call must equal the plain program, so a stale trace is a wrong result.',
  'Programs are those of the DSL; value clauses for non-remat transforms use bodies without rng '
  'inside the transformed part; cond/switch/while children are created before the control flow '
  'when initializing (documented restriction); carried while_loop collections are passed as '
  'mutable. One design-level finding (map_variables init pass runs the body twice) is listed in '
  'known_findings.json.', '§4 C05')
CHECKS['C14'] = ('exploration',
  'bounded-exhaustive enumeration of filter terms (small-scope, complete by name symmetry) '
  'against set semantics',
  'Linen: every filter term up to nesting depth 2 (quick) / 3 (thorough) over nine atoms closed '
  'under DenyList, every ordered pair under union/intersect/subtract, each result composed once '
  'more with every atom on both sides; membership is compared with or/and/and-not for every name '
  'of a universe that is complete by symmetry (a, b, c are the only names a term mentions, zz '
  'stands for all others), is_filter_empty with emptiness over that universe, filter_to_set, and '
  'group_collections with the first-match partition for every list of <= 3 terms and every subset '
  'of collections. NNX: every filter term up to depth 1 / 2 over type, tag, path, Any/All/Not, '
  '..., True/False/None, list/tuple against a set-semantics evaluator on 36 (path, Variable) '
  'items in both Variable and VariableState form; every tuple of <= 3 filters through '
  'split_state, State.split, filter_state, nnx.state and nnx.split on a module family must be '
  'the first-match partition, with the documented ValueErrors for `...` not last and for '
  'non-exhaustive splits.',
  'Terms deeper than the bound and names outside the symmetry argument are not enumerated; '
  'callable user predicates are not covered.', '§4 C14')

CHECKS['C20'] = ('model_checking',
  'stateless preemption-bounded schedule enumeration (DFS over choice sequences) of the real '
  'PrefetchIterator under a cooperative scheduler + bounded-exhaustive grids for the pure helpers',
  'PrefetchIterator runs on real OS threads that only move while holding the scheduler baton; '
  '`threading` inside flax.training.prefetch_iterator is replaced by a virtual namespace, and '
  'scheduling points sit at every lock/condition/thread operation and at every source line of '
  'that file (so unsynchronised stores are interleaved too). For every harness (source length, '
  'failing position, buffer_size, early close position) ALL schedules with at most 2 (quick) / 3 '
  '(thorough) preemptions are executed and the consumer-visible sequence is compared with the '
  'source sequence; deadlock, stuck producer and read-ahead are checked; every failing schedule is '
  'replayed twice before it is reported. The pure helpers (pad_shard_unpad under 1-4 simulated '
  'devices, scan_in_dim over all axis tuples, replicate/unreplicate/shard/stack_forest/onehot/'
  'get_metrics, prefetch_to_device over length x size x failing position) are compared with direct '
  'evaluation on complete small grids.',
  'Interleavings below source-line granularity and more than 3 preemptions are not explored; '
  'devices are simulated host devices; early close() is outside the statement and only order / '
  'each-once / error position are asserted there.', '§4 C20')

CHECKS['C11'] = ('fault_enumeration',
  'exhaustive crash-point enumeration over recorded file-system operations of every save '
  'history + preemption-bounded schedule enumeration of the AsyncManager worker',
  'Every history of save_checkpoint calls up to the tier length (steps x keep x '
  'keep_every_n_steps x overwrite x prefix, both back-ends, plus a family of negative / float / '
  'exponent steps) runs on the real code in a scratch directory. After each completed save the '
  'directory, available_steps, latest_checkpoint and restore_checkpoint(step) are compared with a '
  'reference model (set of committed steps + the retention policy in ten lines). The last save '
  'of each history runs under a recorder at the flax.io / os seam; EVERY post-crash state it can '
  'leave (before each operation, torn prefixes of the file being written, every prefix of each '
  'recursive delete) is materialised and checked: latest is a complete committed checkpoint and '
  'restores to its tree, promised checkpoints are still there, retrying the step and saving a '
  'later step succeed and re-establish the policy. AsyncManager saves are explored under the '
  'cooperative scheduler (all interleavings of the worker with the caller up to the preemption '
  'bound, a scheduling point at every file-system operation) and must leave the synchronous '
  'run\'s directory while a concurrent reader only ever sees complete checkpoints.',
  'Crash = process kill (no power-loss reordering); tensorstore writes inside Orbax\'s temporary '
  'directory are observed only at the os-level operations Orbax issues; local file system only. '
  'Two crash windows of the Orbax back-end under overwrite=True are genuine and listed in '
  'known_findings.json.', '§4 C11')

CHECKS['C02'] = ('exploration',
  'bounded-exhaustive enumeration of DSL module programs (legal and illegal namings) vs a '
  'pure-Python reference interpreter and differential oracles',
  'Every DSL module program up to the tier size (compact classes, setup class, auto and explicit '
  'names, children called twice, one instance shared by two parents) plus every flat program over '
  'a colliding naming alphabet (so all name clashes and their legal twins occur) runs through the '
  'real init / apply / bind / lazy_init: the init tree is compared with the reference '
  'interpreter; apply on init\'s variables must reproduce the output, draw the same keys and '
  'never create, drop or rename a variable; every parameter path is deleted / reshaped and the '
  'whole collection dropped under three mutable filters with an rng present (must raise the '
  'lookup / shape error, never re-initialise); every child is applied standalone on its subtree '
  'and via bind().child.unbind(); lazy_init, eval_shape(init) and jit(init) must give the same '
  'tree, shapes and dtypes (f32 and bf16 inputs).',
  'Programs are those of the DSL; where a shared instance stores its variables is compared '
  'between init / apply, not fixed; lazy_init is allowed to raise LazyInitError for programs '
  'that store data-dependent values (documented).', '§4 C02')
CHECKS['C06'] = ('exploration',
  'bounded-exhaustive enumeration of loop bodies x collection roles x axes x lengths vs a Python '
  'loop over the plain body on harness-sliced variables',
  'Five loop bodies (param, counter, accumulator, read-only state, rng) x every assignment of '
  'their collections to {axis 0, axis 1, broadcast, carry} (scan) or {axis 0, axis 1, None} (vmap) '
  'x length 1-3 x reverse x unroll x xs form {array on axis 0 / 1 / -1, dict with mixed axes, '
  'broadcast} x out axis {0, 1, -1} x check_constancy_invariants x split_rngs, init and apply, plus '
  'remat_scan with lengths (2,), (2,2), (1,3). The oracle is a Python loop over the plain body '
  'module applied to variables the harness slices along the declared axes (distinct values per '
  'iteration), passes whole (broadcast) or threads (carry); final carry, stacked outputs and every '
  'collection must be bitwise equal; per-iteration keys must be pairwise distinct for split '
  'streams and identical for unsplit ones.',
  'Integer-valued float32 data; carried collections are passed as mutable; writes to a broadcast '
  'collection inside the loop and broadcast initialisation under '
  'check_constancy_invariants=False are documented as unsupported and not asserted.', '§4 C06')
CHECKS['C07'] = ('exploration',
  'bounded-exhaustive configuration enumeration with the full Jacobian taken on the one-hot '
  'cotangent / tangent basis vs jax.vjp / jax.jvp / jax.grad of the pure apply function',
  'Inner modules over four feature flags (second parameter, constants collection, counter, nested '
  'child) x vjp_variables / variable_tangents x has_aux x 1-2 primals x array / dict primals for '
  'nn.vjp, nn.jvp, nn.grad, nn.value_and_grad and nn.custom_vjp. Because VJP and JVP are linear, '
  'feeding every one-hot cotangent / tangent decides the whole Jacobian: primal outputs, every '
  'cotangent block for selected collections and inputs, absence of unselected collections from '
  'the cotangent tree, single publication of forward-pass counter updates, and for custom_vjp '
  'bitwise forward value, user rule under jax.grad, rule not invoked without differentiation.',
  'Tolerance 1e-6 relative (same primitives, accumulation order may differ); small vector shapes; '
  'data from a fixed pool rotated by VERIF_SEED.', '§4 C07')
CHECKS['C10'] = ('exploration',
  'factored bounded-exhaustive enumeration (leaf dtype x shape x layout x class x chunk threshold; '
  'all container trees <= height 2 / spine height 3; all single-point state-dict edits) on the '
  'real flax.serialization with an element-wise bytes / structural-form oracle',
  'Exhaustive exploration of three factored finite spaces on the real implementation. (a) Every '
  'registered numeric dtype x 7 shapes (rank 0-3, empty) x every memory layout of the rank x '
  'numpy / jax / numpy-scalar x every chunk threshold of the tier, plus 27 Python leaves. (b) Every '
  'container tree of height <= 2 over dict / FrozenDict / list / tuple / namedtuple / '
  'struct.dataclass / TrainState with <= 2 children (plus a height-3 spine family in thorough). '
  '(c) Every single-point edit of the saved state at every container position, through both '
  'from_state_dict and from_bytes. Each case checks treedef, container classes, leaf dtype / shape '
  '/ row-major bytes (expected bytes computed element by element), independence of '
  'MAX_CHUNK_SIZE, non-modification of inputs, and ValueError naming the path for the named '
  'mismatch classes (surplus dict keys ignored, values restored by key).',
  'Height-3 is a spine sub-family; arrays <= 12 elements with thresholds scaled down via the '
  'MAX_CHUNK_SIZE module global; leaf class (jax -> numpy) is not compared; non-native-endian '
  'dtypes are outside the alphabet.', '§4 C10')

CHECKS['C09'] = ('model_checking',
  'bounded-exhaustive enumeration of Linen module trees with a relational key oracle + '
  'exhaustive exploration of operation histories on a real nnx.Rngs object',
  'Linen: every module tree over a name set that collides without the separator (ab/c vs a/bc), '
  'each node drawing keys from up to two streams and owning key-observing parameters, is '
  'initialised on the real implementation; every key handed to user code is observed and the '
  'oracle is purely relational: two runs agree; every permutation of sibling creation order, an '
  'extra unrelated sibling (first / last), an extra variable and an extra stream leave every other '
  'key unchanged; no key is handed out twice (with flax_fix_rng_separator for any two paths, '
  'without it for all pairs except the concatenation collisions the flag exists for); changing '
  'one stream seed changes exactly that stream; a missing stream yields the params stream\'s '
  'keys and raises without params. NNX: all histories up to the tier depth over {draw default / '
  's1 / s2 / missing, split_rngs + vmapped draws + restore, with-context, only= filter, reseed, '
  'split/merge} run on a real Rngs; invariants in every state: draw == fold_in(key, count) as '
  'documented, no key returned twice (a reseeded stream restarts its own sequence), the key '
  'consumed by a split is never replayed after restore, fallback advances the default stream, '
  'replay determinism.',
  'Derivations are never hard-coded for Linen; distinctness is on key data; lifted-transform '
  'rng clauses are decided in C05 / C06.', '§4 C09')

CHECKS['C16'] = ('exploration',
  'bounded-exhaustive enumeration of nested dict trees x flatten configurations and of State '
  'pairs x filter tuples on the real flax functions, against a recursive reference flatten / prune '
  'and a path-dictionary model of State set operations',
  'Every dict in the listed tree families (depth <= 3, <= 2 keys per level; all two-key shapes up '
  'to the complete 14-node tree, and all trees with <= 6 nodes over keys {a,b,c} (+ ints 0,1 for '
  'NNX) with int / array / None / empty-dict leaves), in every container (dict, FrozenDict, State), '
  'with every sep in {None, "/", "."}, keep_empty_nodes and five is_leaf predicates, is pushed '
  'through the real flatten_dict / unflatten_dict / path_aware_map and flatten_mapping / '
  'flatten_to_sequence / unflatten_mapping and compared key for key with an independent recursive '
  'reference (flatten, exact or pruned round trip, flatten∘unflatten = id, order independence, '
  'path_aware_map call log and structure). Every pair of States over 4- and 5-path universes (str '
  'and int keys, three value schemes, built directly and via nnx.state of a module) and every '
  'legal 1-3-tuple over 15 filters is pushed through to_flat_state / from_flat_state, '
  'to_pure_dict / replace_by_pure_dict, split / filter / merge_state, diff, | and - and compared '
  'with a {path: leaf} dictionary model.',
  'Quick covers trees with <= 8 (shape family) / <= 4 (rich family) nodes, two universes and '
  'filter tuples of length <= 2 (a defect that needs three filters is seen only by thorough); '
  'is_leaf true at the root, separators occurring in keys, prefix-conflicting flat dicts and int '
  'keys with a separator are outside the claim.', '§4 C16')

CHECKS['C03'] = ('model_checking',
  'bounded-exhaustive enumeration of NNX object graphs up to isomorphism (restricted-growth node '
  'numbering, ordered slot tuples) x explicit-state BFS over update / pop histories on the real '
  'implementation, with a plain-Python reference model and canonical-form (identity-partition) '
  'oracle',
  'Every object graph of the stated families is built for real and explored. The quick tier covers '
  'all 7,189 graphs with <= 2 Module nodes, <= 2 slots per node (or one two-entry list / tuple / '
  'dict) and <= 1 container per graph; the thorough tier additionally covers every 3-node plain '
  'topology, 3-slot nodes and a 3-node one-list slice. Slots are drawn from node references (self '
  'loops, back edges, diamonds), a 3-Variable pool (Param, BatchStat, tagged Param subclass), raw '
  'np / jax arrays and int / str / None statics. On each graph a BFS over histories of 4 update '
  'variants and 5 pop filter tuples executes in every state split+merge, split with every ordered '
  'filter tuple and merge under every permutation of the states, clone, state, graphdef and '
  'iter_graph on flax.nnx itself; each result and the graph afterwards are compared with a '
  'table-based reference model through a canonical form recording types, statics, Variable type / '
  'value / metadata and the identity partition.',
  'states = distinct canonical graphs reached per enumerated graph; transitions = nnx calls '
  'executed and compared; larger graphs, nested containers, non-Module roots and user pytrees are '
  'not decided; pop of a shared Variable follows the first-path reference; leaf arrays are '
  'treated as immutable values.', '§4 C03')
CHECKS['C12'] = ('exploration',
  'bounded-exhaustive hyper-parameter grid x full one-hot (input x kernel x bias) basis on the real '
  'Linen and NNX layers vs independent float64 NumPy direct-sum references; interval float32 '
  'enclosure for norms; clause-wise Dropout oracle on a fixed key pool',
  'For every configuration of the stated grids of 16 layer families the Linen and NNX layers are '
  'run on the real code and compared with NumPy references written from the docstrings. Conv, '
  'ConvLocal, ConvTranspose, Dense, DenseGeneral, Einsum, Embed.attend and avg-pool are evaluated '
  'on every pair of input and kernel one-hots plus the bias basis, so agreement is exact and '
  'decides the layer for all real inputs of those shapes and configurations. Norm layers agree '
  'within a derived float32 rounding enclosure on 6 data patterns; BatchNorm running statistics '
  'follow m*old + (1-m)*batch and stay bit-identical in inference; Dropout clauses hold on 8 keys; '
  'Linen and NNX outputs and state updates are bitwise equal; configurations the back-end rejects '
  'are pinned by an explicit predicate and must raise on both APIs.',
  'Real-valued behaviour of the non-linear layers is only claimed on the 6 patterns; spatial size '
  '<= 6, channels <= 3; the ConvTranspose CIRCULAR alignment convention is pinned from the source. '
  'One Linen/NNX disagreement (Embed.attend dtype) is listed in known_findings.json.', '§4 C12')
CHECKS['C19'] = ('exploration',
  'bounded-exhaustive configuration enumeration on the real Linen / legacy-partitioning / NNX '
  'code, one traced scan / vmap nest shared by the whole names alphabet, with a tuple-insertion '
  'reference and an un-annotated twin program as differential oracles; exhaustive ordered '
  'rule-list enumeration against a docstring-derived priority reference',
  'For every names tuple over {None,x,y,z} of rank 1-3 and every stacking position 0..rank at '
  'every level, the real nn.scan / nn.vmap, scan_with_axes / vmap_with_axes and nnx.scan / nnx.vmap '
  '(alone and nested, each level with its own partition name and axis size) run at init and at '
  'apply. After the transform, names must have one entry per dimension and equal the inner names '
  'with each level\'s partition name inserted at its position, outermost last; inside the body they '
  'must be the inner names again; values must equal the un-annotated program bitwise; '
  'get_partition_spec / get_axis_names must return exactly the names (PartitionSpec() for '
  'un-annotated arrays). logical_to_mesh_axes is compared with a reference priority algorithm on '
  'every names tuple of rank <= 3 over {a,b,c,None} and every ordered rule list of length <= 3 '
  '(quick) / 4 (thorough) over 12 rules, with the no-shared-mesh-axis invariant.',
  'Quick covers two-level nests for ranks 1-2 only; rank-3 two-level and three-level nests are '
  'thorough only. One CPU device, no mesh. Negative stacking axes are outside the enumerated '
  'domain (observed to misalign names; optional units behind C19_NEGATIVE_AXES=1).', '§4 C19')

CHECKS['C15'] = ('model_checking',
  'explicit-state BFS over operation histories on live objects (replay from history, canonical-form '
  'dedup) with a pure-Python contents model, identity-aliasing checks and scribble-after-return; '
  'bounded-exhaustive field layouts with a jit-cache reference model',
  'Model checking on the implementation itself. Source dicts: every one of depth <= 2 (thorough: '
  'plus depth 3 with <= 5 keys) over 6 leaf kinds, plus deep chains; four constructors. From each, '
  'every history of up to 3 (quick) / 4 (thorough) actions is explored, drawn from source mutations '
  'at every path, about 25 read APIs each followed by mutating everything returned, all mutators, '
  'and hash. In every state the FrozenDict contents, hash, repr, inner FrozenDicts and the source '
  'are compared with a plain-Python model; no returned dict may be a dict inside _dict; all '
  'insertion orders are compared for ==, hash and tree_flatten; pickle, deepcopy, flatten / '
  'unflatten, tree_map and state_dict round trips are checked. For struct, every layout of <= 3 '
  'fields (bare / field(True) / field(False) / user metadata, with and without defaults) x '
  'decorator, PyTreeNode, inherited and kw_only is explored over replace histories: frozen-ness, '
  'field identity, leaves = non-static fields in declaration order, treedef equality iff statics '
  'equal, trace count = number of distinct static tuples, class / statics preserved by tree_map, '
  'jit, vmap and grad.',
  'A state is (canonical source dict, FrozenDict contents, hash-cached bit); every transition '
  'executes real flax code; in-place edits of list leaves, writing private slots and the raw '
  'children handed to JAX by the pytree protocol are outside the statement.', '§4 C15')
CHECKS['C17'] = ('model_checking',
  'explicit-state exploration of gradient-step histories and metric update / reset histories on the '
  'real objects, differential against the hand-written optax loop (bitwise) and NumPy statistics',
  'Every gradient history up to length 3 (quick) / 4 (thorough) over a 3-element integer-valued '
  'gradient pool is executed on flax.training TrainState, nnx.Optimizer and nnx.TrainState for 8 '
  '(13) optax transformations x parameter trees x wrt filters x eager / jit, and after every call '
  'params, every opt_state leaf, step, Variables outside wrt, static attributes and the old '
  'functional instance are compared bitwise with the hand-written tx.update + apply_updates loop. '
  'For nnx metrics a breadth-first search over update / reset histories covers every stream of '
  'length <= 5 (6) over a 3-value pool, every composition into consecutive batches and a reset at '
  'every position, merging states only on a complete key; compute() is compared with the NumPy '
  'statistic after every transition (exact for Average / Accuracy, 1e-5 relative for Welford).',
  'Data are small integers in float32 from fixed pools; the jit oracle is the jitted hand loop; '
  'eager optax.MultiSteps histories are one step shorter; extra tx.update kwargs are not '
  'exercised.', '§4 C17')
CHECKS['C08'] = ('exploration',
  'bounded-exhaustive configuration enumeration on the real nnx.vmap / scan / grad / split_rngs with '
  'a differential oracle (independent first-match filter evaluator + per-index stack / Python loop '
  'on freshly built objects; jax.grad over a plain value dict)',
  'Every enumerated configuration runs on the real implementation: all Param x BatchStat x Count '
  'axis assignments over {0, 1, None[, Carry]} plus axis 2 / -1, five StateAxes encodings, all '
  'ordered pairs of 11 overlapping filters, in / out-axes prefix forms over args, dict, tuple and '
  'new-module outputs, length 1-3, reverse, two-module and two-array call forms, and seven aliasing '
  'structures over every axis pair; for grad argnums / DiffState over seven filters, has_aux, '
  'value_and_grad and four side-effect bodies; for rngs nine split_rngs only-patterns x three usage '
  'forms. Outputs, every Variable\'s final value and nnx.state of every argument are compared '
  'bitwise (gradients 1e-6) with the per-index stack, the Python loop, or jax.grad of the loss over '
  'plain values; None-axis disagreement and inconsistent aliasing must raise ValueError (the latter '
  'leaving state untouched); gradients contain exactly the selected variables; forward side effects '
  'are applied once; per-index keys are pairwise distinct, unsplit streams equal, nothing reused '
  'after restore.',
  'Quick multiplies out the primary dimensions and runs the secondary ones through by a '
  'mixed-radix counter (seed-independent), thorough multiplies them out; integer-valued data; '
  'writes to broadcast (None-axis) state inside nnx.scan are out of scope (observed: silently '
  'dropped).', '§4 C08')

CHECKS['C18'] = ('model_checking',
  'explicit-state BFS over call histories on the real bridge wrappers, with a plain-Linen shadow '
  'run (ToNNX side) and a directly constructed NNX twin (ToLinen side) as differential oracles',
  'For every member of a hand-written family (stateless, batch-stats plus a custom collection, '
  'dropout rng, Partitioned or sharded params, call-mutated static data, nesting depth 0-2, each '
  'also inside a parent of the other API), 3 input shapes, and every call history up to depth 3 '
  '(thorough: 4) over {train, eval, other / alt} x mutable filters x rng options, the real ToNNX '
  'wrapper is executed step by step on one live object and the real ToLinen wrapper on its '
  'variable dict, with states deduplicated on the canonical state held. Each transition is '
  'compared bitwise with an oracle that uses no bridge code (plain linen init / apply plus dict '
  'merge; an NNX module built by its constructor). At every state: collection <-> Variable-type '
  'placement, sharding names, the graphdef in the nnx collection, returned updates vs the oracle\'s '
  'post-state, round trips in both directions with inputs intact, and the name <-> type registry '
  'being a bijection on every name and type seen.',
  'The family and data pool are finite; bridge.Module / bridge.compact and meshes are outside the '
  'claim; nnx.Rngs / clone / reseed / merge and Linen make_rng are trusted (C03 / C09). One '
  'configuration (same name in two collections) is listed in known_findings.json.', '§4 C18')

CHECKS['C13'] = ('exploration',
  'bounded-exhaustive configuration / mask / length enumeration on the real Linen + NNX code with '
  'differential oracles (float64 NumPy reference, plain Python loop over the real cell, '
  'paired-input bitwise non-interference)',
  'For every enumerated case non-interference (masked, post-causal, unwritten cache slots, '
  'positions >= seq_length) must hold bitwise, stepwise must equal whole-sequence to 1e-6, weights '
  'must equal the float64 softmax over allowed keys to 1e-6, cells must match their documented '
  'recurrences to 1e-5, and Linen must match NNX on copied parameters. The space: attention heads x '
  'feature sizes x T in 1..4 x batch {(), (2,)} x bias x every boolean T x T mask for T <= 3 plus '
  'structured masks for T = 4; decode with every lower-triangular user mask for T <= 3; RNN: every '
  'cell x T x batch x every seq_lengths vector x reverse x keep_order x time_major x return_carry, '
  'plus Bidirectional. Perturbations are +-1e3 and the value of another position, one position at '
  'a time and all at once, plus +1e6 all at once.',
  'The quick tier is a documented fraction of this space (bounds.quick_restrictions), thorough the '
  'full grid; sweeps run under jax.jit with eager base cases; data values come from a fixed pool, so '
  'the claim is about structure, not all real inputs; fully masked rows and RNN outputs at '
  'positions >= seq_length are left open by the property.', '§4 C13')

NOT_APPLICABLE = {}


def build():
  checks = []
  for pid in sorted(CHECKS):
    cat, tech, text, note, ref = CHECKS[pid]
    checks.append(dict(
      property_id=pid,
      quick_cmd=f'{PY} -m mc.run --property {pid} --tier quick',
      thorough_cmd=f'{PY} -m mc.run --property {pid} --tier thorough --budget 1500',
      evidence_file=f'/verif/evidence/{pid}.json',
      replay_cmd_template=f'{PY} -m mc.run --replay {{path}}',
      engine='mc',
      level_claimed=dict(category=cat, text=text, design_ref=ref),
      level_note=note,
      technique=tech,
    ))
  all_ids = [f'C{i:02d}' for i in range(1, 21)]
  na = []
  for pid in all_ids:
    if pid not in CHECKS:
      na.append(dict(property_id=pid, reason=NOT_APPLICABLE.get(
        pid, 'check not built yet in this revision (planned, see DESIGN.md §4); not claimed')))
  m = dict(
    version=1,
    setup_cmd=f'cd /verif && {PY} -m mc.selftest',
    hooks=dict(guard='FLAX_VERIF', enable='no source hooks are needed: all seams are reached '
               'from the harness by patching module attributes at run time (DESIGN §2)',
               baseline_off_cmd=BASELINE_OFF, source_commits=[], add_only=True),
    engines=[dict(name='mc', path='/verif/mc', serves_properties=sorted(CHECKS),
                  kind_free_text='hand-written bounded-exhaustive explorer for Python: '
                  'explicit-state BFS over operation histories, small-scope program/configuration '
                  'enumeration with differential oracles, crash-state enumeration over a '
                  'file-system seam, preemption-bounded thread-schedule DFS; runs the real flax '
                  'code from /repo in 16 spawned workers')],
    checks=checks,
    notes='All checks import flax from /repo (asserted at start-up) and rebuild nothing else. '
          'Genuine defects found are listed in /verif/known_findings.json.',
    not_applicable=na,
  )
  return m


if __name__ == '__main__':
  m = build()
  with open(os.path.join(VERIF, 'MANIFEST.json'), 'w') as f:
    json.dump(m, f, indent=1)
  print('wrote MANIFEST.json with', len(m['checks']), 'checks')
