"""Regenerates /verif/MANIFEST.json from the table below:  python -m mc.manifest"""
import json
import os

VERIF = os.path.dirname(os.path.dirname(os.path.abspath(__file__)))
PY = '/venv/bin/python'

BASELINE_OFF = ('cd /repo && env -u FLAX_VERIF /venv/bin/python -m pytest -ra -q -p no:cacheprovider '
                '--timeout=900 --continue-on-collection-errors')

# id -> (category, technique, text, note, design_ref)
CHECKS = {
  'C01': ('model_checking',
          'explicit-state BFS over apply histories of every DSL module program, on the '
          'implementation, vs a pure-Python reference interpreter',
          'Every legal module program of the DSL up to the tier size is initialised and then '
          'driven through every history of apply(mutable=f) calls up to the depth bound; each '
          'transition executes the real Module.init/apply and is compared with an independent '
          'reference interpreter (outputs, exactly which collections come back, which writes '
          'raise) plus input snapshots, determinism and aliasing checks. Exhaustive within the '
          'bounds, which is what a universally quantified purity contract needs and what example '
          'tests cannot give.',
          'Programs outside the DSL (interceptors, custom __post_init__) and data beyond small '
          'integers are not covered; leaf arrays are treated as immutable values.',
          '§4 C01'),
}

CHECKS['C04'] = ('model_checking',
  'explicit-state exploration of edit programs under nnx transforms vs eager execution',
  'Edit programs (value updates, added/removed attributes, static changes) are run under '
  'nnx.jit / nnx.remat on the real implementation and compared with eager execution on a fresh '
  'copy of the same graph: return value, graphdef and state.',
  'First version: two-step edit programs on one object; aliasing, control flow and call '
  'histories are added in later revisions.', '§4 C04')
CHECKS['C05'] = ('model_checking',
  'bounded-exhaustive enumeration of DSL programs with one lifted-transformed child vs the plain '
  'program + explicit-state search over call histories of one jitted class',
  'Every body up to the tier size x wrapper (auto / explicit name, called once or twice, pre / '
  'post statements) x transform (nn.jit, nn.remat, nn.checkpoint, identity nn.map_variables with '
  'three mapped filters, the decorator forms, nn.cond x both predicates, nn.switch x 3 indices, '
  'nn.while_loop x trip counts 0-3) is initialised and applied under a filter alphabet on the '
  'real implementation and compared with the same program with the transform removed (plain '
  'child, Python if / while): outputs, updated collections, init tree up to the transformed '
  'class\' auto name, error outcomes. Lifting filters (variables= / rngs=) must equal plain when '
  'everything the body touches is lifted and raise otherwise. The rng clause checks remat keys == '
  'plain keys, jit keys deterministic and pairwise distinct, and outer draws unchanged. Call '
  'histories (all sequences up to the tier length over 12 call kinds changing static attributes, '
  'variable structure, mutability and rng presence) on one jitted class object are explored as a '
  'state space; every call must equal the plain program, so a stale trace is a wrong result.',
  'Programs are those of the DSL; value clauses for non-remat transforms use bodies without rng '
  'inside the transformed part; cond/switch/while children are created before the control flow '
  'when initializing (documented restriction); carried while_loop collections are passed as '
  'mutable. One design-level finding (map_variables init pass runs the body twice) is listed in '
  'known_findings.json.', '§4 C05')
CHECKS['C14'] = ('exploration',
  'bounded-exhaustive enumeration of filter terms (small-scope, complete by name symmetry) '
  'against set semantics',
  'Linen: every filter term up to nesting depth 2 (quick) / 3 (thorough) over nine atoms closed '
  'under DenyList, every ordered pair under union/intersect/subtract, each result composed once '
  'more with every atom on both sides; membership is compared with or/and/and-not for every name '
  'of a universe that is complete by symmetry (a, b, c are the only names a term mentions, zz '
  'stands for all others), is_filter_empty with emptiness over that universe, filter_to_set, and '
  'group_collections with the first-match partition for every list of <= 3 terms and every subset '
  'of collections. NNX: every filter term up to depth 1 / 2 over type, tag, path, Any/All/Not, '
  '..., True/False/None, list/tuple against a set-semantics evaluator on 36 (path, Variable) '
  'items in both Variable and VariableState form; every tuple of <= 3 filters through '
  'split_state, State.split, filter_state, nnx.state and nnx.split on a module family must be '
  'the first-match partition, with the documented ValueErrors for `...` not last and for '
  'non-exhaustive splits.',
  'Terms deeper than the bound and names outside the symmetry argument are not enumerated; '
  'callable user predicates are not covered.', '§4 C14')

CHECKS['C20'] = ('model_checking',
  'stateless preemption-bounded schedule enumeration (DFS over choice sequences) of the real '
  'PrefetchIterator under a cooperative scheduler + bounded-exhaustive grids for the pure helpers',
  'PrefetchIterator runs on real OS threads that only move while holding the scheduler baton; '
  '`threading` inside flax.training.prefetch_iterator is replaced by a virtual namespace, and '
  'scheduling points sit at every lock/condition/thread operation and at every source line of '
  'that file (so unsynchronised stores are interleaved too). For every harness (source length, '
  'failing position, buffer_size, early close position) ALL schedules with at most 2 (quick) / 3 '
  '(thorough) preemptions are executed and the consumer-visible sequence is compared with the '
  'source sequence; deadlock, stuck producer and read-ahead are checked; every failing schedule is '
  'replayed twice before it is reported. The pure helpers (pad_shard_unpad under 1-4 simulated '
  'devices, scan_in_dim over all axis tuples, replicate/unreplicate/shard/stack_forest/onehot/'
  'get_metrics, prefetch_to_device over length x size x failing position) are compared with direct '
  'evaluation on complete small grids.',
  'Interleavings below source-line granularity and more than 3 preemptions are not explored; '
  'devices are simulated host devices; early close() is outside the statement and only order / '
  'each-once / error position are asserted there.', '§4 C20')

CHECKS['C11'] = ('fault_enumeration',
  'exhaustive crash-point enumeration over recorded file-system operations of every save '
  'history + preemption-bounded schedule enumeration of the AsyncManager worker',
  'Every history of save_checkpoint calls up to the tier length (steps x keep x '
  'keep_every_n_steps x overwrite x prefix, both back-ends, plus a family of negative / float / '
  'exponent steps) runs on the real code in a scratch directory. After each completed save the '
  'directory, available_steps, latest_checkpoint and restore_checkpoint(step) are compared with a '
  'reference model (set of committed steps + the retention policy in ten lines). The last save '
  'of each history runs under a recorder at the flax.io / os seam; EVERY post-crash state it can '
  'leave (before each operation, torn prefixes of the file being written, every prefix of each '
  'recursive delete) is materialised and checked: latest is a complete committed checkpoint and '
  'restores to its tree, promised checkpoints are still there, retrying the step and saving a '
  'later step succeed and re-establish the policy. AsyncManager saves are explored under the '
  'cooperative scheduler (all interleavings of the worker with the caller up to the preemption '
  'bound, a scheduling point at every file-system operation) and must leave the synchronous '
  'run\'s directory while a concurrent reader only ever sees complete checkpoints.',
  'Crash = process kill (no power-loss reordering); tensorstore writes inside Orbax\'s temporary '
  'directory are observed only at the os-level operations Orbax issues; local file system only. '
  'Two crash windows of the Orbax back-end under overwrite=True are genuine and listed in '
  'known_findings.json.', '§4 C11')

CHECKS['C02'] = ('exploration',
  'bounded-exhaustive enumeration of DSL module programs (legal and illegal namings) vs a '
  'pure-Python reference interpreter and differential oracles',
  'Every DSL module program up to the tier size (compact classes, setup class, auto and explicit '
  'names, children called twice, one instance shared by two parents) plus every flat program over '
  'a colliding naming alphabet (so all name clashes and their legal twins occur) runs through the '
  'real init / apply / bind / lazy_init: the init tree is compared with the reference '
  'interpreter; apply on init\'s variables must reproduce the output, draw the same keys and '
  'never create, drop or rename a variable; every parameter path is deleted / reshaped and the '
  'whole collection dropped under three mutable filters with an rng present (must raise the '
  'lookup / shape error, never re-initialise); every child is applied standalone on its subtree '
  'and via bind().child.unbind(); lazy_init, eval_shape(init) and jit(init) must give the same '
  'tree, shapes and dtypes (f32 and bf16 inputs).',
  'Programs are those of the DSL; where a shared instance stores its variables is compared '
  'between init / apply, not fixed; lazy_init is allowed to raise LazyInitError for programs '
  'that store data-dependent values (documented).', '§4 C02')
CHECKS['C06'] = ('exploration',
  'bounded-exhaustive enumeration of loop bodies x collection roles x axes x lengths vs a Python '
  'loop over the plain body on harness-sliced variables',
  'Five loop bodies (param, counter, accumulator, read-only state, rng) x every assignment of '
  'their collections to {axis 0, axis 1, broadcast, carry} (scan) or {axis 0, axis 1, None} (vmap) '
  'x length 1-3 x reverse x unroll x xs form {array on axis 0 / 1 / -1, dict with mixed axes, '
  'broadcast} x out axis {0, 1, -1} x check_constancy_invariants x split_rngs, init and apply, plus '
  'remat_scan with lengths (2,), (2,2), (1,3). The oracle is a Python loop over the plain body '
  'module applied to variables the harness slices along the declared axes (distinct values per '
  'iteration), passes whole (broadcast) or threads (carry); final carry, stacked outputs and every '
  'collection must be bitwise equal; per-iteration keys must be pairwise distinct for split '
  'streams and identical for unsplit ones.',
  'Integer-valued float32 data; carried collections are passed as mutable; writes to a broadcast '
  'collection inside the loop and broadcast initialisation under '
  'check_constancy_invariants=False are documented as unsupported and not asserted.', '§4 C06')
CHECKS['C07'] = ('exploration',
  'bounded-exhaustive configuration enumeration with the full Jacobian taken on the one-hot '
  'cotangent / tangent basis vs jax.vjp / jax.jvp / jax.grad of the pure apply function',
  'Inner modules over four feature flags (second parameter, constants collection, counter, nested '
  'child) x vjp_variables / variable_tangents x has_aux x 1-2 primals x array / dict primals for '
  'nn.vjp, nn.jvp, nn.grad, nn.value_and_grad and nn.custom_vjp. Because VJP and JVP are linear, '
  'feeding every one-hot cotangent / tangent decides the whole Jacobian: primal outputs, every '
  'cotangent block for selected collections and inputs, absence of unselected collections from '
  'the cotangent tree, single publication of forward-pass counter updates, and for custom_vjp '
  'bitwise forward value, user rule under jax.grad, rule not invoked without differentiation.',
  'Tolerance 1e-6 relative (same primitives, accumulation order may differ); small vector shapes; '
  'data from a fixed pool rotated by VERIF_SEED.', '§4 C07')
CHECKS['C10'] = ('exploration',
  'factored bounded-exhaustive enumeration (leaf dtype x shape x layout x class x chunk threshold; '
  'all container trees <= height 2 / spine height 3; all single-point state-dict edits) on the '
  'real flax.serialization with an element-wise bytes / structural-form oracle',
  'Exhaustive exploration of three factored finite spaces on the real implementation. (a) Every '
  'registered numeric dtype x 7 shapes (rank 0-3, empty) x every memory layout of the rank x '
  'numpy / jax / numpy-scalar x every chunk threshold of the tier, plus 27 Python leaves. (b) Every '
  'container tree of height <= 2 over dict / FrozenDict / list / tuple / namedtuple / '
  'struct.dataclass / TrainState with <= 2 children (plus a height-3 spine family in thorough). '
  '(c) Every single-point edit of the saved state at every container position, through both '
  'from_state_dict and from_bytes. Each case checks treedef, container classes, leaf dtype / shape '
  '/ row-major bytes (expected bytes computed element by element), independence of '
  'MAX_CHUNK_SIZE, non-modification of inputs, and ValueError naming the path for the named '
  'mismatch classes (surplus dict keys ignored, values restored by key).',
  'Height-3 is a spine sub-family; arrays <= 12 elements with thresholds scaled down via the '
  'MAX_CHUNK_SIZE module global; leaf class (jax -> numpy) is not compared; non-native-endian '
  'dtypes are outside the alphabet.', '§4 C10')

CHECKS['C09'] = ('model_checking',
  'bounded-exhaustive enumeration of Linen module trees with a relational key oracle + '
  'exhaustive exploration of operation histories on a real nnx.Rngs object',
  'Linen: every module tree over a name set that collides without the separator (ab/c vs a/bc), '
  'each node drawing keys from up to two streams and owning key-observing parameters, is '
  'initialised on the real implementation; every key handed to user code is observed and the '
  'oracle is purely relational: two runs agree; every permutation of sibling creation order, an '
  'extra unrelated sibling (first / last), an extra variable and an extra stream leave every other '
  'key unchanged; no key is handed out twice (with flax_fix_rng_separator for any two paths, '
  'without it for all pairs except the concatenation collisions the flag exists for); changing '
  'one stream seed changes exactly that stream; a missing stream yields the params stream\'s '
  'keys and raises without params. NNX: all histories up to the tier depth over {draw default / '
  's1 / s2 / missing, split_rngs + vmapped draws + restore, with-context, only= filter, reseed, '
  'split/merge} run on a real Rngs; invariants in every state: draw == fold_in(key, count) as '
  'documented, no key returned twice (a reseeded stream restarts its own sequence), the key '
  'consumed by a split is never replayed after restore, fallback advances the default stream, '
  'replay determinism.',
  'Derivations are never hard-coded for Linen; distinctness is on key data; lifted-transform '
  'rng clauses are decided in C05 / C06.', '§4 C09')

CHECKS['C16'] = ('exploration',
  'bounded-exhaustive enumeration of nested dict trees x flatten configurations and of State '
  'pairs x filter tuples on the real flax functions, against a recursive reference flatten / prune '
  'and a path-dictionary model of State set operations',
  'Every dict in the listed tree families (depth <= 3, <= 2 keys per level; all two-key shapes up '
  'to the complete 14-node tree, and all trees with <= 6 nodes over keys {a,b,c} (+ ints 0,1 for '
  'NNX) with int / array / None / empty-dict leaves), in every container (dict, FrozenDict, State), '
  'with every sep in {None, "/", "."}, keep_empty_nodes and five is_leaf predicates, is pushed '
  'through the real flatten_dict / unflatten_dict / path_aware_map and flatten_mapping / '
  'flatten_to_sequence / unflatten_mapping and compared key for key with an independent recursive '
  'reference (flatten, exact or pruned round trip, flatten∘unflatten = id, order independence, '
  'path_aware_map call log and structure). Every pair of States over 4- and 5-path universes (str '
  'and int keys, three value schemes, built directly and via nnx.state of a module) and every '
  'legal 1-3-tuple over 15 filters is pushed through to_flat_state / from_flat_state, '
  'to_pure_dict / replace_by_pure_dict, split / filter / merge_state, diff, | and - and compared '
  'with a {path: leaf} dictionary model.',
  'Quick covers trees with <= 8 (shape family) / <= 4 (rich family) nodes, two universes and '
  'filter tuples of length <= 2 (a defect that needs three filters is seen only by thorough); '
  'is_leaf true at the root, separators occurring in keys, prefix-conflicting flat dicts and int '
  'keys with a separator are outside the claim.', '§4 C16')

NOT_APPLICABLE = {}


def build():
  checks = []
  for pid in sorted(CHECKS):
    cat, tech, text, note, ref = CHECKS[pid]
    checks.append(dict(
      property_id=pid,
      quick_cmd=f'{PY} -m mc.run --property {pid} --tier quick',
      thorough_cmd=f'{PY} -m mc.run --property {pid} --tier thorough',
      evidence_file=f'/verif/evidence/{pid}.json',
      replay_cmd_template=f'{PY} -m mc.run --replay {{path}}',
      engine='mc',
      level_claimed=dict(category=cat, text=text, design_ref=ref),
      level_note=note,
      technique=tech,
    ))
  all_ids = [f'C{i:02d}' for i in range(1, 21)]
  na = []
  for pid in all_ids:
    if pid not in CHECKS:
      na.append(dict(property_id=pid, reason=NOT_APPLICABLE.get(
        pid, 'check not built yet in this revision (planned, see DESIGN.md §4); not claimed')))
  m = dict(
    version=1,
    setup_cmd=f'cd /verif && {PY} -m mc.selftest',
    hooks=dict(guard='FLAX_VERIF', enable='no source hooks are needed: all seams are reached '
               'from the harness by patching module attributes at run time (DESIGN §2)',
               baseline_off_cmd=BASELINE_OFF, source_commits=[], add_only=True),
    engines=[dict(name='mc', path='/verif/mc', serves_properties=sorted(CHECKS),
                  kind_free_text='hand-written bounded-exhaustive explorer for Python: '
                  'explicit-state BFS over operation histories, small-scope program/configuration '
                  'enumeration with differential oracles, crash-state enumeration over a '
                  'file-system seam, preemption-bounded thread-schedule DFS; runs the real flax '
                  'code from /repo in 16 spawned workers')],
    checks=checks,
    notes='All checks import flax from /repo (asserted at start-up) and rebuild nothing else. '
          'Genuine defects found are listed in /verif/known_findings.json.',
    not_applicable=na,
  )
  return m


if __name__ == '__main__':
  m = build()
  with open(os.path.join(VERIF, 'MANIFEST.json'), 'w') as f:
    json.dump(m, f, indent=1)
  print('wrote MANIFEST.json with', len(m['checks']), 'checks')
