"""Cooperative thread scheduler + preemption-bounded stateless DFS.

Virtual `threading` namespace (Thread, Lock, RLock, Condition, Event) whose
threads are real OS threads that only run while holding the baton.  Scheduling
points: thread start / exit, lock acquire / release, wait / notify, join, and
every *line* event inside the traced source files (catches unsynchronised
accesses).  All nondeterminism is the choice sequence; replaying a prefix must
reproduce the same enabled sets (divergence is a hard error).
"""
from __future__ import annotations

import sys
import threading as _t
import types

RUNNABLE, BLOCKED, FINISHED, NEW = 'runnable', 'blocked', 'finished', 'new'


class Abort(BaseException):
  pass


class Deadlock(Exception):
  pass


class Divergence(Exception):
  pass


class HorizonExceeded(Exception):
  pass


class _VT:
  def __init__(self, tid, name):
    self.tid = tid
    self.name = name
    self.state = NEW
    self.can_run = None
    self.baton = _t.Semaphore(0)
    self.os_thread = None
    self.exc = None


class Point:
  __slots__ = ('enabled', 'chosen', 'running_enabled', 'kind')

  def __init__(self, enabled, chosen, running_enabled, kind):
    self.enabled = enabled
    self.chosen = chosen
    self.running_enabled = running_enabled
    self.kind = kind


class Scheduler:
  def __init__(self, prefix=(), expect=None, traced_files=(), horizon=5000):
    self.threads = [_VT(0, 'main')]
    self.threads[0].state = RUNNABLE
    self.current = 0
    self.prefix = list(prefix)
    self.expect = expect
    self.points = []
    self.aborted = False
    self.traced = tuple(traced_files)
    self.horizon = horizon
    self.deadlock = None
    self.deadlock_in_body = None
    self.main_done = False
    self.error = None
    self._local = _t.local()
    self._local.tid = 0

  # -- identity ------------------------------------------------------------
  def me(self):
    return self.threads[self._local.tid]

  # -- core switch ---------------------------------------------------------
  def _enabled(self):
    cur = self.current
    out = []
    for t in self.threads:
      if t.state == RUNNABLE or (t.state == BLOCKED and t.can_run()):
        out.append(t.tid)
    if cur in out:
      out.remove(cur)
      out.insert(0, cur)
    return out

  def point(self, kind='sync'):
    """A scheduling point of the running thread."""
    if self.aborted:
      raise Abort()
    me = self.me()
    assert me.tid == self.current, (me.tid, self.current)
    enabled = self._enabled()
    if not enabled:
      self.deadlock = [(t.tid, t.name, t.state) for t in self.threads]
      self._abort_all()
      raise Abort()
    i = len(self.points)
    if i >= self.horizon:
      self.error = HorizonExceeded(f'more than {self.horizon} scheduling points')
      self._abort_all()
      raise Abort()
    if i < len(self.prefix):
      c = self.prefix[i]
      if self.expect is not None and i < len(self.expect) and self.expect[i] != tuple(enabled):
        self.error = Divergence(f'point {i}: enabled {enabled} != recorded {self.expect[i]}')
        self._abort_all()
        raise Abort()
      if c >= len(enabled):
        self.error = Divergence(f'point {i}: choice {c} out of range {enabled}')
        self._abort_all()
        raise Abort()
    else:
      c = 0
    running_enabled = bool(enabled) and enabled[0] == me.tid and \
        (me.state == RUNNABLE or (me.state == BLOCKED and me.can_run()))
    self.points.append(Point(tuple(enabled), c, running_enabled, kind))
    nxt = enabled[c]
    if nxt != me.tid:
      self.current = nxt
      self.threads[nxt].baton.release()
      me.baton.acquire()
      if self.aborted:
        raise Abort()
    if me.state == BLOCKED:
      me.state = RUNNABLE
      me.can_run = None

  def block(self, can_run, kind):
    """Block the running thread until can_run() holds (re-checked by callers)."""
    me = self.me()
    me.state = BLOCKED
    me.can_run = can_run
    self.point(kind)

  def _abort_all(self):
    self.aborted = True
    me = self.me()
    for t in self.threads:
      if t is not me:
        t.baton.release()

  # -- thread lifecycle ----------------------------------------------------
  def _tracer(self, frame, event, arg):
    if frame.f_code.co_filename.endswith(self.traced):
      return self._line_tracer
    return None

  def _line_tracer(self, frame, event, arg):
    if event == 'line' and not self.aborted:
      self.point('line')
    return self._line_tracer

  def spawn(self, target, args, kwargs, name):
    vt = _VT(len(self.threads), name)
    self.threads.append(vt)

    def boot():
      self._local.tid = vt.tid
      vt.baton.acquire()
      if self.aborted:
        vt.state = FINISHED
        return
      if self.traced:
        sys.settrace(self._tracer)
      try:
        target(*args, **kwargs)
      except Abort:
        pass
      except BaseException as e:  # noqa
        vt.exc = e
      finally:
        sys.settrace(None)
        vt.state = FINISHED
        if not self.aborted:
          self._exit_switch(vt)

    vt.os_thread = _t.Thread(target=boot, daemon=True)
    vt.os_thread.start()
    return vt

  def _exit_switch(self, vt):
    enabled = self._enabled()
    if not enabled:
      if any(t.state not in (FINISHED, NEW) for t in self.threads):
        self.deadlock = [(t.tid, t.name, t.state) for t in self.threads]
      self._abort_all_from_exit(vt)
      return
    i = len(self.points)
    if i < len(self.prefix):
      c = self.prefix[i]
      if c >= len(enabled) or (self.expect is not None and i < len(self.expect)
                               and self.expect[i] != tuple(enabled)):
        self.error = Divergence(f'point {i} (exit): {enabled}')
        self._abort_all_from_exit(vt)
        return
    else:
      c = 0
    self.points.append(Point(tuple(enabled), c, False, 'exit'))
    nxt = enabled[c]
    self.current = nxt
    self.threads[nxt].baton.release()

  def _abort_all_from_exit(self, vt):
    self.aborted = True
    for t in self.threads:
      if t is not vt:
        t.baton.release()

  # -- running a harness ---------------------------------------------------
  def run(self, body):
    """Runs body() as virtual thread 0; afterwards lets the other threads run
    until all are finished or blocked.  Returns body's result or raises."""
    self._local.tid = 0
    result = None
    exc = None
    if self.traced:
      sys.settrace(self._tracer)
    try:
      try:
        result = body()
      except Abort:
        pass
      except BaseException as e:  # noqa
        exc = e
    finally:
      sys.settrace(None)
    main = self.threads[0]
    self.main_done = not self.aborted
    self.deadlock_in_body = self.deadlock
    if not self.aborted:
      # main is done: let the others drain
      main.state = BLOCKED
      main.can_run = lambda: all(t.state in (FINISHED, NEW) for t in self.threads[1:])
      try:
        self.point('drain')
      except Abort:
        pass
    main.state = FINISHED
    self.stuck = [(t.tid, t.name) for t in self.threads[1:] if t.state not in (FINISHED, NEW)]
    # release every OS thread
    self.aborted = True
    for t in self.threads[1:]:
      t.baton.release()
    for t in self.threads[1:]:
      if t.os_thread is not None:
        t.os_thread.join(timeout=5)
    if self.error is not None:
      raise self.error
    if exc is not None:
      raise exc
    return result

  # -- virtual threading namespace ------------------------------------------
  def namespace(self):
    s = self

    class Lock:
      def __init__(self, reentrant=False):
        self.owner = None
        self.count = 0
        self.reentrant = reentrant

      def acquire(self, blocking=True, timeout=-1):
        me = s.me().tid
        if s.aborted:
          raise Abort()
        s.point('acquire')
        if self.reentrant and self.owner == me:
          self.count += 1
          return True
        while self.owner is not None:
          if not blocking:
            return False
          s.block(lambda: self.owner is None, 'lock-wait')
        self.owner = me
        self.count = 1
        return True

      def release(self):
        if s.aborted:
          self.owner, self.count = None, 0
          return
        me = s.me().tid
        if self.owner != me:
          raise RuntimeError('release of un-acquired lock')
        self.count -= 1
        if self.count == 0:
          self.owner = None
          s.point('release')

      def locked(self):
        return self.owner is not None

      __enter__ = acquire

      def __exit__(self, *a):
        self.release()

    class Condition:
      def __init__(self, lock=None):
        self._lock = lock or Lock(reentrant=True)
        self._waiters = []
        self.acquire = self._lock.acquire
        self.release = self._lock.release

      def __enter__(self):
        return self._lock.acquire()

      def __exit__(self, *a):
        self._lock.release()

      def wait(self, timeout=None):
        me = s.me().tid
        if self._lock.owner != me:
          raise RuntimeError('cannot wait on un-acquired lock')
        cell = [False]
        self._waiters.append(cell)
        saved = self._lock.count
        self._lock.owner, self._lock.count = None, 0
        s.block(lambda: cell[0], 'cond-wait')
        while self._lock.owner is not None:
          s.block(lambda: self._lock.owner is None, 'cond-reacquire')
        self._lock.owner, self._lock.count = me, saved
        return True

      def wait_for(self, predicate, timeout=None):
        r = predicate()
        while not r:
          self.wait()
          r = predicate()
        return r

      def notify(self, n=1):
        if self._lock.owner != s.me().tid:
          raise RuntimeError('cannot notify on un-acquired lock')
        for cell in self._waiters[:n]:
          cell[0] = True
        del self._waiters[:n]
        if not s.aborted:
          s.point('notify')

      def notify_all(self):
        self.notify(len(self._waiters))

    class Event:
      def __init__(self):
        self._flag = False

      def is_set(self):
        return self._flag

      def set(self):
        self._flag = True
        s.point('event-set')

      def clear(self):
        self._flag = False

      def wait(self, timeout=None):
        s.point('event-wait')
        while not self._flag:
          s.block(lambda: self._flag, 'event-wait')
        return True

    class Thread:
      def __init__(self, group=None, target=None, name=None, args=(), kwargs=None, daemon=None):
        self._target = target
        self._args = args
        self._kwargs = kwargs or {}
        self.name = name or 'thread'
        self.daemon = daemon
        self._vt = None

      def run(self):
        if self._target is not None:
          self._target(*self._args, **self._kwargs)

      def start(self):
        self._vt = s.spawn(self.run, (), {}, self.name)
        self._vt.state = RUNNABLE
        s.point('start')

      def join(self, timeout=None):
        s.point('join')
        while self._vt.state != FINISHED:
          s.block(lambda: self._vt.state == FINISHED, 'join-wait')

      def is_alive(self):
        return self._vt is not None and self._vt.state != FINISHED

    return types.SimpleNamespace(
      Thread=Thread, Lock=lambda: Lock(False), RLock=lambda: Lock(True),
      Condition=Condition, Event=Event, current_thread=lambda: s.me(),
      get_ident=lambda: s.me().tid)


# ---------------------------------------------------------------------------
# exploration


class Execution:
  def __init__(self, choices, points, result, exc, deadlock, stuck):
    self.choices = choices
    self.points = points
    self.result = result
    self.exc = exc
    self.deadlock = deadlock
    self.stuck = stuck

  def preemptions(self):
    return sum(1 for p in self.points if p.chosen != 0 and p.running_enabled)


def run_once(make_body, prefix, expect=None, traced_files=(), horizon=5000):
  """make_body(ns) -> body callable; ns is the virtual threading namespace."""
  s = Scheduler(prefix, expect, traced_files, horizon)
  ns = s.namespace()
  body = make_body(ns)
  exc = None
  result = None
  try:
    result = s.run(body)
  except (Divergence, HorizonExceeded):
    raise
  except BaseException as e:  # noqa
    exc = e
  choices = [p.chosen for p in s.points]
  return Execution(choices, s.points, result, exc, s.deadlock_in_body, getattr(s, 'stuck', []))


def explore(make_body, bound, check, traced_files=(), horizon=5000, max_execs=None):
  """Iterative-preemption-bounded DFS.  check(execution) is called for every
  complete execution.  Returns dict(executions, points, capped)."""
  stats = dict(executions=0, points=0, capped=False, max_preemptions=0)
  stack = [((), None)]
  while stack:
    prefix, expect = stack.pop()
    x = run_once(make_body, prefix, expect, traced_files, horizon)
    stats['executions'] += 1
    stats['points'] += len(x.points)
    stats['max_preemptions'] = max(stats['max_preemptions'], x.preemptions())
    check(x)
    if max_execs and stats['executions'] >= max_execs:
      stats['capped'] = True
      break
    pre = 0
    exp = [p.enabled for p in x.points]
    alts = []
    for i, p in enumerate(x.points):
      if i >= len(prefix):
        cost = pre + (1 if p.running_enabled else 0)
        if cost <= bound:
          for alt in range(1, len(p.enabled)):
            alts.append((tuple(x.choices[:i]) + (alt,), exp[:i + 1]))
      if p.chosen != 0 and p.running_enabled:
        pre += 1
    stack.extend(reversed(alts))
  return stats
