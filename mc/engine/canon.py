"""Canonical forms and deep snapshots."""
from __future__ import annotations

import hashlib

import numpy as np


def leaf_sig(x):
  """(kind, dtype, shape, bytes-hash) of a leaf; arrays by content."""
  if x is None or isinstance(x, (bool, int, float, complex, str, bytes)):
    return ('py', type(x).__name__, repr(x))
  try:
    import jax
    if isinstance(x, jax.Array) and jax.dtypes.issubdtype(x.dtype, jax.dtypes.prng_key):
      x = jax.random.key_data(x)
  except Exception:
    pass
  a = np.asarray(x)
  return ('arr', str(a.dtype), tuple(a.shape),
          hashlib.sha1(np.ascontiguousarray(a).tobytes()).hexdigest()[:16])


def is_mapping(x):
  from flax.core import FrozenDict
  return isinstance(x, (dict, FrozenDict))


def canon_tree(t, types=False):
  """Nested mappings / sequences -> nested tuples with sorted keys and leaf
  signatures.  With types=True container type names are included."""
  if is_mapping(t):
    items = tuple((k, canon_tree(t[k], types)) for k in sorted(t.keys(), key=repr))
    return (('map', type(t).__name__) if types else 'map', items)
  if isinstance(t, (list, tuple)):
    tag = type(t).__name__ if types else 'seq'
    return (tag, tuple(canon_tree(v, types) for v in t))
  return leaf_sig(t)


def flat_paths(t, prefix=()):
  """{path: leaf} for nested mappings (sequences are leaves' containers too)."""
  out = {}
  if is_mapping(t):
    for k in t.keys():
      out.update(flat_paths(t[k], prefix + (k,)))
    if not t.keys():
      out[prefix] = {}
  elif isinstance(t, (list, tuple)):
    for i, v in enumerate(t):
      out.update(flat_paths(v, prefix + (i,)))
    if not t:
      out[prefix] = ()
  else:
    out[prefix] = t
  return out


def container_ids(t, out=None):
  """ids of all mutable containers (dicts, lists) in a nested tree."""
  if out is None:
    out = set()
  if isinstance(t, dict):
    out.add(id(t))
    for v in t.values():
      container_ids(v, out)
  elif is_mapping(t):
    # FrozenDict: only its real storage (iteration would wrap nested dicts in
    # temporaries whose ids mean nothing)
    container_ids(t._dict, out)
  elif isinstance(t, (list, tuple)):
    if isinstance(t, list):
      out.add(id(t))
    for v in t:
      container_ids(v, out)
  return out


def tree_equal(a, b, types=False):
  return canon_tree(a, types) == canon_tree(b, types)


def np_tree(t):
  """Deep copy converting array leaves to numpy (for stores / JSON-free compare)."""
  if is_mapping(t):
    return {k: np_tree(v) for k, v in t.items()}
  if isinstance(t, tuple):
    return tuple(np_tree(v) for v in t)
  if isinstance(t, list):
    return [np_tree(v) for v in t]
  if t is None or isinstance(t, (bool, int, float, str)):
    return t
  return np.array(t)


def jsonable(t):
  if is_mapping(t):
    return {str(k): jsonable(v) for k, v in t.items()}
  if isinstance(t, (list, tuple)):
    return [jsonable(v) for v in t]
  if t is None or isinstance(t, (bool, int, float, str)):
    return t
  try:
    return np.asarray(t).tolist()
  except Exception:
    return repr(t)
