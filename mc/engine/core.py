"""Runner core: shards work units over spawned workers, aggregates results,
writes evidence / replay files, prints VIOLATION / KNOWN-FINDING lines.

A check module (mc/checks/cNN.py) provides

  PROPERTY   : 'C07'
  LEVEL      : evidence level ('exploration' | 'fault_enumeration' | 'model_checking')
  RULE       : str, how cases are enumerated and what counts as non-trivial
  ASSUMPTIONS: list[str]
  units(tier, seed) -> list[dict]     JSON-able work units, deterministic
  run_unit(unit)    -> dict           executed in a worker, see `new_result`
  NEEDS      : optional set of {'tf'} ... (informational)

A unit result is a dict made with `new_result()`:
  evals        executions of the implementation
  states       distinct canonical states (S/T checks), summed over units
  transitions  explored transitions (S/T checks)
  nontrivial   list of short hashes of distinct non-trivial cases
  outcomes     {outcome label: count}
  violations   [ {key, what, case, observed, expected} ]
  samples      list of written-out cases
  capped       True if a cap was hit inside the unit
"""
from __future__ import annotations

import hashlib
import importlib
import json
import multiprocessing as mp
import os
import sys
import time
import traceback

VERIF = os.path.dirname(os.path.dirname(os.path.dirname(os.path.abspath(__file__))))
REPO = os.environ.get('VERIF_REPO', '/repo')


def bind_repo():
  """Make `import flax` resolve to the working tree under test."""
  if sys.path[0] != REPO:
    sys.path.insert(0, REPO)
  os.environ.setdefault('JAX_PLATFORMS', 'cpu')
  os.environ.setdefault('PYTHONDONTWRITEBYTECODE', '1')
  os.environ.setdefault('TF_CPP_MIN_LOG_LEVEL', '3')
  os.environ.setdefault('OMP_NUM_THREADS', '1')
  os.environ.setdefault('OPENBLAS_NUM_THREADS', '1')
  flags = os.environ.get('XLA_FLAGS', '')
  if 'xla_cpu_multi_thread_eigen' not in flags:
    os.environ['XLA_FLAGS'] = (
      flags + ' --xla_cpu_multi_thread_eigen=false intra_op_parallelism_threads=1'
    ).strip()
  sys.dont_write_bytecode = True


def assert_bound():
  import flax
  f = os.path.realpath(flax.__file__)
  if not f.startswith(os.path.realpath(REPO) + os.sep):
    raise SystemExit(f'flax imported from {f}, expected under {REPO}')


def h(obj) -> str:
  """Short stable hash of a JSON-able object."""
  s = json.dumps(obj, sort_keys=True, default=repr)
  return hashlib.sha1(s.encode()).hexdigest()[:12]


def new_result():
  return dict(evals=0, states=0, transitions=0, nontrivial=[], outcomes={},
              violations=[], samples=[], capped=False, extra={})


def outcome(res, label, n=1):
  res['outcomes'][label] = res['outcomes'].get(label, 0) + n


def violation(res, key, what, case, observed=None, expected=None):
  res['violations'].append(dict(key=key, what=what, case=case,
                                observed=_j(observed), expected=_j(expected)))


def _j(x):
  try:
    json.dumps(x)
    return x
  except Exception:
    return repr(x)[:2000]


# --------------------------------------------------------------------------
# worker side

_CHECK = None


def _worker_init(modname, env):
  os.environ.update(env)
  bind_repo()
  global _CHECK
  _CHECK = importlib.import_module(modname)
  if hasattr(_CHECK, 'setup_worker'):
    _CHECK.setup_worker()
  assert_bound()


def _worker_run(arg):
  idx, unit = arg
  t0 = time.time()
  try:
    res = _CHECK.run_unit(unit)
  except BaseException as e:  # harness error: never a silent pass
    res = new_result()
    res['harness_error'] = ''.join(
      traceback.format_exception(type(e), e, e.__traceback__))[-4000:]
  res['unit_index'] = idx
  res['unit_wall'] = time.time() - t0
  return res


# --------------------------------------------------------------------------
# known findings


def load_known():
  p = os.path.join(VERIF, 'known_findings.json')
  if not os.path.exists(p):
    return []
  with open(p) as f:
    return json.load(f).get('findings', [])


def known_match(known, prop, key):
  """A `known` entry matches a violation key exactly (`id`) or by an fnmatch
  pattern (`id_glob`) that pins the clause, configuration and call site."""
  import fnmatch
  for k in known:
    if k.get('status') != 'known' or k.get('property') != prop:
      continue
    if k.get('id') == key:
      return k
    if k.get('id_glob') and fnmatch.fnmatchcase(key, k['id_glob']):
      return k
  return None


# --------------------------------------------------------------------------
# parent side


_STRIDE = [None, 0]


def run_check(modname, tier, seed, workers=None, budget=None, only_unit=None):
  bind_repo()
  os.environ['PYTHONHASHSEED'] = '0'
  os.environ['VERIF_SEED'] = str(seed)
  os.environ['VERIF_TIER'] = tier
  check = importlib.import_module(modname)
  prop = check.PROPERTY
  t0 = time.time()
  units = check.units(tier, seed)
  if only_unit is not None:
    units = [units[only_unit]]
  # development aid: VERIF_UNIT_STRIDE="k[:offset]" runs every k-th unit only (reported as a cap)
  stride = os.environ.get('VERIF_UNIT_STRIDE') if only_unit is None else None
  n_all_units = len(units)
  if stride:
    k, _, off = stride.partition(':')
    units = units[int(off or 0)::max(1, int(k))]
  _STRIDE[:] = [stride, n_all_units]
  n_units = len(units)
  workers = workers or int(os.environ.get('VERIF_WORKERS', '0')) or min(16, os.cpu_count() or 1)
  workers = max(1, min(workers, n_units))
  budget = budget or float(os.environ.get('VERIF_BUDGET_S', '0')) or None
  env = {k: os.environ[k] for k in
         ('PYTHONHASHSEED', 'VERIF_SEED', 'VERIF_TIER', 'JAX_PLATFORMS', 'XLA_FLAGS',
          'PYTHONDONTWRITEBYTECODE', 'TF_CPP_MIN_LOG_LEVEL', 'OMP_NUM_THREADS',
          'OPENBLAS_NUM_THREADS') if k in os.environ}
  if hasattr(check, 'WORKER_ENV'):
    env.update(check.WORKER_ENV)

  results = []
  timed_out = False
  ctx = mp.get_context('spawn')
  pool = ctx.Pool(workers, initializer=_worker_init, initargs=(modname, env),
                  maxtasksperchild=getattr(check, 'MAX_TASKS_PER_CHILD', None))
  try:
    it = pool.imap_unordered(_worker_run, list(enumerate(units)),
                             chunksize=getattr(check, 'CHUNK', 1))
    done = 0
    while done < n_units:
      try:
        if budget is not None:
          left = budget - (time.time() - t0)
          if left <= 0:
            raise mp.TimeoutError
          r = it.next(timeout=left)
        else:
          r = it.next()
      except mp.TimeoutError:
        timed_out = True
        break
      except StopIteration:
        break
      results.append(r)
      done += 1
  finally:
    pool.terminate()
    pool.join()

  results.sort(key=lambda r: r['unit_index'])
  return finish(check, tier, seed, units, results, timed_out, time.time() - t0)


def finish(check, tier, seed, units, results, timed_out, wall):
  prop = check.PROPERTY
  level = check.LEVEL
  known = load_known()
  evals = states = transitions = 0
  nontrivial = set()
  outcomes = {}
  samples = []
  viols = {}
  harness_errors = []
  stride, n_all_units = _STRIDE
  capped = timed_out or bool(stride)
  extra = {}
  for r in results:
    if 'harness_error' in r:
      harness_errors.append((r['unit_index'], r['harness_error']))
      continue
    evals += r['evals']
    states += r['states']
    transitions += r['transitions']
    nontrivial.update(r['nontrivial'])
    for k, v in r['outcomes'].items():
      outcomes[k] = outcomes.get(k, 0) + v
    if len(samples) < 6 and r['samples']:
      samples.append(r['samples'][0])
    capped = capped or r['capped']
    for k, v in r.get('extra', {}).items():
      if isinstance(v, (int, float)):
        extra[k] = extra.get(k, 0) + v
    for v in r['violations']:
      v = dict(v)
      v['unit'] = units[r['unit_index']] if len(units) > r['unit_index'] else None
      viols.setdefault(v['key'], v)

  lines = []
  n_viol = 0
  n_known = 0
  os.makedirs(os.path.join(VERIF, 'replays'), exist_ok=True)
  for key in sorted(viols):
    v = viols[key]
    k = known_match(known, prop, key)
    if k is not None:
      n_known += 1
      line = f"KNOWN-FINDING: property={prop} {k.get('what', key)}"
      if line not in lines:
        lines.append(line)
      continue
    n_viol += 1
    if n_viol <= 25:
      path = os.path.join(VERIF, 'replays', f'{prop}-{h(key)}.json')
      with open(path, 'w') as f:
        json.dump(dict(property=prop, tier=tier, seed=seed, module=check.__name__,
                       key=key, what=v['what'], unit=v['unit'], case=v['case'],
                       observed=v['observed'], expected=v['expected']), f, indent=1,
                  default=repr)
      lines.append(f'VIOLATION property={prop} replay={path}')
      lines.append(f'  # {key}: {v["what"]}'[:600])
  for idx, err in harness_errors[:5]:
    path = os.path.join(VERIF, 'replays', f'{prop}-harness-{idx}.json')
    with open(path, 'w') as f:
      json.dump(dict(property=prop, tier=tier, seed=seed, module=check.__name__,
                     key=f'harness-error-unit-{idx}', what=err,
                     unit=units[idx] if idx < len(units) else None), f, indent=1, default=repr)
    lines.append(f'VIOLATION property={prop} replay={path}')
    lines.append('  # harness error (treated as failure, never as a pass):\n' + err)

  exhaustive = (not capped) and (len(results) == len(units)) and not harness_errors
  cov = dict(
    evaluations=evals,
    distinct_nontrivial=len(nontrivial),
    rule=getattr(check, 'RULE', ''),
    samples=samples[:6],
    exhaustive=bool(exhaustive),
    units_total=len(units),
    units_completed=len(results),
    distinct_outcomes=len(outcomes),
    outcomes={k: outcomes[k] for k in sorted(outcomes)[:60]},
    bounds=getattr(check, 'bounds', lambda t: {})(tier),
    known_findings_reported=n_known,
  )
  cov.update(extra)
  if level == 'model_checking':
    cov.update(states=states, transitions=transitions,
               traces_validated_against_impl=transitions,
               explanation='exploration runs on the implementation itself: every '
               'transition is an execution of the real code compared with the '
               'reference model / differential oracle')
  if stride:
    cov['cap'] = f'unit stride {stride}: {len(results)} of {n_all_units} units run'
  if timed_out:
    cov['cap'] = f'wall-clock budget hit after {len(results)}/{len(units)} units'
  ev = dict(property_id=prop, tier=tier, seed=int(seed), level=level, coverage=cov,
            assumptions=list(getattr(check, 'ASSUMPTIONS', [])),
            wall_s=round(wall, 2), violations=n_viol + len(harness_errors))
  os.makedirs(os.path.join(VERIF, 'evidence'), exist_ok=True)
  evp = os.path.join(VERIF, 'evidence', f'{prop}.json')
  with open(evp, 'w') as f:
    json.dump(ev, f, indent=1, default=repr)
  for l in lines:
    print(l)
  status = 'FAIL' if (n_viol or harness_errors) else 'OK'
  print(f'[{prop} {tier}] {status} units={len(results)}/{len(units)} evals={evals} '
        f'states={states} transitions={transitions} nontrivial={len(nontrivial)} '
        f'outcomes={len(outcomes)} violations={n_viol} known={n_known} '
        f'exhaustive={exhaustive} wall={wall:.1f}s')
  return 1 if (n_viol or harness_errors) else 0
