"""File-system seam for crash-state enumeration.

`Recorder(root)` wraps the functions through which flax (flax.io.*) and Orbax
(os.* / shutil.rmtree) change a checkpoint directory, logs every operation that
touches `root`, and takes a snapshot of `root` *before* each one.  A killed
process leaves exactly "everything before op k, nothing after", i.e. that
snapshot.  For a file write the torn prefixes are added; for a recursive delete
every prefix of the removed entries (listing order).  Nothing is injected, no
process is forked.
"""
from __future__ import annotations

import os
import shutil


def snapshot(root):
  """{relpath: bytes | None (directory)} of everything under root."""
  out = {}
  for d, dirs, files in os.walk(root):
    rel = os.path.relpath(d, root)
    if rel != '.':
      out[rel] = None
    for f in files:
      p = os.path.join(d, f)
      with open(p, 'rb') as fh:
        out[os.path.normpath(os.path.join(rel, f))] = fh.read()
  return out


def materialize(snap, root):
  if os.path.exists(root):
    shutil.rmtree(root)
  os.makedirs(root)
  for rel in sorted(snap, key=lambda r: (r.count(os.sep), r)):
    p = os.path.join(root, rel)
    if snap[rel] is None:
      os.makedirs(p, exist_ok=True)
    else:
      os.makedirs(os.path.dirname(p), exist_ok=True)
      with open(p, 'wb') as fh:
        fh.write(snap[rel])


def top_names(snap):
  return sorted({r.split(os.sep)[0] for r in snap})


class _FileProxy:
  def __init__(self, rec, f, name):
    self._rec, self._f, self._name = rec, f, name

  def write(self, data):
    self._rec._log('write', self._name, len(data), data=bytes(data))
    return self._f.write(data)

  def __enter__(self):
    self._f.__enter__()
    return self

  def __exit__(self, *a):
    return self._f.__exit__(*a)

  def __getattr__(self, n):
    return getattr(self._f, n)


class Recorder:
  def __init__(self, root, on_op=None):
    self.root = os.path.realpath(root)
    self.ops = []          # dict(kind, args, before=snapshot, data?)
    self._saved = []
    self.on_op = on_op     # optional callback (scheduling point for async checks)
    self.enabled = True

  def _inside(self, p):
    try:
      p = os.fspath(p)
    except TypeError:
      return False
    if isinstance(p, bytes):
      return False
    return os.path.realpath(p).startswith(self.root)

  def _log(self, kind, *args, data=None):
    if not self.enabled:
      return
    if self.on_op is not None:
      self.on_op(kind, args)
    rel = [os.path.relpath(os.path.realpath(a), self.root) if isinstance(a, (str, os.PathLike))
           and self._inside(a) else a for a in args]
    self.ops.append(dict(kind=kind, args=rel, before=snapshot(self.root), data=data))

  def _wrap(self, mod, name, kind, path_args=(0,)):
    orig = getattr(mod, name)
    rec = self

    def w(*a, **k):
      if rec.enabled and any(i < len(a) and rec._inside(a[i]) for i in path_args):
        rec._log(kind, *[a[i] for i in path_args if i < len(a)])
      return orig(*a, **k)
    self._saved.append((mod, name, orig))
    setattr(mod, name, w)

  def install(self, orbax=False):
    from flax import io as fio
    rec = self
    orig_gfile = fio.GFile

    def gfile(name, mode):
      f = orig_gfile(name, mode)
      if rec.enabled and rec._inside(name) and ('w' in mode or 'a' in mode):
        rec._log('open-w', name)
        return _FileProxy(rec, f, name)
      return f
    self._saved.append((fio, 'GFile', orig_gfile))
    fio.GFile = gfile
    self._wrap(fio, 'rename', 'rename', (0, 1))
    self._wrap(fio, 'remove', 'remove')
    self._wrap(fio, 'rmtree', 'rmtree')
    self._wrap(fio, 'makedirs', 'makedirs')
    if orbax:
      self._wrap(os, 'rename', 'rename', (0, 1))
      self._wrap(os, 'replace', 'rename', (0, 1))
      self._wrap(os, 'mkdir', 'mkdir')
      self._wrap(os, 'makedirs', 'makedirs')
      self._wrap(os, 'remove', 'remove')
      self._wrap(os, 'unlink', 'remove')
      self._wrap(os, 'rmdir', 'rmdir')
      self._wrap(shutil, 'rmtree', 'rmtree')
    return self

  def uninstall(self):
    for mod, name, orig in reversed(self._saved):
      setattr(mod, name, orig)
    self._saved = []

  # ------------------------------------------------------------------
  def crash_states(self, final_snapshot, torn=True, partial_delete=True):
    """[(label, snapshot)] of every post-crash state of the recorded operations."""
    out = []
    for k, op in enumerate(self.ops):
      out.append((f'before-op{k}:{op["kind"]}:{op["args"]}', op['before']))
      if torn and op['kind'] == 'write' and op['data'] is not None:
        n = len(op['data'])
        rel = op['args'][0]
        for ln in sorted({0, 1, n // 2, n - 1}):
          if 0 <= ln < n:
            s = dict(op['before'])
            s[rel] = op['data'][:ln]
            out.append((f'torn-op{k}:{rel}:{ln}/{n}', s))
      if partial_delete and op['kind'] == 'rmtree':
        rel = op['args'][0]
        entries = [r for r in op['before'] if r == rel or r.startswith(rel + os.sep)]
        # deletion order: children (deepest first) in listing order, then the dir itself
        entries.sort(key=lambda r: (-r.count(os.sep), r))
        for j in range(1, len(entries)):
          s = dict(op['before'])
          for r in entries[:j]:
            del s[r]
          out.append((f'partial-rmtree-op{k}:{rel}:{j}/{len(entries)}', s))
    out.append(('completed', final_snapshot))
    return out
