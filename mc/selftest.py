"""setup_cmd: verifies offline that the framework imports, that flax resolves
to /repo and that the tools the checks need are present. Builds nothing."""
import sys
from mc.engine import core


def main():
  core.bind_repo()
  import jax  # noqa
  import flax  # noqa
  core.assert_bound()
  import numpy, msgpack, optax  # noqa
  print('selftest ok: flax', flax.__version__, 'from', flax.__file__, 'jax', jax.__version__)
  return 0


if __name__ == '__main__':
  sys.exit(main())
