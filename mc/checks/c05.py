"""C05 — lifted jit / remat / checkpoint / cond / switch / while_loop / identity
map_variables act like the plain code (DESIGN §4 C05).

Differential oracle: the same DSL program with the transform removed (plain
child / Python `if` / Python `while`), executed by the same flax tree.
Families
  A  value clause, class form: every body x wrapper x transform, init + apply under
     a filter alphabet (trees compared up to the transformed class' auto name)
  B  lifting filters (variables= / rngs=): equal to plain when everything the body
     touches is lifted, otherwise must raise
  C  decorator (method) form
  D  cond / switch / while_loop vs Python control flow
  R  rng clause: remat keys == plain keys; jit keys deterministic, distinct, and
     draws after the jitted call unchanged
  H  jit call histories (state-space search over the trace cache): after any
     sequence of calls with changed attributes / variable structure /
     mutability / rng presence every call still equals the plain program
"""
from __future__ import annotations

import itertools
import os

import numpy as np

from mc.engine import core
from mc.engine.canon import canon_tree, np_tree, jsonable
from mc.models import dsl

PROPERTY = 'C05'
LEVEL = 'model_checking'
RULE = ('DSL programs with one designated child wrapped in a lifted transform, all bodies up to '
        'the tier size x wrappers (auto/explicit name, called 1-2x, pre/post statements) x '
        'transforms (jit, remat, checkpoint, identity map_variables with 3 mapped filters, '
        'decorator forms, cond x 2 predicates, switch x 3 indices, while_loop x trip counts 0-3) x '
        'lifting filters x outer mutable filters, init and apply; plus BFS over call histories of '
        'one jitted class (states = canonical (variables, last call kind); transitions = calls '
        'compared with the plain program); plus every ordered pair of 16 module field values '
        '(hash- and ==-colliding ones included) on one jit / remat transformed class, second call '
        'vs the plain module; while_loop with writes in the predicate / body x role of the '
        'collection x trips x mutability: performed as in the Python loop or refused, never dropped. '
        'Non-trivial: body has a mutable variable or the '
        'history contains a change of attribute / structure / mutability; distinct by case text')
ASSUMPTIONS = [
  'value clauses for transforms other than remat use bodies that draw no rng inside the '
  'transformed part (the statement promises identical draws only for remat)',
  'cond / switch / while_loop children are created once before the control flow when '
  'initializing (documented: variables cannot be created in one branch only)',
  'map_variables(mutable=False) is exercised with read-only bodies plus an explicit forced write',
]

BODY_LEAVES = [('param', 'a', 's'), ('param', 'a', 'v'), ('var', 'stats', 'a', 'acc'),
               ('var', 'cnt', 'a', 'count'), ('var', 'cnt', 'b', 'force'), ('sow', 'aux', 'a')]
FILTERS = [False, True, 'cnt', ['stats', 'cnt'], {'deny': 'params'}, ['aux', 'cnt']]
MAPPED = ['params', ['params', 'stats'], True]


def bounds(tier):
  q = tier == 'quick'
  return dict(body_statements=2 if q else 3, history_len=2 if q else 3,
              filters=len(FILTERS), while_trips=[0, 1, 2, 3], switch_indices=[0, 1, 2],
              field_values=len(FIELD_VALUES))


def _bodies(tier, rng=False):
  n = 2 if tier == 'quick' else 3
  leaves = list(BODY_LEAVES)
  if rng:
    leaves.append(('rng', 'dropout'))
  ds = dsl.defs_upto(n, 1, leaves, variants=[('B', None, 1)])
  if tier == 'quick':
    ds = [d for d in ds if dsl.size(d) <= 2]
  return ds


WRAPS = [  # (name, times, pre, post)
  (None, 1, (), ()),
  ('c', 2, (), ()),
  (None, 2, (('param', 'b', 's'),), (('rng', 'dropout'),)),
  ('c', 1, (('child', 'B', (('var', 'cnt', 'a', 'count'),), None, 1),), (('param', 'b', 's'),)),
]


def _transforms_A():
  ts = ['jit@A', 'remat@A', 'checkpoint@A']
  for mp in MAPPED:
    ts.append(dsl.tcls('mapv', 'A', mapped=mp, init='auto', mutable=True))
  return ts


def units(tier, seed):
  us = []
  bodies = [dsl.tolist(b) for b in _bodies(tier)]
  step = 6
  for t in _transforms_A() + ['AJ', 'AR']:
    for i in range(0, len(bodies), step):
      us.append(dict(kind='A', t=t, bodies=bodies[i:i + step]))
  rb = [dsl.tolist(b) for b in _bodies(tier, rng=True)
        if dsl.has(b, lambda st: st[0] == 'rng')]
  for t in ('jit@A', 'remat@A', 'checkpoint@A', 'AJ', 'AR'):
    for i in range(0, len(rb), 8):
      us.append(dict(kind='R', t=t, bodies=rb[i:i + 8]))
  for t in ('jit', 'remat'):
    for v in ('params', ['params', 'stats'], {'deny': 'cnt'}):
      for r in (True, 'dropout', False):
        us.append(dict(kind='B', t=t, variables=v, rngs=r))
  small = [dsl.tolist(b) for b in _bodies('quick') if not dsl.has(b, lambda st: st[0] == 'child')]
  for i in range(0, len(small), 4):
    us.append(dict(kind='D', bodies=small[i:i + 4]))
  sb = [dsl.tolist(b) for b in _bodies('quick', rng=True) if dsl.size(b) <= 2]
  for i in range(0, len(sb), 10):
    us.append(dict(kind='S', bodies=sb[i:i + 10]))
  for mp in MAPPED:
    us.append(dict(kind='M', mapped=mp))
  L = bounds(tier)['history_len']
  for first in range(len(CALL_KINDS)):
    us.append(dict(kind='H', first=first, maxlen=L))
  for form in ('deco-jit', 'deco-remat', 'class-jit'):
    us.append(dict(kind='K', form=form))
  us.append(dict(kind='W'))
  return us


def run_unit(unit):
  res = core.new_result()
  {'A': _fam_A, 'R': _fam_R, 'B': _fam_B, 'D': _fam_D, 'M': _fam_M, 'H': _fam_H,
   'S': _fam_S, 'K': _fam_K, 'W': _fam_W}[unit['kind']](res, unit)
  return res


def _fam_W(res, unit):
  """nn.while_loop whose predicate and / or body write a counter: a write is either performed
  as in the Python loop or it raises — it is never accepted and dropped. Writes in {cond, body}
  x role of the collection {carry, broadcast, not lifted} x trips x outer mutability."""
  import jax
  import jax.numpy as jnp
  import flax.linen as nn
  from flax import errors

  def mk(wc, wb, trips, role, lifted):
    class Loop(nn.Module):
      @nn.compact
      def __call__(self, x):
        self.variable('cnt', 'c', lambda: jnp.zeros((), jnp.float32))

        def bump(m, by):
          m.put_variable('cnt', 'c', m.get_variable('cnt', 'c') + by)

        def cond_fn(m, c):
          if wc:
            bump(m, 1.0)
          return c['i'] < trips

        def body_fn(m, c):
          if wb:
            bump(m, 10.0)
          return {'i': c['i'] + 1, 'x': c['x'] * 2.0}

        c0 = {'i': jnp.int32(0), 'x': x}
        if lifted:
          kw = dict(carry_variables='cnt') if role == 'carry' else \
              dict(broadcast_variables='cnt') if role == 'broadcast' else \
              dict(carry_variables=False, broadcast_variables=False)
          c = nn.while_loop(cond_fn, body_fn, self, c0, **kw)
        else:
          c = c0
          while cond_fn(self, c):
            c = body_fn(self, c)
        return c['x']
    return Loop()

  x = jnp.asarray([1.0, 2.0], jnp.float32)
  v0 = {'cnt': {'c': jnp.zeros((), jnp.float32)}}
  for wc, wb, trips, role, mut in itertools.product(
      (False, True), (False, True), (0, 1, 2), ('carry', 'broadcast', 'none'), (True, False)):
    if role == 'carry' and not mut:
      continue      # a carried collection has to be mutable (jax cannot thread a constant carry)
    key = f'W|cond={wc}|body={wb}|trips={trips}|{role}|mutable={mut}'
    case = dict(write_in_cond=wc, write_in_body=wb, trips=trips, role=role, mutable=mut)
    res['evals'] += 2
    res['transitions'] += 1

    def run(lifted):
      try:
        out = mk(wc, wb, trips, role, lifted).apply(v0, x, mutable=['cnt'] if mut else False)
        y, upd = out if mut else (out, {})
        return ('ok', np.asarray(y).tolist(),
                float(upd['cnt']['c']) if 'cnt' in upd else None)
      except errors.ModifyScopeVariableError:
        return ('modify', None, None)
      except Exception as e:  # noqa
        return ('raises:' + type(e).__name__, None, None)
    plain, lifted = run(False), run(True)
    if lifted[0] == 'ok' and lifted != plain:
      core.violation(res, f'W-silent|{key}',
                     'while_loop returned, but not what the Python loop returns: a write made in '
                     'the predicate or the body was accepted and dropped (or applied differently)',
                     case, observed=jsonable(lifted), expected=jsonable(plain))
    elif lifted[0] != 'ok' and plain[0] == 'ok' and not (wc or wb):
      core.violation(res, f'W-raises|{key}', f'a loop that writes nothing raised {lifted[0]}', case)
    elif lifted[0].startswith('raises:') and plain[0] != lifted[0]:
      # a lifted loop may refuse a write (ModifyScopeVariableError) or a carry it cannot thread;
      # any other exception is reported for the read-only programs only (above)
      core.outcome(res, 'W:' + lifted[0])
    core.outcome(res, f'W:{lifted[0]}')
    res['nontrivial'].append(core.h(key))
  res['samples'].append(dict(kind='W'))


FIELD_VALUES = [0, 1, -1, -2, 2, 1.0, -1.0, 0.5, True, False, (-1,), (-2,), (1, 2), 'a', 'b', None]


def _fam_K(res, unit):
  """Module fields are part of what a lifted jit specialises on: every ordered pair of field
  values from FIELD_VALUES (values that compare or hash alike included: -1 / -2, 1 / 1.0 / True,
  0 / False) is run as M(k1) then M(k2) on one transformed class in one process, and both
  results are compared with the untransformed module."""
  import jax
  import jax.numpy as jnp
  import flax.linen as nn
  form = unit['form']

  def body(self, x):
    k = self.k
    w = self.param('w', lambda key: jnp.asarray([2.0, 3.0], jnp.float32))
    if isinstance(k, tuple):
      return x * w + float(sum(k)) * len(k)
    if isinstance(k, str):
      return x * w + float(ord(k))
    if k is None:
      return x * w - 7.0
    if isinstance(k, bool):
      return x * w + (11.0 if k else 13.0)
    if isinstance(k, float):
      return x * w * k + 0.25
    return x * w * k

  class Plain(nn.Module):
    k: object = 0

    @nn.compact
    def __call__(self, x):
      return body(self, x)

  if form == 'class-jit':
    T = nn.jit(Plain)
  else:
    deco = nn.jit if form == 'deco-jit' else nn.remat

    class T(nn.Module):
      k: object = 0

      @deco
      @nn.compact
      def __call__(self, x):
        return body(self, x)

  x = jnp.asarray([1.0, -2.0], jnp.float32)
  variables = Plain(k=0).init(jax.random.key(0), x)
  for i, k1 in enumerate(FIELD_VALUES):
    for j, k2 in enumerate(FIELD_VALUES):
      if i == j:
        continue
      res['evals'] += 2
      res['transitions'] += 1
      key = f'{form}|{k1!r}:{type(k1).__name__}|{k2!r}:{type(k2).__name__}'
      try:
        t1 = T(k=k1).apply(variables, x)
        t2 = T(k=k2).apply(variables, x)
      except Exception as e:  # noqa
        core.violation(res, f'K-raises|{key}', f'{type(e).__name__}: {e}'[:200],
                       dict(form=form, first=repr(k1), second=repr(k2)))
        continue
      p1 = Plain(k=k1).apply(variables, x)
      p2 = Plain(k=k2).apply(variables, x)
      if canon_tree(np.asarray(t1)) != canon_tree(np.asarray(p1)):
        core.violation(res, f'K-first|{key}', 'first call differs from the plain module',
                       dict(form=form, first=repr(k1), second=repr(k2)),
                       observed=jsonable(t1), expected=jsonable(p1))
      if canon_tree(np.asarray(t2)) != canon_tree(np.asarray(p2)):
        core.violation(res, f'K-stale|{key}',
                       'a module with a different field value returned what the previously traced '
                       'module computes (stale trace)',
                       dict(form=form, first=repr(k1), second=repr(k2)),
                       observed=jsonable(t2), expected=jsonable(p2))
      core.outcome(res, f'K:{form}:ok')
      res['nontrivial'].append(core.h(key))
  res['samples'].append(dict(kind='K', form=form, values=[repr(v) for v in FIELD_VALUES]))


_SJ = None


def _setup_classes():
  """setup-style parent whose jitted / rematted *method* uses a setup-defined submodule that
  is also used outside the method (the submodule's scope exists before the lifted call)."""
  global _SJ
  if _SJ is None:
    import flax.linen as nn

    def mk(deco):
      class P(nn.Module):
        d: tuple = ()

        def setup(self):
          self.sub = dsl.A(d=self.d)

        def inner(self, x):
          return self.sub(x)
        if deco is not None:
          inner = deco(inner)

        def __call__(self, x):
          o1 = self.inner(x)
          o2 = self.sub(o1['x'])
          o3 = self.inner(o2['x'])
          o4 = self.sub(o3['x'])
          return {'x': o4['x'], 'k': (tuple(o1['k']), tuple(o2['k']), tuple(o3['k']),
                                       tuple(o4['k']))}
      return P
    import flax.linen as nn
    _SJ = dict(plain=mk(None), jit=mk(nn.jit), remat=mk(nn.remat))
  return _SJ


def _fam_S(res, unit):
  import jax
  from flax.core import lift as _lift
  cls = _setup_classes()
  x, rngs = _X(), _rngs()
  for bl in unit['bodies']:
    body = dsl.fromlist(bl)
    has_rng = dsl.has(body, lambda st: st[0] == 'rng')
    for t in ('jit', 'remat'):
      key = f'S|{t}|{body!r}'
      case = dict(transform=t, body=bl)
      P, T = cls['plain'](d=body), cls[t](d=body)
      res['evals'] += 6
      res['transitions'] += 1
      oP, vP = P.init_with_output(rngs, x)
      jax.clear_caches()
      _lift._side_effect_cache.cache.clear()
      runs = []
      try:
        oT, vT = T.init_with_output(rngs, x)
        for i in range(3):
          if i == 2:
            jax.clear_caches()
          runs.append(T.apply(vT, x, rngs={'dropout': rngs['dropout']}, mutable=['cnt', 'stats']))
        aP = P.apply(vP, x, rngs={'dropout': rngs['dropout']}, mutable=['cnt', 'stats'])
      except Exception as e:  # noqa
        core.violation(res, f'S-raises|{key}', f'{type(e).__name__}: {str(e)[:200]}', case)
        continue
      for i in (1, 2):
        if canon_tree(np_tree(runs[i])) != canon_tree(np_tree(runs[0])):
          core.violation(res, f'S-nondet|{key}|{i}',
                         'repeated apply of a module with a lifted method gave a different '
                         f'result (run {i}: {"after clearing the jax caches" if i == 2 else "cached"})',
                         case)
      kT = [[tuple(np.asarray(k).tolist()) for k in grp] for grp in runs[0][0]['k']]
      kP = [[tuple(np.asarray(k).tolist()) for k in grp] for grp in aP[0]['k']]
      flat = [k for g in kT for k in g]
      if len(set(flat)) != len(flat):
        core.violation(res, f'S-reuse|{key}', 'a key was handed out twice within one apply', case,
                       observed=kT)
      if kT[1] != kP[1] or kT[3] != kP[3]:
        core.violation(res, f'S-outer|{key}',
                       'draws made by the submodule outside the lifted method differ from the '
                       'plain program (counters were not restored after the lifted call)', case,
                       observed=kT, expected=kP)
      if t == 'remat' and kT != kP:
        core.violation(res, f'S-remat-keys|{key}', 'keys under remat differ from plain', case)
      if not has_rng or t == 'remat':
        if canon_tree(np_tree((oT, vT))) != canon_tree(np_tree((oP, vP))):
          core.violation(res, f'S-init|{key}', 'init differs from the plain program', case)
        if canon_tree(np_tree(runs[0])) != canon_tree(np_tree(aP)):
          core.violation(res, f'S-apply|{key}', 'apply differs from the plain program', case)
      core.outcome(res, 'S:ok')
      res['nontrivial'].append(core.h(key))
      res['states'] += 1
  res['samples'].append(dict(family='S', body=unit['bodies'][0]))


# ----------------------------------------------------------------------------


def _kind(e):
  from mc.checks.c01 import _err_kind
  return _err_kind(e)


def _X():
  import jax.numpy as jnp
  seed = int(os.environ.get('VERIF_SEED', '0'))
  return jnp.asarray(np.array([1., 2.], np.float32) + (seed % 2))


def _rngs():
  import jax
  return {'params': jax.random.key(1), 'dropout': jax.random.key(2)}


def _run(fn):
  try:
    return ('ok', fn())
  except Exception as e:  # noqa
    return ('err', _kind(e), f'{type(e).__name__}: {str(e)[:200]}')


def _mapv_init_stateful(d):
  import json
  for st in d:
    if st[0] == 'child' and st[1].startswith('mapv['):
      kw = json.loads(st[1][len('mapv['):st[1].rindex(']@')])
      if kw.get('init') in ('auto', True):
        mapped = kw.get('mapped', 'params')
        if dsl.has(st[2], lambda b: (b[0] == 'sow' or (b[0] == 'var' and b[3] in
                                                        ('count', 'acc', 'force')))
                   and dsl.in_filter_ref(mapped, b[1])):
          return True
  return False


def _rename(tree, tkey, reverse=False):
  """Map auto names of the transformed class back to the plain class' auto names."""
  if '@' not in tkey and tkey not in ('AJ', 'AR'):
    return tree
  tname = dsl.CLS[tkey if '"init": "auto"' not in tkey
                  else tkey.replace('"init": "auto"', '"init": true')].__name__
  bname = dsl.CLS[{'AJ': 'A', 'AR': 'A'}.get(dsl.base_cls(tkey), dsl.base_cls(tkey))].__name__
  table = {dsl.autoname(tname, i): dsl.autoname(bname, i) for i in range(4)}
  if reverse:
    table = {v: k for k, v in table.items()}

  def go(t):
    if isinstance(t, dict):
      return {table.get(k, k): go(v) for k, v in t.items()}
    return t
  return go(tree)


def _compare(res, tag, case, key, T, P, tkey=None, rename_updates=True):
  """T / P are ('ok', value) | ('err', kind, text).  Values are (out, vars)."""
  if P[0] == 'err':
    if T[0] != 'err':
      core.violation(res, f'{tag}-should-raise|{key}',
                     f'plain program raises {P[1]} ({P[2]}), transformed program returned', case)
    elif T[1] != P[1]:
      core.violation(res, f'{tag}-error-kind|{key}',
                     f'plain program raises {P[1]}, transformed raises {T[1]} ({T[2]})', case)
    core.outcome(res, f'{tag}:raises-' + P[1])
    return False
  if T[0] == 'err':
    core.violation(res, f'{tag}-raises|{key}',
                   f'transformed program raised {T[2]} where the plain program succeeds', case)
    return False
  (oT, vT), (oP, vP) = T[1], P[1]
  if canon_tree(np_tree(oT)) != canon_tree(np_tree(oP)):
    core.violation(res, f'{tag}-out|{key}', 'output differs from the plain program', case,
                   observed=jsonable(oT), expected=jsonable(oP))
  if vT is not None or vP is not None:
    vTr = _rename(np_tree(vT), tkey) if tkey else np_tree(vT)
    if canon_tree(vTr) != canon_tree(np_tree(vP)):
      core.violation(res, f'{tag}-vars|{key}',
                     'variables / updated collections differ from the plain program', case,
                     observed=jsonable(vTr), expected=jsonable(vP))
  core.outcome(res, f'{tag}:equal')
  return True


def _init_apply(res, fam, tkey, dT, case_extra=None, filters=FILTERS, apply_rngs=True):
  """init + apply under every filter, transformed vs plain."""
  import jax
  dP = dsl.strip_transforms(dT)
  x = _X()
  rngs = _rngs()
  key = f'{dT!r}'
  case = dict(program=dsl.tolist(dT), plain=dsl.tolist(dP), **(case_extra or {}))
  mT, mP = dsl.make('A', dT), dsl.make('A', dP)
  res['evals'] += 2
  res['transitions'] += 1
  T = _run(lambda: mT.init_with_output(rngs, x))
  P = _run(lambda: mP.init_with_output(rngs, x))
  tag = f'{fam}-init'
  if _mapv_init_stateful(dT):
    # identified finding: map_variables(init=True) runs the body twice while initializing;
    # visible when the body updates a variable of a mapped collection
    tag = 'mapv-init-stateful'
  ok = _compare(res, tag, case, key, T, P, tkey)
  if P[0] != 'ok' or T[0] != 'ok':
    return
  # apply is compared from the same state on both sides (the plain init's variables, with
  # the transformed class' auto names), so that an init difference does not cascade
  vP = P[1][1]
  vT = _rename(np_tree(vP), tkey, reverse=True) if tkey else vP
  import jax.numpy as jnp
  vT = jax.tree.map(jnp.asarray, vT)
  ar = {'dropout': rngs['dropout']} if apply_rngs else None
  for f in filters:
    ff = dsl.to_flax_filter(f)
    res['evals'] += 2
    res['transitions'] += 1

    def ap(m, v):
      r = m.apply(v, x, rngs=ar, mutable=ff)
      return (r, None) if f is False else r
    _compare(res, f'{fam}-apply[{f!r}]', case, key, _run(lambda: ap(mT, vT)),
             _run(lambda: ap(mP, vP)), tkey)
  res['states'] += 1


def _wrap(t, body, w):
  name, times, pre, post = w
  return tuple(pre) + (('child', t, body, name, times),) + tuple(post)


def _fam_A(res, unit):
  t = unit['t']
  for bl in unit['bodies']:
    body = dsl.fromlist(bl)
    for w in WRAPS:
      dT = _wrap(t, body, w)
      _init_apply(res, 'A', t, dT)
      if dsl.has(body, lambda st: st[0] == 'var'):
        res['nontrivial'].append(core.h(['A', t, bl, w[0], w[1]]))
  res['samples'].append(dict(family='A', transform=t, body=unit['bodies'][0]))


def _fam_R(res, unit):
  """rng clause.  Explicit child names so that the logical position is the same
  in the transformed and the plain program."""
  import jax
  t = unit['t']
  x = _X()
  rngs = _rngs()
  for bl in unit['bodies']:
    body = dsl.fromlist(bl)
    for times in (1, 2):
      dT = (('rng', 'dropout'), ('child', t, body, 'c', times), ('rng', 'dropout'))
      dP = dsl.strip_transforms(dT)
      key = f'{t}|{body!r}|{times}'
      case = dict(transform=t, program=dsl.tolist(dT))
      res['evals'] += 3
      res['transitions'] += 1
      # start from cold caches so that the first run traces (cache miss) and the second
      # replays the cached trace (hit): the two must hand out the same keys
      from flax.core import lift as _lift
      jax.clear_caches()
      _lift._side_effect_cache.cache.clear()
      oT, vT = dsl.make('A', dT).init_with_output(rngs, x)
      oT2, _ = dsl.make('A', dT).init_with_output(rngs, x)
      oP, vP = dsl.make('A', dP).init_with_output(rngs, x)
      kT = [tuple(np.asarray(k).tolist()) for k in oT['k']]
      kT2 = [tuple(np.asarray(k).tolist()) for k in oT2['k']]
      kP = [tuple(np.asarray(k).tolist()) for k in oP['k']]
      if kT != kT2:
        core.violation(res, f'R-nondet|{key}', 'rng keys differ between two identical runs', case)
      if len(set(kT)) != len(kT):
        core.violation(res, f'R-reuse|{key}', 'a key was handed out twice within one run', case,
                       observed=kT)
      if len(kT) != len(kP):
        core.violation(res, f'R-count|{key}', 'number of draws differs from the plain program',
                       case)
        continue
      if kT[0] != kP[0] or kT[-1] != kP[-1]:
        core.violation(res, f'R-outer|{key}',
                       'draws before / after the transformed call differ from the plain program '
                       '(outer rng counters were not restored)', case, observed=kT, expected=kP)
      if t.startswith(('remat', 'checkpoint')) or t == 'AR':
        if kT != kP:
          core.violation(res, f'R-remat-keys|{key}',
                         'keys drawn under remat differ from the plain program', case,
                         observed=kT, expected=kP)
        if canon_tree(np_tree(oT)) != canon_tree(np_tree(oP)):
          core.violation(res, f'R-remat-out|{key}', 'remat output differs from plain', case)
      # apply: same clauses
      res['evals'] += 2
      aT = dsl.make('A', dT).apply(vT, x, rngs={'dropout': rngs['dropout']}, mutable=['cnt'])[0]
      aT2 = dsl.make('A', dT).apply(vT, x, rngs={'dropout': rngs['dropout']}, mutable=['cnt'])[0]
      if canon_tree(np_tree(aT)) != canon_tree(np_tree(aT2)):
        core.violation(res, f'R-apply-nondet|{key}', 'apply: a traced run and a cached run hand '
                       'out different keys', case)
      aP = dsl.make('A', dP).apply(vP, x, rngs={'dropout': rngs['dropout']}, mutable=['cnt'])[0]
      kaT = [tuple(np.asarray(k).tolist()) for k in aT['k']]
      kaP = [tuple(np.asarray(k).tolist()) for k in aP['k']]
      if len(set(kaT)) != len(kaT) or kaT[0] != kaP[0] or kaT[-1] != kaP[-1]:
        core.violation(res, f'R-apply|{key}', 'apply: key reuse or outer draws changed', case,
                       observed=kaT, expected=kaP)
      if (t.startswith(('remat', 'checkpoint')) or t == 'AR') and kaT != kaP:
        core.violation(res, f'R-apply-remat|{key}', 'apply: remat keys differ from plain', case)
      core.outcome(res, f'R:{"same" if kT == kP else "differ"}-inner-keys')
      res['nontrivial'].append(core.h(['R', t, bl, times]))
      res['states'] += 1
  res['samples'].append(dict(family='R', transform=t, body=unit['bodies'][0]))


def _uses(body):
  cols, streams = set(), set()

  def go(d):
    for st in d:
      if st[0] == 'param':
        cols.add('params')
      elif st[0] in ('var', 'sow'):
        cols.add(st[1])
      elif st[0] == 'perturb':
        cols.add('perturbations')
      elif st[0] == 'rng':
        streams.add(st[1])
      elif st[0] == 'child':
        go(st[2])
  go(body)
  return cols, streams


def _fam_B(res, unit):
  """variables= / rngs= lifting filters."""
  t = dsl.tcls(unit['t'], 'A', variables=unit['variables'], rngs=unit['rngs'])
  vf, rf = unit['variables'], unit['rngs']
  x = _X()
  rngs = _rngs()
  for body in _bodies('quick', rng=True):
    cols, streams = _uses(body)
    lifted_ok = all(dsl.in_filter_ref(vf, c) for c in cols)
    if dsl.has(body, lambda st: st[0] == 'sow' and not dsl.in_filter_ref(vf, st[1])):
      continue   # sow into a collection that is not lifted is a documented silent no-op
    for name in (None, 'c'):
      dT = (('param', 'b', 's'), ('child', t, body, name, 1), ('var', 'cnt', 'z', 'count'))
      dP = dsl.strip_transforms(dT)
      key = f'{t}|{body!r}|{name}'
      case = dict(transform=t, program=dsl.tolist(dT))
      need_init = set(streams) | ({'params'} if 'params' in cols else set())
      rng_ok_init = all(dsl.in_filter_ref(rf, s) for s in need_init)
      rng_ok_apply = all(dsl.in_filter_ref(rf, s) for s in streams)
      mT, mP = dsl.make('A', dT), dsl.make('A', dP)
      res['evals'] += 2
      res['transitions'] += 1
      T = _run(lambda: mT.init_with_output(rngs, x))
      P = _run(lambda: mP.init_with_output(rngs, x))
      if P[0] != 'ok':
        continue
      # keys are addressed by path: with an auto-generated name the transformed class sits
      # at another path, so inner draws are only comparable under an explicit name
      has_inner_rng = bool(streams)
      cmp_values = (not has_inner_rng) or (unit['t'] == 'remat' and name is not None)
      if lifted_ok and rng_ok_init:
        if T[0] != 'ok':
          core.violation(res, f'B-init-raises|{key}',
                         f'everything the body touches is lifted, but init raised {T[2]}', case)
          continue
        if cmp_values:
          _compare(res, 'B-init', case, key, T, P, t)
      else:
        if T[0] == 'ok':
          core.violation(res, f'B-init-silent|{key}',
                         'the body touches a collection / rng stream that is not lifted, yet '
                         'init returned (stale or invented data)', case)
        core.outcome(res, 'B:init-raises-not-lifted')
        continue
      vT, vP = T[1][1], P[1][1]
      for f in (False, ['cnt'], ['stats', 'cnt', 'aux']):
        ff = dsl.to_flax_filter(f)
        res['evals'] += 2
        res['transitions'] += 1

        def ap(m, v):
          r = m.apply(v, x, rngs={'dropout': rngs['dropout']}, mutable=ff)
          return (r, None) if f is False else r
        Ta, Pa = _run(lambda: ap(mT, vT)), _run(lambda: ap(mP, vP))
        if rng_ok_apply:
          if cmp_values:
            _compare(res, f'B-apply[{f!r}]', case, key, Ta, Pa, t)
          elif (Ta[0] == 'ok') != (Pa[0] == 'ok'):
            core.violation(res, f'B-apply-outcome|{key}|{f!r}',
                           f'transformed: {Ta[0]}, plain: {Pa[0]}', case)
        else:
          if Ta[0] == 'ok' and Pa[0] == 'ok':
            core.violation(res, f'B-apply-silent|{key}|{f!r}',
                           'the body draws from an rng stream that is not lifted, yet apply '
                           'returned', case)
      res['nontrivial'].append(core.h(['B', key]))
      res['states'] += 1
  res['samples'].append(dict(family='B', transform=t))


def _fam_D(res, unit):
  for bl in unit['bodies']:
    body = dsl.fromlist(bl)
    stmts = [('cond', True, True, 'A', body, 'c'), ('cond', True, False, 'A', body, 'c')]
    stmts += [('switch', True, i, 'A', body, 'c') for i in range(3)]
    cols = sorted(_uses(body)[0] - {'params'})
    if not dsl.has(body, lambda st: st[0] == 'sow'):
      # (sow grows a tuple: not a fixed carry structure, rejected by jax.lax.while_loop)
      for trips in range(4):
        stmts.append(('while', True, trips, 'A', body, 'c', tuple(cols)))
    for st in stmts:
      for pre, post in (((), ()), ((('param', 'b', 's'),), (('var', 'cnt', 'z', 'count'),))):
        dT = tuple(pre) + (st,) + tuple(post)
        fl = FILTERS
        if st[0] == 'while':
          # carried collections must be mutable (jax.lax.while_loop needs the carry
          # structure to be preserved): only filters that cover every carried collection
          fl = [f for f in (True, ['stats', 'cnt'], {'deny': 'params'})
                if all(dsl.in_filter_ref(f, c) for c in st[6])]
          if not st[6]:
            fl = FILTERS
        _init_apply(res, f'D-{st[0]}', None, dT, filters=fl)
        res['nontrivial'].append(core.h(['D', st[0], st[2], bl, bool(pre)]))
  res['samples'].append(dict(family='D', body=unit['bodies'][0]))


def _fam_M(res, unit):
  """identity map_variables with mutable=False: read-only bodies equal plain; a
  forced write to a mapped (immutable) collection raises; constant init flags."""
  mp = unit['mapped']
  ro_bodies = [(('param', 'a', 's'),), (('param', 'a', 'v'), ('var', 'stats', 'a', 'read')),
               (('var', 'stats', 'a', 'read'), ('var', 'cnt', 'a', 'count'))]
  for body in ro_bodies:
    for init in ('auto', True):
      t = dsl.tcls('mapv', 'A', mapped=mp, init=init, mutable=False)
      for w in WRAPS[:2]:
        dT = _wrap(t, body, w)
        mapped_cols = [c for c in ('params', 'stats', 'cnt') if dsl.in_filter_ref(mp, c)]
        writes_mapped = 'cnt' in mapped_cols and dsl.has(body, lambda st: st[0] == 'var'
                                                         and st[3] in ('count', 'acc', 'force'))
        if writes_mapped:
          continue
        if init is True:
          # constant init=True is only meaningful while initializing: compare init only
          _init_apply(res, 'M-const-init', t, dT, filters=[])
        else:
          _init_apply(res, 'M', t, dT)
        res['nontrivial'].append(core.h(['M', mp, body, init, w[0]]))
  # forced write into a mapped immutable collection must raise, plain code raises too
  # when the collection is immutable outside
  import jax
  x, rngs = _X(), _rngs()
  body = (('var', 'stats', 'a', 'force'),)
  if dsl.in_filter_ref(mp, 'stats'):
    t = dsl.tcls('mapv', 'A', mapped=mp, init='auto', mutable=False)
    dT = (('child', t, body, 'c', 1),)
    v = dsl.make('A', dsl.strip_transforms(dT)).init(rngs, x)
    res['evals'] += 1
    r = _run(lambda: dsl.make('A', dT).apply(v, x, mutable=['stats']))
    if r[0] == 'ok':
      core.violation(res, f'M-write-immutable|{mp!r}',
                     'a write inside map_variables(mutable=False) to a mapped collection took '
                     'effect instead of raising', dict(mapped=mp))
    core.outcome(res, 'M:forced-write-raises')
  res['samples'].append(dict(family='M', mapped=mp))


# ------------------------------------------------------------------ histories

H_BODIES = [
  (('param', 'a', 's'), ('var', 'cnt', 'a', 'count')),
  (('param', 'a', 's'), ('var', 'cnt', 'a', 'count'), ('param', 'b', 's')),   # structure change
  (('var', 'cnt', 'a', 'count'), ('param', 'a', 's')),                        # same vars, other code
]
CALL_KINDS = [(b, mut, rng) for b in range(len(H_BODIES)) for mut in (False, ['cnt'])
              for rng in (True, False)]


def _fam_H(res, unit):
  """BFS over call histories of ONE jitted class object (its trace cache persists
  across calls): every call must equal the plain program in the same state."""
  import jax
  x, rngs = _X(), _rngs()
  tk = 'jit@A'
  inits = {}
  for bi, body in enumerate(H_BODIES):
    dT = (('child', tk, body, 'c', 1),)
    vP = dsl.make('A', dsl.strip_transforms(dT)).init(rngs, x)
    inits[bi] = np_tree(vP)
  seen = set()
  frontier = [((unit['first'],), )]
  hist_list = []
  for L in range(1, unit['maxlen'] + 1):
    for rest in itertools.product(range(len(CALL_KINDS)), repeat=L - 1):
      hist_list.append((unit['first'],) + rest)
  for hist in hist_list:
    # state: variables per body (updated when mutable), threaded through the history
    state = {bi: inits[bi] for bi in inits}
    n0 = len(dsl.TRACES)
    for pos, ci in enumerate(hist):
      bi, mut, use_rng = CALL_KINDS[ci]
      body = H_BODIES[bi]
      dT = (('child', tk, body, 'c', 1),)
      dP = dsl.strip_transforms(dT)
      ar = {'dropout': rngs['dropout']} if use_rng else None
      v = jax.tree.map(np.asarray, state[bi])
      res['evals'] += 2
      res['transitions'] += 1
      t0 = len(dsl.TRACES)

      def ap(d):
        r = dsl.make('A', d).apply(v, x, rngs=ar, mutable=mut)
        return (r, None) if mut is False else r
      T = _run(lambda: ap(dT))
      traced = sum(1 for _, dd in dsl.TRACES[t0:] if dd == body)
      P = _run(lambda: ap(dP))
      key = f'H|{[CALL_KINDS[c] for c in hist[:pos + 1]]!r}'
      case = dict(history=[list(map(jsonable, CALL_KINDS[c])) for c in hist[:pos + 1]])
      _compare(res, 'H', case, key, T, P, None)
      core.outcome(res, 'H:cache-' + ('miss' if traced else 'hit'))
      if P[0] == 'ok' and mut is not False:
        new = dict(state[bi])
        new.update(np_tree(P[1][1]))
        state[bi] = new
      c = (canon_tree(state), ci)
      if c not in seen:
        seen.add(c)
        res['states'] += 1
    changes = len({CALL_KINDS[c][0] for c in hist}) > 1 or len({repr(CALL_KINDS[c][1])
                                                                 for c in hist}) > 1
    if changes:
      res['nontrivial'].append(core.h(['H', hist]))
  del dsl.TRACES[:]
  res['samples'].append(dict(family='H', history=[list(map(jsonable, CALL_KINDS[c]))
                                                  for c in hist_list[-1]]))
