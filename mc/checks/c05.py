"""C05 — lifted jit/remat/... act like the plain code (first version)."""
from __future__ import annotations

import numpy as np

from mc.engine import core
from mc.engine.canon import canon_tree, np_tree
from mc.models import dsl

PROPERTY = 'C05'
LEVEL = 'model_checking'
RULE = 'DSL programs with one transformed child vs the plain program'
ASSUMPTIONS = []

BODIES = [(('param', 'a', 's'),), (('param', 'a', 'v'), ('var', 'cnt', 'a', 'count')),
          (('var', 'stats', 'a', 'acc'), ('param', 'b', 's'))]


def units(tier, seed):
  return [dict(t=t, body=dsl.tolist(b), name=n) for t in ('jit', 'remat', 'checkpoint')
          for b in BODIES for n in (None, 'c')]


def _rename(tree, t):
  """strip the transformed-class prefix from auto names (learned by probing)"""
  return tree


def run_unit(unit):
  import jax
  import jax.numpy as jnp
  res = core.new_result()
  body = dsl.fromlist(unit['body'])
  dT = (('param', 'b', 's'), ('child', f"{unit['t']}:A", body, unit['name'], 1))
  dP = dsl.strip_transforms(dT)
  x = jnp.asarray([1., 2.], jnp.float32)
  key = f"{unit['t']}|{body!r}|{unit['name']}"
  rngs = {'params': jax.random.key(1)}
  res['evals'] += 2
  res['transitions'] += 1
  res['states'] += 1
  oP, vP = dsl.make('A', dP).init_with_output(rngs, x)
  try:
    oT, vT = dsl.make('A', dT).init_with_output(rngs, x)
  except Exception as e:  # noqa
    core.violation(res, 'raises|' + key, f"nn.{unit['t']} program raised {type(e).__name__}: "
                   f'{str(e)[:200]} where the plain program succeeds', unit)
    return res
  # compare modulo the auto-generated name of the transformed class
  def leaves(v):
    return sorted((len(p), canon_tree(l)) for p, l in
                  __import__('mc.engine.canon', fromlist=['flat_paths']).flat_paths(np_tree(v)).items())
  if canon_tree(np.asarray(oP['x'])) != canon_tree(np.asarray(oT['x'])) or leaves(vP) != leaves(vT):
    core.violation(res, 'differs|' + key, 'transformed program differs from plain', unit,
                   observed=np_tree(vT), expected=np_tree(vP))
  res['nontrivial'].append(core.h(key))
  core.outcome(res, 'ok')
  res['samples'].append(unit)
  return res
