"""C12 — feed-forward layers compute their documented formulas; Linen and NNX
agree (DESIGN §4 C12).

Per layer family the full product of small hyper-parameter domains is
enumerated; every configuration is executed on the real flax code (Linen and,
where it exists, NNX) and compared with the float64 NumPy reference of
mc/models/c12_ref.py.  Multilinear layers are evaluated on the full one-hot
basis of the input x the full one-hot basis of the kernel (plus the bias
basis), so the comparison is exact and decides the layer for all inputs of
that shape.  Norms use a fixed pool of 6 data patterns and a rigorous float32
enclosure; Dropout is checked clause by clause.
"""
from __future__ import annotations

import functools
import hashlib
import itertools
import json
import os

import numpy as np

from mc.engine import core
from mc.models import c12_ref as R

PROPERTY = 'C12'
LEVEL = 'exploration'
RULE = ('per layer family (Dense, DenseGeneral, Einsum, Conv/ConvLocal/ConvTranspose 1-D and '
        '2-D, Embed+attend, avg/max/min pool, LayerNorm, RMSNorm, GroupNorm, InstanceNorm, '
        'BatchNorm, Dropout, dtype/param_dtype grid) the full product of the hyper-parameter '
        'domains listed in bounds; multilinear layers on {0, e_i} x {E_j} x bias basis (all '
        'one-hot pairs, exact), norms on 6 data patterns, Dropout on a fixed key pool; a '
        'configuration is non-trivial when the reference output is not constant; distinct = '
        'distinct (family, reference result) i.e. distinct operators')
ASSUMPTIONS = [
  'data are one-hot / small-integer valued so float32, bfloat16 and float16 arithmetic of the '
  'multilinear layers is exact; shapes are small (spatial <= 6, channels <= 3)',
  'norm layers: real-valued behaviour is sampled on 6 fixed data patterns; agreement is up to '
  'a first-order float32 rounding enclosure of the documented formula (c12_ref.stat_errors)',
  "ConvTranspose padding='CIRCULAR': the docstring only says 'periodic boundary conditions'; "
  'the alignment convention (overhang split evenly, odd element left / right by '
  'transpose_kernel) is taken from the source comments and pinned',
  'ConvLocal patch-axis layout (channel slowest) is taken from the '
  'lax.conv_general_dilated_patches docstring the layer defers to',
  'Dropout masks of Linen and NNX are compared under the key NNX derives (obtained from a twin '
  'nnx.Rngs stream), key derivation itself belongs to C09',
  'FP8, LoRA, SpectralNorm/WeightNorm, axis_name (pmean) and force_float32_reductions=False '
  'are out of scope',
]

DT = ('f32', 'bf16', 'f16')


# --------------------------------------------------------------------------
# configuration grids


def _prod(fam, **dom):
  keys = list(dom)
  out = []
  for vals in itertools.product(*[dom[k] for k in keys]):
    c = dict(fam=fam)
    c.update(zip(keys, vals))
    out.append(c)
  return out


PAD1 = ['SAME', 'VALID', 'CIRCULAR', 'REFLECT', 'CAUSAL', [[1, 2]], 1]
PAD2 = ['SAME', 'VALID', 'CIRCULAR', 'REFLECT', 'CAUSAL', [[1, 2], [0, 1]], 1, [1, 0]]
TPAD1 = ['SAME', 'VALID', 'CIRCULAR', [[1, 2]], 1]
TPAD2 = ['SAME', 'VALID', 'CIRCULAR', [[1, 2], [0, 1]], 1]
K2 = [[1, 1], [2, 3], [3, 2]]
MB_ALL = [[0, 0], [0, 1], [1, 0], [1, 1]]


def _blocks(tier):
  """family -> list of blocks; a block is a dict of domains whose full product
  is enumerated."""
  q = tier == 'quick'
  B = {}
  # ---- Conv ---------------------------------------------------------------
  g1 = dict(kind=['conv'], nd=[1], k=[[1], [2], [3]], s=[1, 2], idil=[1, 2], kdil=[1, 2],
            g=[1, 2], pad=PAD1, cin=[2], cout=[2])
  if q:
    B['conv1d'] = [
      dict(g1, sp=[[6]], mb=[[1, 1], [0, 0]], nb=[1]),
      dict(g1, sp=[[5]], k=[[2], [3]], idil=[1], kdil=[1], g=[1], mb=[[0, 1]], nb=[0, 2]),
    ]
  else:
    B['conv1d'] = [dict(g1, sp=[[6], [5]], mb=MB_ALL, nb=[0, 1, 2])]
  g2 = dict(kind=['conv'], nd=[2], sp=[[5, 4]], k=K2, s=[1, [2, 1]], idil=[1, [1, 2]],
            kdil=[1, [2, 1]], g=[1, 2], pad=PAD2, cin=[2], cout=[2])
  if q:
    B['conv2d'] = [
      dict(g2, k=[[2, 3], [3, 2]], mb=[[1, 1]], nb=[1]),
      dict(g2, k=[[2, 3]], s=[[2, 1]], idil=[1], kdil=[1], g=[2], pad=PAD2[:4], mb=[[0, 0]],
           nb=[0, 2]),
    ]
  else:
    B['conv2d'] = [dict(g2, mb=MB_ALL, nb=[1, 2]),
                   dict(g2, mb=[[1, 1], [0, 0]], nb=[0])]
  # ---- ConvLocal (Linen only) ----------------------------------------------
  l1 = dict(kind=['convlocal'], nd=[1], sp=[[6]], k=[[1], [2], [3]], s=[1, 2], idil=[1, 2],
            kdil=[1, 2], g=[1], pad=PAD1, cin=[2])
  l2 = dict(kind=['convlocal'], nd=[2], sp=[[4, 3]], k=[[1, 1], [2, 2], [2, 1]], s=[1, [2, 1]],
            idil=[1, [1, 2]], kdil=[1, [2, 1]], g=[1], pad=PAD2, cin=[2], cout=[1])
  if q:
    B['convlocal'] = [
      dict(l1, k=[[2], [3]], cout=[2], mb=[[1, 1]], nb=[1]),
      dict(l1, k=[[2]], idil=[1], kdil=[1], pad=PAD1[:5], cout=[1], mb=[[0, 1]], nb=[0, 2]),
      dict(l1, k=[[2]], idil=[1], kdil=[1], s=[1], g=[2], pad=['SAME'], cout=[2], mb=[[0, 0]],
           nb=[1]),
      dict(l2, k=[[2, 2]], idil=[1], kdil=[1], pad=PAD2[:4] + PAD2[5:6], mb=[[1, 1]], nb=[1]),
    ]
  else:
    B['convlocal'] = [
      dict(l1, cout=[2], mb=MB_ALL, nb=[1, 2]),
      dict(l1, cout=[1], mb=MB_ALL, nb=[0]),
      dict(l1, k=[[2]], idil=[1], kdil=[1], g=[2], cout=[2], mb=[[0, 0]], nb=[1]),
      dict(l2, mb=MB_ALL, nb=[1, 2]),
      dict(l2, k=[[2, 2]], s=[[2, 1]], idil=[1], kdil=[1, [2, 1]], mb=[[1, 1]], nb=[0]),
    ]
  # ---- ConvTranspose ---------------------------------------------------------
  t1 = dict(kind=['convT'], nd=[1], sp=[[4]], k=[[1], [2], [3]], s=[None, 2, 3],
            kdil=[None, 2], pad=TPAD1, tk=[0, 1], cin=[2], cout=[3])
  t2 = dict(kind=['convT'], nd=[2], sp=[[3, 2]], k=K2, s=[None, [2, 1], [3, 2]],
            kdil=[None, [2, 1]], pad=TPAD2, tk=[0, 1], cin=[2], cout=[3])
  if q:
    B['convT'] = [
      dict(t1, mb=[[1, 1]], nb=[1]),
      dict(t1, k=[[2], [3]], s=[2], kdil=[None], mb=[[0, 0]], nb=[0, 2]),
      dict(t2, k=[[2, 3], [3, 2]], s=[None, [3, 2]], mb=[[0, 1]], nb=[1]),
    ]
  else:
    B['convT'] = [
      dict(t1, sp=[[4], [5]], mb=MB_ALL, nb=[1, 2]),
      dict(t1, mb=MB_ALL, nb=[0]),
      dict(t2, mb=MB_ALL, nb=[1, 2]),
      dict(t2, mb=[[1, 1], [0, 0]], nb=[0]),
    ]
  # ---- Dense / DenseGeneral / Einsum ------------------------------------------
  B['dense'] = [dict(kind=['dense'], nin=[1, 3], nout=[1, 2], bias=[0, 1], nb=[0, 1, 2])]
  B['densegeneral'] = [
    dict(kind=['densegeneral'], shape=[[2, 2, 3], [2, 3]], feats=[2, [2, 2]],
         axis=[-1, [-2, -1], [0]], bdims=[[], [0]], bias=[0, 1]),
    # contracted axes listed in non-ascending order (the kernel dims follow the sorted axes);
    # equal sizes, so a wrong pairing is silent
    dict(kind=['densegeneral'], shape=[[2, 3, 3], [3, 3]], feats=[2, [2, 2]],
         axis=[[-1, -2]], bdims=[[], [0]], bias=[0, 1])]
  B['einsum'] = [
    dict(kind=['einsum'], bias=[0, 1], at=['ctor', 'call'],
         eq=[['abc,cde->abde', [2, 2, 3], [3, 2, 2]],
             ['nta,hab->nthb', [2, 2, 2], [2, 2, 3]],
             ['...a,ab->...b', [2, 2, 3], [3, 2]],
             ['ab, bca -> ac', [2, 3], [3, 2, 2]]])]
  # ---- Embed -------------------------------------------------------------------
  B['embed'] = [dict(kind=['embed'], n=[1, 3, 4], f=[1, 2], ishape=[[], [3], [2, 3]],
                     idt=['i32', 'u8', 'f32'])]
  # ---- pooling -------------------------------------------------------------------
  p1 = dict(kind=['pool'], op=['avg', 'max', 'min'], nd=[1], sp=[[6]], w=[[1], [2], [3]],
            s=[None, [1], [2]], pad=['VALID', 'SAME', [[1, 1]], [[0, 2]]], cip=[1, 0],
            nb=[0, 1, 2])
  p2 = dict(p1, nd=[2], sp=[[4, 5]], w=[[2, 2], [3, 2], [1, 3]], s=[None, [2, 1], [2, 2]],
            pad=['VALID', 'SAME', [[1, 1], [0, 2]]])
  if q:
    B['pool'] = [dict(p1, nb=[1]), dict(p1, w=[[2]], s=[[2]], nb=[0, 2]),
                 dict(p2, w=[[3, 2]], nb=[1])]
  else:
    B['pool'] = [p1, p2]
  # ---- norms ---------------------------------------------------------------------
  eps3 = [1e-6, 1e-3, 0.5]
  B['layernorm'] = [dict(kind=['layernorm'], shape=[[2, 3, 4]], red=[-1, [-2, -1], [1, 2], [0]],
                         feat=[-1, [-2, -1]], bias=[0, 1], scale=[0, 1],
                         eps=eps3[:2] if q else eps3, mask=['none', 'full', 'bcast'],
                         fast=[1, 0])]
  B['rmsnorm'] = [dict(kind=['rmsnorm'], shape=[[2, 3, 4]], red=[-1, [-2, -1], [1, 2], [0]],
                       feat=[-1, [-2, -1]], scale=[0, 1], eps=eps3[:2] if q else eps3,
                       mask=['none', 'full', 'bcast'], fast=[1, 0])]
  B['groupnorm'] = [
    dict(kind=['groupnorm'], shape=[[2, 3, 4]], grp=[['ng', 1], ['ng', 2], ['ng', 4], ['gs', 1],
                                                     ['gs', 2]],
         red=[None, [-1], [1, 2], [2], [0, 1, 2]], bias=[0, 1], scale=[0, 1], eps=[1e-6, 0.5],
         mask=['none', 'full'], fast=[1, 0]),
    dict(kind=['groupnorm'], shape=[[3, 4], [2, 2, 3, 4]], grp=[['ng', 2], ['gs', 1]],
         red=[None, [-1]], bias=[1], scale=[1], eps=[1e-6], mask=['none', 'full'], fast=[1, 0]),
    dict(kind=['groupnorm'], shape=[[2, 2, 3, 4]], grp=[['ng', 2]], red=[[2, 3], [1, 3]],
         bias=[1], scale=[1], eps=[1e-6], mask=['none'], fast=[1]),
    dict(kind=['groupnorm'], shape=[[2, 3, 4]], grp=[['ng', 3], ['gs', 3], ['both', 2],
                                                     ['neither', 0]],
         red=[None], bias=[1], scale=[1], eps=[1e-6], mask=['none'], fast=[1]),
  ]
  B['instancenorm'] = [dict(kind=['instancenorm'], shape=[[2, 3, 4], [2, 3, 2, 2]],
                            feat=[-1, [1], [-2, -1], [0]], bias=[0, 1], scale=[0, 1],
                            eps=[1e-6, 0.5], mask=['none', 'full', 'bcast'], fast=[1, 0])]
  B['batchnorm'] = [dict(kind=['batchnorm'], shape=[[3, 2, 4], [4, 3]], axis=[-1, 1],
                         mom=[0.0, 0.9, 1.0], eps=[1e-5, 0.5], bias=[0, 1], scale=[0, 1],
                         mask=['none', 'full'], fast=[1, 0], mode=['train', 'eval'],
                         at=['ctor', 'call'])]
  if q:
    B['batchnorm'][0].update(bias=[1], scale=[1])
    B['instancenorm'][0].update(shape=[[2, 3, 4]])
  # ---- Dropout ---------------------------------------------------------------------
  B['dropout'] = [dict(kind=['dropout'], rate=[0.0, 0.25, 0.5, 1.0], det=[0, 1],
                       at=['ctor', 'call'], shape=[[4, 6], [2, 3, 4]],
                       bd=[[], [0], [1], [0, -1]], xdt=['f32', 'bf16']),
                  dict(kind=['dropout'], rate=[0.25, 0.5], det=[0], at=['ctor'],
                       shape=[[64, 64]], bd=[[], [1]], xdt=['f32'])]
  # ---- dtype / param_dtype grid ------------------------------------------------------
  layers = ['dense', 'densegeneral', 'einsum', 'conv', 'convlocal', 'convT', 'embed',
            'layernorm', 'rmsnorm', 'groupnorm', 'instancenorm', 'batchnorm']
  B['dtype'] = [dict(kind=['dtype'], layer=layers, dtype=[None, 'f32', 'bf16', 'f16'],
                     pdt=list(DT), xdt=list(DT))]
  return B


# relative cost of one configuration (for balancing units), seconds-ish
def _weight(c):
  k = c.get('kind')
  if k in ('conv', 'convlocal', 'convT'):
    if R.conv_rejects(k, c['nd'], _pad(c['pad']), c.get('idil'), c.get('g', 1)):
      return 0.05
    n = int(np.prod(c['sp'])) * c['cin'] + 1
    kb = int(np.prod(c['k'])) * c['cin'] * c['cout']
    if k == 'convlocal':
      kb *= int(np.prod(c['sp']))
    calls = (kb + 4) * (n if c['nb'] == 0 else 1)
    return 0.03 + calls * 0.0032
  if k == 'densegeneral':
    return 0.4
  if k == 'einsum':
    return 0.7
  if k == 'dropout':
    return 0.12
  if k == 'pool':
    return 0.03
  if k == 'dtype':
    return {'einsum': 1.0, 'densegeneral': 0.7, 'dense': 0.2, 'embed': 0.25}.get(c['layer'], 0.15)
  return 0.045


@functools.lru_cache(maxsize=None)
def _configs(fam, tier):
  out = []
  for b in _blocks(tier)[fam]:
    out.extend(_prod(fam, **b))
  # de-duplicate (blocks may overlap), keep order
  seen, uniq = set(), []
  for c in out:
    t = _ctext(c)
    if t not in seen:
      seen.add(t)
      uniq.append(c)
  return uniq


FAMILIES = ['conv1d', 'conv2d', 'convlocal', 'convT', 'dense', 'densegeneral', 'einsum', 'embed',
            'pool', 'layernorm', 'rmsnorm', 'groupnorm', 'instancenorm', 'batchnorm', 'dropout',
            'dtype']


def bounds(tier):
  bl = _blocks(tier)
  return dict(blocks={f: bl[f] for f in FAMILIES},
              configurations={f: len(_configs(f, tier)) for f in FAMILIES},
              norm_data_patterns=6, dropout_key_pool=8)


def units(tier, seed):
  target = 6.0 if tier == 'quick' else 35.0
  us = []
  for fam in FAMILIES:
    cfgs = _configs(fam, tier)
    lo, acc = 0, 0.0
    for i, c in enumerate(cfgs):
      acc += _weight(c)
      if acc >= target or i == len(cfgs) - 1:
        us.append(dict(fam=fam, tier=tier, lo=lo, hi=i + 1))
        lo, acc = i + 1, 0.0
  # the seed only permutes the order in which units are handed out
  r = seed % len(us)
  return us[r:] + us[:r]


def _ctext(c):
  return json.dumps(c, sort_keys=True, separators=(',', ':'))


def _pad(p):
  if isinstance(p, (str, int)):
    return p
  return tuple(tuple(e) if isinstance(e, (list, tuple)) else e for e in p)


def _t(v):
  return tuple(v) if isinstance(v, list) else v


# --------------------------------------------------------------------------
# worker side helpers


def setup_worker():
  import jax  # noqa
  import flax  # noqa
  import flax.linen  # noqa
  from flax import nnx  # noqa


def _jdt(name):
  import jax.numpy as jnp
  return {None: None, 'f32': jnp.float32, 'bf16': jnp.bfloat16, 'f16': jnp.float16,
          'i32': jnp.int32, 'u8': jnp.uint8}[name]


_NAMES = {'float32': 'f32', 'bfloat16': 'bf16', 'float16': 'f16', 'int32': 'i32',
          'uint8': 'u8', 'float64': 'f64'}


def _dname(a):
  return _NAMES.get(str(np.asarray(a).dtype), str(np.asarray(a).dtype))


def _arr(a, dt='f32'):
  import jax.numpy as jnp
  return jnp.asarray(np.asarray(a), _jdt(dt))


def _f64(a):
  return np.asarray(a).astype(np.float64)


def _bits(a):
  a = np.asarray(a)
  return (str(a.dtype), a.shape, a.tobytes())


def _sha(*arrs):
  h = hashlib.sha1()
  for a in arrs:
    a = np.ascontiguousarray(np.asarray(a, np.float64))
    h.update(repr(a.shape).encode())
    h.update(a.tobytes())
  return h.hexdigest()[:16]


def _seed():
  return int(os.environ.get('VERIF_SEED', '0') or 0)


def _zeros_init(key, shape, dtype=np.float32):
  import jax.numpy as jnp
  return jnp.zeros(shape, dtype)


def _exc(e):
  return f'{type(e).__name__}: {str(e)[:160]}'


class _Ctx:
  """Per-configuration reporting helper."""

  def __init__(self, res, cfg):
    self.res, self.cfg, self.text = res, cfg, _ctext(cfg)
    self.bad = set()

  def viol(self, clause, what, observed=None, expected=None, **extra):
    if clause in self.bad:      # one violation per (clause, configuration)
      return
    self.bad.add(clause)
    case = dict(self.cfg)
    case.update(extra)
    core.violation(self.res, f'{clause}|{self.text}', what, case, observed=_small(observed),
                   expected=_small(expected))

  def outcome(self, label):
    core.outcome(self.res, label)

  def nontrivial(self, *ref_arrays):
    flat = np.concatenate([np.asarray(a, np.float64).reshape(-1) for a in ref_arrays])
    flat = flat[np.isfinite(flat)]
    if flat.size and flat.min() != flat.max():
      self.res['nontrivial'].append(core.h([self.cfg['fam'], self.cfg.get('kind'),
                                            self.cfg.get('dt'), _sha(*ref_arrays)]))

  def sample(self, **kw):
    if len(self.res['samples']) < 2:
      self.res['samples'].append(dict(config=self.cfg, **kw))


def _small(a):
  if a is None:
    return None
  if isinstance(a, (str, int, float, bool, list, dict)):
    return a
  a = np.asarray(a)
  if a.size > 64:
    return dict(shape=list(a.shape), dtype=str(a.dtype), head=_f64(a).reshape(-1)[:32].tolist())
  return dict(shape=list(a.shape), dtype=str(a.dtype), values=_f64(a).tolist())


def run_unit(unit):
  import jax
  res = core.new_result()
  cfgs = _configs(unit['fam'], unit['tier'])[unit['lo']:unit['hi']]
  for cfg in cfgs:
    ctx = _Ctx(res, cfg)
    _RUN[cfg['kind']](ctx, cfg)
  jax.clear_caches()
  return res


# --------------------------------------------------------------------------
# generic driver for the multilinear layers


def _basis_inputs(sample_shape, nb, xdt='f32'):
  """{0, e_1..e_n} of the sample space, arranged with nb leading batch dims.
  nb=0: a list of n+1 single samples; nb=1: one array (n+1, *sample);
  nb=2: one array (B1, 3, *sample), unused slots hold 2*e_n (homogeneity)."""
  n = int(np.prod(sample_shape))
  X = np.zeros((n + 1, n), np.float64)
  for i in range(n):
    X[i + 1, i] = 1.0
  if nb == 2:
    b1 = -(-(n + 1) // 3)
    pad = np.zeros((b1 * 3 - (n + 1), n))
    pad[:, n - 1] = 2.0
    X = np.concatenate([X, pad]).reshape((b1, 3) + tuple(sample_shape))
    return [X]
  X = X.reshape((n + 1,) + tuple(sample_shape))
  return [X] if nb == 1 else [X[i] for i in range(n + 1)]


def _param_points(kshape, bshape, mask=None):
  """(kernel, bias) evaluation points: every kernel one-hot with a fixed bias
  of distinct entries, the zero kernel with every bias one-hot, and all-zero."""
  pts = []
  nk = int(np.prod(kshape))
  b0 = None
  if bshape is not None:
    nbias = int(np.prod(bshape))
    b0 = ((np.arange(nbias) * 3) % 7 + 1.0).reshape(bshape)
  for j in range(nk):
    K = np.zeros(nk)
    K[j] = 1.0
    pts.append((K.reshape(kshape), b0))
  Z = np.zeros(kshape)
  if bshape is not None:
    for j in range(int(np.prod(bshape))):
      b = np.zeros(int(np.prod(bshape)))
      b[j] = 1.0
      pts.append((Z, b.reshape(bshape)))
  pts.append((Z, None if bshape is None else np.zeros(bshape)))
  return pts


def _drive(ctx, inputs, points, linen_fn, nnx_fn, ref_fn, exp_dt, xdt='f32', pdt='f32',
           names=('kernel', 'bias'), tag=''):
  """Evaluate both implementations and the reference on inputs x points.
  `tag` is appended to the clause names (keys of violations)."""
  refs = []
  ok = True
  for K, b in points:
    P = {names[0]: _arr(K, pdt)}
    if b is not None:
      P[names[1]] = _arr(b, pdt)
    for x in inputs:
      xj = _arr(x, xdt)
      ref = ref_fn(x, K, b)
      refs.append(ref)
      try:
        yl = np.asarray(linen_fn(P, xj))
        ctx.res['evals'] += 1
      except Exception as e:  # the oracle predicts: no exception
        ctx.viol('linen-raises' + tag, f'Linen raised {_exc(e)} on an accepted configuration')
        return False
      if yl.shape != ref.shape or _dname(yl) != exp_dt or not np.array_equal(_f64(yl), ref):
        ctx.viol('linen-vs-ref' + tag, 'Linen output differs from the documented formula '
                 f'(shape {yl.shape} vs {ref.shape}, dtype {_dname(yl)} vs {exp_dt})',
                 observed=yl, expected=ref, kernel=_small(K), bias=_small(b), x=_small(x))
        ok = False
      if nnx_fn is not None:
        try:
          yn = np.asarray(nnx_fn(P, xj))
          ctx.res['evals'] += 1
        except Exception as e:
          ctx.viol('nnx-raises' + tag, f'NNX raised {_exc(e)} on an accepted configuration')
          return False
        if _dname(yn) != _dname(yl):
          # one root cause, one key: the two APIs disagree on the result dtype
          ctx.viol('linen-vs-nnx' + tag + '-dtype', f'NNX returns {_dname(yn)} where Linen '
                   f'returns {_dname(yl)} for the same parameters and input (documented: '
                   f'{exp_dt})', observed=yn, expected=yl, kernel=_small(K), bias=_small(b),
                   x=_small(x))
          return False
        if _bits(yn) != _bits(yl):
          ctx.viol('linen-vs-nnx' + tag, 'NNX output is not bitwise equal to the Linen output '
                   'for the same parameters', observed=yn, expected=yl, kernel=_small(K),
                   bias=_small(b), x=_small(x))
          ok = False
        if yn.shape != ref.shape or _dname(yn) != exp_dt or not np.array_equal(_f64(yn), ref):
          ctx.viol('nnx-vs-ref' + tag, 'NNX output differs from the documented formula',
                   observed=yn, expected=ref, kernel=_small(K), bias=_small(b), x=_small(x))
          ok = False
      if not ok:
        return False
  ctx.nontrivial(*refs)
  return True


def _check_params(ctx, api, got, want, pdt):
  """got: name -> array ; want: name -> shape."""
  g = {k: (tuple(np.shape(v)), _dname(v)) for k, v in got.items()}
  w = {k: (tuple(s), pdt) for k, s in want.items()}
  if g != w:
    ctx.viol(f'{api}-param-shapes', f'{api} parameters differ from the documented '
             f'shapes / param_dtype', observed=repr(g), expected=repr(w))
    return False
  return True


def _expect_reject(ctx, reason, linen_thunk, nnx_thunk):
  for api, th in (('linen', linen_thunk), ('nnx', nnx_thunk)):
    if th is None:
      continue
    ctx.res['evals'] += 1
    try:
      th()
    except Exception:
      continue
    ctx.viol(f'{api}-accepts-rejected', f'{api} accepted a configuration the predicate pins as '
             f'rejected ({reason})')
  ctx.outcome(f"{ctx.cfg['fam']}:rejected:{reason}")


# --------------------------------------------------------------------------
# Conv / ConvLocal / ConvTranspose


def _mask_for(kshape):
  n = int(np.prod(kshape))
  m = ((np.arange(n) * 7 + 3) % 4 != 0).astype(np.float64)
  if n > 1:
    m[1 % n] = 0.0
  return m.reshape(kshape)


def _run_conv(ctx, c, dt=(None, 'f32', 'f32')):
  import jax
  import flax.linen as nn
  from flax import nnx
  dtype, pdt, xdt = dt
  kind, nd = c['kind'], c['nd']
  sp, ks = tuple(c['sp']), tuple(c['k'])
  cin, cout, nb = c['cin'], c['cout'], c['nb']
  use_mask, use_bias = c['mb']
  pad = _pad(c['pad'])
  s, kd = _t(c.get('s')), _t(c.get('kdil'))
  idil, g = _t(c.get('idil')), c.get('g', 1)
  tk = bool(c.get('tk', 0))
  ksarg = ks[0] if (nd == 1 and (ks[0] + nb) % 2 == 0) else ks
  common = dict(padding=pad, use_bias=bool(use_bias), dtype=_jdt(dtype), param_dtype=_jdt(pdt),
                kernel_init=_zeros_init, bias_init=_zeros_init)
  if kind == 'convT':
    geom = dict(strides=s, kernel_dilation=kd)
    kshape = ks + ((cout, cin) if tk else (cin, cout))
    bshape = (cout,)
    lin_kw = dict(geom, transpose_kernel=tk)
    lin_kw['strides'] = None if s is None else R.tup(s, nd)
    lin_kw['kernel_dilation'] = None if kd is None else R.tup(kd, nd)
    nnx_kw = dict(geom, transpose_kernel=tk)
    ref_kw = dict(nd=nd, strides=s, kernel_dilation=kd, padding=pad, transpose_kernel=tk)
  else:
    geom = dict(strides=s, input_dilation=idil, kernel_dilation=kd)
    lin_kw = dict(geom, feature_group_count=g)
    nnx_kw = dict(lin_kw)
    ref_kw = dict(nd=nd, padding=pad, **geom)
  reason = R.conv_rejects(kind, nd, pad, idil, g)
  inputs = _basis_inputs(sp + (cin,), nb, xdt)

  if reason is None:
    if kind == 'convlocal':
      kshape, bshape = R.conv_local_shapes(sp, cin, cout, ks, padding=pad, **geom)
    elif kind == 'conv':
      kshape, bshape = ks + (cin // g, cout), (cout,)
    mask = _mask_for(kshape) if use_mask else None
  else:
    # any mask shape will do: the configuration must be refused anyway
    mask = None
  mj = None if mask is None else _arr(mask, pdt)
  Lcls = {'conv': nn.Conv, 'convlocal': nn.ConvLocal, 'convT': nn.ConvTranspose}[kind]
  Ncls = {'conv': nnx.Conv, 'convlocal': None, 'convT': nnx.ConvTranspose}[kind]
  lm = Lcls(features=cout, kernel_size=ksarg, mask=mj, **lin_kw, **common)
  x0 = _arr(inputs[0], xdt)

  def mk_nnx():
    return Ncls(cin, cout, ksarg, mask=mj, rngs=nnx.Rngs(0), **nnx_kw, **common)

  if reason is not None:
    _expect_reject(ctx, reason, lambda: lm.init(jax.random.key(0), x0),
                   None if Ncls is None else (lambda: mk_nnx()(x0)))
    return

  # --- parameters: documented shapes and param_dtype on both APIs -------------
  want = {'kernel': kshape}
  if use_bias:
    want['bias'] = bshape
  try:
    v = lm.init(jax.random.key(0), x0)
    ctx.res['evals'] += 1
  except Exception as e:
    ctx.viol('linen-raises', f'Linen init raised {_exc(e)} on an accepted configuration')
    return
  if set(v.keys()) != {'params'} or not _check_params(ctx, 'linen', v['params'], want, pdt):
    if set(v.keys()) != {'params'}:
      ctx.viol('linen-param-shapes', f'unexpected collections {sorted(v.keys())}')
    return
  nm = None
  if Ncls is not None:
    try:
      nm = mk_nnx()
    except Exception as e:
      ctx.viol('nnx-raises', f'NNX constructor raised {_exc(e)} on an accepted configuration')
      return
    got = {'kernel': nm.kernel.value}
    if nm.bias is not None:
      got['bias'] = nm.bias.value
    if not _check_params(ctx, 'nnx', got, want, pdt):
      return

  def linen_fn(P, x):
    return lm.apply({'params': P}, x)

  def nnx_fn(P, x):
    nm.kernel.value = P['kernel']
    if 'bias' in P:
      nm.bias.value = P['bias']
    return nm(x)

  reff = {'conv': functools.partial(R.conv, groups=g, mask=mask, **ref_kw),
          'convlocal': functools.partial(R.conv_local, ksize=ks, mask=mask, **ref_kw),
          'convT': functools.partial(R.conv_transpose, mask=mask, **ref_kw)}[kind]
  exp_dt = R.out_dtype(dtype, xdt, pdt, pdt if use_bias else None)
  pts = _param_points(kshape, bshape if use_bias else None)
  ok = _drive(ctx, inputs, pts, linen_fn, nnx_fn if nm is not None else None,
              lambda x, K, b: reff(x, K, b), exp_dt, xdt, pdt)
  osp = R.conv_transpose_out_spatial(sp, ks, s, kd, pad) if kind == 'convT' else \
    R.conv_out_spatial(sp, ks, padding=pad, **geom)
  if ok:
    ctx.outcome(f"{c['fam']}:{kind}{nd}d:ok:out{'x'.join(map(str, osp))}")
    ctx.sample(kernel_shape=list(kshape), out_spatial=list(osp), points=len(pts),
               inputs=len(inputs) * int(np.shape(inputs[0])[0] if nb else 1))
  else:
    ctx.outcome(f"{c['fam']}:{kind}{nd}d:MISMATCH")


_RUN = {'conv': _run_conv, 'convlocal': _run_conv, 'convT': _run_conv}


# --------------------------------------------------------------------------
# Dense / DenseGeneral / Einsum


def _run_dense(ctx, c, dt=(None, 'f32', 'f32')):
  import jax
  import flax.linen as nn
  from flax import nnx
  dtype, pdt, xdt = dt
  nin, nout, nb, use_bias = c['nin'], c['nout'], c['nb'], c['bias']
  kw = dict(use_bias=bool(use_bias), dtype=_jdt(dtype), param_dtype=_jdt(pdt),
            kernel_init=_zeros_init, bias_init=_zeros_init)
  lm = nn.Dense(nout, **kw)
  inputs = _basis_inputs((nin,), nb)
  want = {'kernel': (nin, nout)}
  if use_bias:
    want['bias'] = (nout,)
  try:
    v = lm.init(jax.random.key(0), _arr(inputs[0], xdt))
    nm = nnx.Linear(nin, nout, rngs=nnx.Rngs(0), **kw)
  except Exception as e:
    ctx.viol('raises', f'constructor/init raised {_exc(e)}')
    return
  got = {'kernel': nm.kernel.value}
  if nm.bias is not None:
    got['bias'] = nm.bias.value
  if not (_check_params(ctx, 'linen', v['params'], want, pdt)
          and _check_params(ctx, 'nnx', got, want, pdt)):
    return

  def nnx_fn(P, x):
    nm.kernel.value = P['kernel']
    if 'bias' in P:
      nm.bias.value = P['bias']
    return nm(x)
  exp_dt = R.out_dtype(dtype, xdt, pdt, pdt if use_bias else None)
  ok = _drive(ctx, inputs, _param_points((nin, nout), (nout,) if use_bias else None),
              lambda P, x: lm.apply({'params': P}, x), nnx_fn, R.dense, exp_dt, xdt, pdt)
  ctx.outcome('dense:ok' if ok else 'dense:MISMATCH')
  ctx.sample(kernel_shape=[nin, nout])


def _run_densegeneral(ctx, c, dt=(None, 'f32', 'f32')):
  import jax
  import flax.linen as nn
  from flax import nnx
  dtype, pdt, xdt = dt
  shape, feats, axis, bdims = tuple(c['shape']), _t(c['feats']), _t(c['axis']), tuple(c['bdims'])
  use_bias = c['bias']
  nd = len(shape)
  ax_n, bd_n = R.norm_axes(axis, nd), R.norm_axes(bdims, nd)
  kw = dict(use_bias=bool(use_bias), dtype=_jdt(dtype), param_dtype=_jdt(pdt),
            kernel_init=_zeros_init, bias_init=_zeros_init)
  lm = nn.DenseGeneral(features=feats, axis=axis, batch_dims=bdims, **kw)
  in_feats = tuple(shape[a] for a in ax_n)
  ftuple = (feats,) if isinstance(feats, int) else feats

  def mk_nnx():
    return nnx.LinearGeneral(in_feats if len(in_feats) > 1 else in_feats[0], feats, axis=axis,
                             batch_axis={a: shape[a] for a in bd_n}, rngs=nnx.Rngs(0), **kw)
  x0 = _arr(np.zeros(shape), xdt)
  if set(ax_n) & set(bd_n):
    # an axis cannot be contracted and batched at once: dot_general refuses
    _expect_reject(ctx, 'axis-in-batch-dims', lambda: lm.init(jax.random.key(0), x0),
                   lambda: mk_nnx()(x0))
    return
  kshape, bshape = R.dense_general_shapes(shape, feats, axis, bdims)
  want = {'kernel': kshape}
  if use_bias:
    want['bias'] = bshape
  try:
    v = lm.init(jax.random.key(0), x0)
    nm = mk_nnx()
  except Exception as e:
    ctx.viol('raises', f'constructor/init raised {_exc(e)} on an accepted configuration')
    return
  got = {'kernel': nm.kernel.value}
  if nm.bias is not None:
    got['bias'] = nm.bias.value
  if not (_check_params(ctx, 'linen', v['params'], want, pdt)
          and _check_params(ctx, 'nnx', got, want, pdt)):
    return
  # when all axes are addressed from the end and nothing is batched, the basis
  # of x rides on an extra leading axis; otherwise one call per basis element
  free_lead = not bd_n and all(a < 0 for a in ((axis,) if isinstance(axis, int) else axis))
  inputs = _basis_inputs(shape, 1 if free_lead else 0)

  def nnx_fn(P, x):
    nm.kernel.value = P['kernel']
    if 'bias' in P:
      nm.bias.value = P['bias']
    return nm(x)

  def ref(x, K, b):
    if free_lead:
      return np.stack([R.dense_general(xi, K, b, features=feats, axis=axis, batch_dims=bdims)
                       for xi in x])
    return R.dense_general(x, K, b, features=feats, axis=axis, batch_dims=bdims)
  exp_dt = R.out_dtype(dtype, xdt, pdt, pdt if use_bias else None)
  ok = _drive(ctx, inputs, _param_points(kshape, bshape if use_bias else None),
              lambda P, x: lm.apply({'params': P}, x), nnx_fn, ref, exp_dt, xdt, pdt)
  ctx.outcome(f'densegeneral:ok:k{len(kshape)}' if ok else 'densegeneral:MISMATCH')
  ctx.sample(kernel_shape=list(kshape), bias_shape=list(bshape))


def _run_einsum(ctx, c, dt=(None, 'f32', 'f32')):
  import jax
  import flax.linen as nn
  from flax import nnx
  dtype, pdt, xdt = dt
  eq, xshape, kshape = c['eq'][0], tuple(c['eq'][1]), tuple(c['eq'][2])
  use_bias, at = c['bias'], c['at']
  bshape, _ = R.einsum_bias_shape(eq, len(xshape), kshape)
  kw = dict(dtype=_jdt(dtype), param_dtype=_jdt(pdt), kernel_init=_zeros_init,
            bias_init=_zeros_init)
  lm = nn.Einsum(kshape, eq if at == 'ctor' else None, use_bias=bool(use_bias), **kw)
  call_eq = None if at == 'ctor' else eq
  x0 = _arr(np.zeros(xshape), xdt)
  want = {'kernel': kshape}
  if use_bias:
    want['bias'] = bshape
  try:
    v = lm.init(jax.random.key(0), x0, call_eq)
    # NNX needs a constructor equation; the call argument takes precedence
    nm = nnx.Einsum(eq if at == 'ctor' else 'zz,zz->zz', kshape, bshape if use_bias else None,
                    rngs=nnx.Rngs(0), **kw)
  except Exception as e:
    ctx.viol('raises', f'constructor/init raised {_exc(e)}')
    return
  got = {'kernel': nm.kernel.value}
  if nm.bias is not None:
    got['bias'] = nm.bias.value
  if not (_check_params(ctx, 'linen', v['params'], want, pdt)
          and _check_params(ctx, 'nnx', got, want, pdt)):
    return

  def nnx_fn(P, x):
    nm.kernel.value = P['kernel']
    if 'bias' in P:
      nm.bias.value = P['bias']
    return nm(x, call_eq)
  exp_dt = R.out_dtype(dtype, xdt, pdt, pdt if use_bias else None)
  ok = _drive(ctx, _basis_inputs(xshape, 0), _param_points(kshape, bshape if use_bias else None),
              lambda P, x: lm.apply({'params': P}, x, call_eq), nnx_fn,
              lambda x, K, b: R.einsum(eq, x, K, b), exp_dt, xdt, pdt)
  ctx.outcome('einsum:ok' if ok else 'einsum:MISMATCH')
  ctx.sample(kernel_shape=list(kshape), bias_shape=list(bshape))


# --------------------------------------------------------------------------
# Embed (+ attend)


def _run_embed(ctx, c, dt=(None, 'f32', 'f32')):
  import jax
  import flax.linen as nn
  from flax import nnx
  dtype, pdt, qdt = dt
  n, f, ishape, idt = c['n'], c['f'], tuple(c['ishape']), c['idt']
  kw = dict(dtype=_jdt(dtype), param_dtype=_jdt(pdt), embedding_init=_zeros_init)
  lm = nn.Embed(n, f, **kw)
  nm = nnx.Embed(n, f, rngs=nnx.Rngs(0), **kw)
  cnt = int(np.prod(ishape)) if ishape else 1
  if idt == 'f32':   # "Values in the input array must be integers."
    xi = _arr(np.zeros(ishape), 'f32')
    tbl = _arr(np.zeros((n, f)), pdt)
    nm.embedding.value = tbl
    _expect_reject(ctx, 'non-integer-indices',
                   lambda: lm.apply({'params': {'embedding': tbl}}, xi), lambda: nm(xi))
    return
  try:
    v = lm.init(jax.random.key(0), _arr(np.zeros(ishape), idt))
    ctx.res['evals'] += 1
  except Exception as e:
    ctx.viol('linen-raises', f'Linen Embed.init raised {_exc(e)} on integer indices of shape '
             f'{ishape}')
    try:
      nm(_arr(np.zeros(ishape), idt))
    except Exception as e2:
      ctx.viol('nnx-raises', f'NNX Embed raised {_exc(e2)} on integer indices of shape {ishape}')
    ctx.outcome('embed:RAISES')
    return
  if not (_check_params(ctx, 'linen', v['params'], {'embedding': (n, f)}, pdt)
          and _check_params(ctx, 'nnx', {'embedding': nm.embedding.value},
                            {'embedding': (n, f)}, pdt)):
    return
  # lookup: a table of distinct values decides it; every index in [-n, n] when
  # signed ([0, n] unsigned; index n is the documented out-of-range case)
  table = (np.arange(n * f).reshape(n, f) * 2.0 + 1.0)
  vals = list(range(0, n + 1)) if idt == 'u8' else list(range(-n, n + 1))
  rot = _seed() % len(vals)
  vals = vals[rot:] + vals[:rot]
  refs = []
  exp_dt = dtype if dtype is not None else pdt
  tj = _arr(table, pdt)
  nm.embedding.value = tj
  for start in range(0, len(vals), max(cnt, 1)):
    chunk = [vals[(start + j) % len(vals)] for j in range(cnt)]
    idx = np.array(chunk).reshape(ishape)
    ref = R.embed(table, idx)
    refs.append(ref)
    ij = _arr(idx, idt)
    try:
      yl = np.asarray(lm.apply({'params': {'embedding': tj}}, ij))
      yn = np.asarray(nm(ij))
      ctx.res['evals'] += 2
    except Exception as e:
      ctx.viol('raises', f'lookup raised {_exc(e)}', idx=idx.tolist())
      return
    for api, y in (('linen', yl), ('nnx', yn)):
      if y.shape != ref.shape or _dname(y) != exp_dt or \
         not np.array_equal(_f64(y), ref, equal_nan=True):
        ctx.viol(f'{api}-lookup', f'{api} Embed differs from table lookup (dtype {_dname(y)}, '
                 f'expected {exp_dt})', observed=y, expected=ref, idx=idx.tolist())
    if _bits(yl) != _bits(yn):
      ctx.viol('linen-vs-nnx', 'Embed outputs differ bitwise', observed=yn, expected=yl,
               idx=idx.tolist())
  # attend: bilinear -> full basis of query x full basis of the table
  att_dt = R.out_dtype(dtype, qdt, pdt)

  def nnx_att(P, q):
    nm.embedding.value = P['embedding']
    return nm.attend(q)
  for nb in (0, 1, 2):
    ok = _drive(ctx, _basis_inputs((f,), nb), _param_points((n, f), None),
                lambda P, q: lm.apply({'params': P}, q, method='attend'), nnx_att,
                lambda q, K, b: R.attend(K, q), att_dt, qdt, pdt, names=('embedding', None),
                tag=':embed-attend')
    if not ok:
      break
  ctx.nontrivial(*refs)
  ctx.outcome(f'embed:ok:n{n}' if not ctx.bad else 'embed:MISMATCH')
  ctx.sample(table=table.tolist(), indices=vals)


# --------------------------------------------------------------------------
# pooling


def _pool_data(shape, op):
  n = int(np.prod(shape))
  i = np.arange(n)
  pats = [((i * 5) % 11 - 5.0), -1.0 - (i * 3) % 7, np.where(i % 2 == 0, 1.0, -1.0) * (1 + i % 4)]
  r = _seed() % n
  return [np.roll(p, r).reshape(shape) for p in pats]


def _run_pool(ctx, c):
  import flax.linen as nn
  from flax import nnx
  op, nd, sp, w = c['op'], c['nd'], tuple(c['sp']), tuple(c['w'])
  s, pad, cip, nb = c['s'], c['pad'], bool(c['cip']), c['nb']
  if op != 'avg' and not cip:
    cip = True   # the flag exists for avg only; the configuration collapses
  s = None if s is None else tuple(s)
  pad = pad if isinstance(pad, str) else tuple(tuple(p) for p in pad)
  feat = 2
  from flax.linen import pooling
  fn = {'avg': nn.avg_pool, 'max': nn.max_pool, 'min': pooling.min_pool}[op]
  fnn = {'avg': nnx.avg_pool, 'max': nnx.max_pool, 'min': nnx.min_pool}[op]
  kw = dict(strides=s, padding=pad)
  if op == 'avg':
    kw['count_include_pad'] = cip
  batches = {0: (), 1: (2,), 2: (2, 2)}[nb]
  data = []
  if op == 'avg':   # linear: the one-hot basis decides it
    data += _basis_inputs(sp + (feat,), nb)
  data += _pool_data(batches + sp + (feat,), op)
  refs = []
  for x in data:
    ref = R.pool(x, op, w, s, pad, cip)
    refs.append(ref)
    xj = _arr(x)
    try:
      y = np.asarray(fn(xj, w, **kw))
      y2 = np.asarray(fnn(xj, w, **kw))
      ctx.res['evals'] += 2
    except Exception as e:
      ctx.viol('raises', f'pooling raised {_exc(e)}')
      return
    # max/min select elements (exact); avg divides a small exact integer sum:
    # one float32 rounding of the quotient -> 1 ulp
    with np.errstate(invalid='ignore'):
      tol = 0.0 if op != 'avg' else 2.0 ** -23 * np.abs(ref)
      good = y.shape == ref.shape and _dname(y) == 'f32' and bool(np.all(
        (np.abs(_f64(y) - ref) <= tol) | (_f64(y) == ref) | (np.isnan(ref) & np.isnan(_f64(y)))))
    if not good:
      ctx.viol('pool-vs-ref', f'{op}_pool differs from the window reduction', observed=y,
               expected=ref, x=_small(x))
    if _bits(y) != _bits(y2):
      ctx.viol('linen-vs-nnx', 'nnx pooling differs bitwise from linen pooling', observed=y2,
               expected=y)
  ctx.nontrivial(*refs)
  ctx.outcome(f"pool:{op}:out{'x'.join(map(str, refs[0].shape[len(batches):-1]))}"
              if not ctx.bad else 'pool:MISMATCH')
  ctx.sample(window=list(w), out_shape=list(refs[-1].shape))


_RUN.update(dense=_run_dense, densegeneral=_run_densegeneral, einsum=_run_einsum,
            embed=_run_embed, pool=_run_pool)


# --------------------------------------------------------------------------
# normalisation layers

SCALE = [1.5, -2.0, 0.5, 3.0, 1.0, -0.5, 2.0, 0.25, -1.5, 4.0, 0.75, -3.0]
BIAS = [0.25, -1.0, 2.0, 0.0, -3.0, 1.0, 0.5, -0.25, 1.5, -2.0, 3.0, -0.5]


def _norm_mask(kind, shape):
  if kind == 'none':
    return None
  if kind == 'full':
    n = int(np.prod(shape))
    return ((np.arange(n) * 5 + 1) % 3 != 0).reshape(shape)
  # 'bcast': one flag per position, shared by the features (last axis)
  n = int(np.prod(shape[:-1]))
  return ((np.arange(n) % 3) != 1).reshape(tuple(shape[:-1]) + (1,))


def _norm_patterns(shape, mask):
  """The fixed pool of 6 data patterns (all values exact in bf16 / f16)."""
  n = int(np.prod(shape))
  i = np.arange(n)
  sd = _seed()
  onehot = np.zeros(n)
  onehot[(sd * 7 + 3) % n] = 4.0
  out_pos = (i % 5 == 2) if mask is None else ~np.broadcast_to(mask, shape).reshape(-1)
  pats = [
    ('constant', np.full(n, 3.0)),
    ('ramp', (i - n // 2).astype(float)),
    ('alternating', np.roll(np.where(i % 2 == 0, 1.0, -1.0) * (1 + i % 3), sd % n)),
    ('onehot', onehot),
    ('offset1e3', 1000.0 + 16.0 * ((i * 5) % 7 - 3)),
    ('outliers', np.where(out_pos, 496.0, ((i * 3) % 11 - 5) * 0.5)),
  ]
  return [(nm, p.reshape(shape)) for nm, p in pats]


def _in_enclosure(y, enc):
  ref, lo, hi = enc
  y = _f64(y)
  if y.shape != ref.shape:
    return False
  with np.errstate(invalid='ignore'):
    ok = ((y >= lo) & (y <= hi)) | (np.isnan(ref) & np.isnan(y))
  return bool(np.all(ok))


def _norm_nnx(kind, c, F, kw):
  from flax import nnx
  r = nnx.Rngs(0)
  if kind == 'layernorm':
    return nnx.LayerNorm(F, reduction_axes=_t(c['red']), feature_axes=_t(c['feat']), rngs=r, **kw)
  if kind == 'rmsnorm':
    kw = {k: v for k, v in kw.items() if k not in ('use_bias', 'bias_init')}
    return nnx.RMSNorm(F, reduction_axes=_t(c['red']), feature_axes=_t(c['feat']), rngs=r, **kw)
  raise KeyError(kind)


def _run_norm(ctx, c, dt=(None, 'f32', 'f32')):
  """LayerNorm, RMSNorm, InstanceNorm (Linen only), GroupNorm."""
  import jax
  import flax.linen as nn
  from flax import nnx
  dtype, pdt, xdt = dt
  kind, shape = c['kind'], tuple(c['shape'])
  nd = len(shape)
  use_bias = bool(c.get('bias', 0)) and kind != 'rmsnorm'
  use_scale = bool(c['scale'])
  eps, fast = c['eps'], bool(c['fast'])
  mask = _norm_mask(c['mask'], shape)
  kw = dict(epsilon=eps, dtype=_jdt(dtype), param_dtype=_jdt(pdt), use_scale=use_scale,
            use_fast_variance=fast, scale_init=_zeros_init)
  if kind != 'rmsnorm':
    kw.update(use_bias=use_bias, bias_init=_zeros_init)
  x0 = _arr(np.zeros(shape), xdt)
  reason = None
  nm = None
  if kind in ('layernorm', 'rmsnorm'):
    red, feat = _t(c['red']), _t(c['feat'])
    fa = R.norm_axes(feat, nd)
    fshape = tuple(shape[a] for a in fa)
    lm = (nn.LayerNorm if kind == 'layernorm' else nn.RMSNorm)(
      reduction_axes=red, feature_axes=feat, **kw)
    mk_nnx = lambda: _norm_nnx(kind, c, int(np.prod(fshape)), kw)
    ref = functools.partial(R.layer_norm, reduction_axes=red, feature_axes=feat, eps=eps,
                            use_mean=kind == 'layernorm', fast=fast)
  elif kind == 'instancenorm':
    feat = _t(c['feat'])
    fa = R.norm_axes(feat, nd)
    fshape = tuple(shape[a] for a in fa)
    lm = nn.InstanceNorm(feature_axes=feat, **kw)
    mk_nnx = None
    if 0 in fa:
      reason = 'instancenorm-batch-axis-as-feature'
    red = tuple(a for a in range(1, nd) if a not in fa)
    ref = functools.partial(R.layer_norm, reduction_axes=red, feature_axes=feat, eps=eps,
                            fast=fast)
  else:   # groupnorm
    how, val = c['grp']
    C = shape[-1]
    red = _t(c['red'])
    gkw = {'ng': dict(num_groups=val), 'gs': dict(num_groups=None, group_size=val),
           'both': dict(num_groups=val, group_size=val),
           'neither': dict(num_groups=None, group_size=None)}[how]
    lm = nn.GroupNorm(reduction_axes=red, **gkw, **kw)
    mk_nnx = lambda: nnx.GroupNorm(C, reduction_axes=red, rngs=nnx.Rngs(0), **gkw, **kw)
    fshape = (C,)
    if how in ('both', 'neither'):
      reason = 'groupnorm-needs-exactly-one-of-num_groups-group_size'
    elif C % val:
      reason = 'groupnorm-groups-do-not-divide-channels'
    else:
      ng = val if how == 'ng' else C // val
      ref = functools.partial(R.group_norm, num_groups=ng, reduction_axes=red, eps=eps, fast=fast)
  if reason is not None:
    _expect_reject(ctx, reason, lambda: lm.init(jax.random.key(0), x0),
                   None if mk_nnx is None else (lambda: mk_nnx()(x0)))
    return
  nf = int(np.prod(fshape))
  want = {}
  if use_scale:
    want['scale'] = fshape
  if use_bias:
    want['bias'] = fshape
  try:
    v = lm.init(jax.random.key(0), x0)
    ctx.res['evals'] += 1
  except Exception as e:
    ctx.viol('linen-raises', f'Linen init raised {_exc(e)} on an accepted configuration')
    return
  if not _check_params(ctx, 'linen', v.get('params', {}), want, pdt):
    return
  if mk_nnx is not None:
    try:
      nm = mk_nnx()
    except Exception as e:
      ctx.viol('nnx-raises', f'NNX constructor raised {_exc(e)} on an accepted configuration')
      nm = None
    if nm is not None:
      got = {k: getattr(nm, k).value for k in ('scale', 'bias')
             if getattr(nm, k, None) is not None}
      _check_params(ctx, 'nnx', got, {k: (nf,) for k in want}, pdt)
  sc = np.array(SCALE[:nf]).reshape(fshape) if use_scale else None
  bi = np.array(BIAS[:nf]).reshape(fshape) if use_bias else None
  P = {}
  if use_scale:
    P['scale'] = _arr(sc, pdt)
  if use_bias:
    P['bias'] = _arr(bi, pdt)
  if nm is not None:
    for k_, v_ in P.items():
      getattr(nm, k_).value = v_.reshape(-1)
  exp_dt = R.out_dtype(dtype, xdt, pdt if use_scale else None, pdt if use_bias else None)
  mj = None if mask is None else _arr(mask, None)
  refs = []
  for pname, x in _norm_patterns(shape, mask):
    enc = ref(x, scale=sc, bias=bi, mask=mask, u_out=R.UNIT[exp_dt])
    refs.append(np.nan_to_num(enc[0]))
    xj = _arr(x, xdt)
    try:
      yl = np.asarray(lm.apply({'params': P} if P else {}, xj, mask=mj))
      ctx.res['evals'] += 1
    except Exception as e:
      ctx.viol('linen-raises', f'Linen raised {_exc(e)} on an accepted configuration',
               pattern=pname)
      return
    if _dname(yl) != exp_dt or not _in_enclosure(yl, enc):
      ctx.viol('linen-vs-ref', f'Linen {kind} output outside the float32 enclosure of the '
               f'documented formula (pattern {pname}, dtype {_dname(yl)} vs {exp_dt})',
               observed=yl, expected=enc[0], pattern=pname, x=_small(x))
    if nm is not None:
      try:
        yn = np.asarray(nm(xj, mask=mj))
        ctx.res['evals'] += 1
      except Exception as e:
        ctx.viol('nnx-raises', f'NNX raised {_exc(e)} on an accepted configuration',
                 pattern=pname)
        nm = None
        continue
      if _bits(yn) != _bits(yl):
        ctx.viol('linen-vs-nnx', f'NNX {kind} output is not bitwise equal to Linen (pattern '
                 f'{pname})', observed=yn, expected=yl, pattern=pname, x=_small(x))
      if _dname(yn) != exp_dt or not _in_enclosure(yn, enc):
        ctx.viol('nnx-vs-ref', f'NNX {kind} output outside the float32 enclosure of the '
                 f'documented formula (pattern {pname})', observed=yn, expected=enc[0],
                 pattern=pname, x=_small(x))
  ctx.nontrivial(*refs)
  ctx.outcome(f'{kind}:ok' if not ctx.bad else f'{kind}:MISMATCH')
  ctx.sample(feature_shape=list(fshape), patterns=6)


def _run_batchnorm(ctx, c, dt=(None, 'f32', 'f32')):
  import jax
  import flax.linen as nn
  from flax import nnx
  dtype, pdt, xdt = dt
  shape, axis, mom, eps = tuple(c['shape']), c['axis'], c['mom'], c['eps']
  use_bias, use_scale, fast = bool(c['bias']), bool(c['scale']), bool(c['fast'])
  train, at = c['mode'] == 'train', c['at']
  nd = len(shape)
  F = shape[axis % nd]
  mask = _norm_mask(c['mask'], shape)
  ura = not train
  kw = dict(axis=axis, momentum=mom, epsilon=eps, dtype=_jdt(dtype), param_dtype=_jdt(pdt),
            use_bias=use_bias, use_scale=use_scale, use_fast_variance=fast,
            scale_init=_zeros_init, bias_init=_zeros_init)
  lm = nn.BatchNorm(use_running_average=ura if at == 'ctor' else None, **kw)
  call = () if at == 'ctor' else (ura,)
  x0 = _arr(np.zeros(shape), xdt)
  try:
    v = lm.init(jax.random.key(0), x0, *call)
    # NNX: the constructor flag defaults to False; the call argument overrides it
    nm = nnx.BatchNorm(F, use_running_average=ura if at == 'ctor' else (not ura),
                       rngs=nnx.Rngs(0), **kw)
    ctx.res['evals'] += 1
  except Exception as e:
    ctx.viol('raises', f'constructor/init raised {_exc(e)}')
    return
  want = {}
  if use_scale:
    want['scale'] = (F,)
  if use_bias:
    want['bias'] = (F,)
  got = {k: getattr(nm, k).value for k in ('scale', 'bias') if getattr(nm, k, None) is not None}
  if not (_check_params(ctx, 'linen', v.get('params', {}), want, pdt)
          and _check_params(ctx, 'nnx', got, want, pdt)):
    return
  # "during initialization the running average of the batch statistics will not
  # be updated": init returns mean 0 / var 1, float32
  bs = v.get('batch_stats', {})
  for api, m_, v_ in (('linen', bs.get('mean'), bs.get('var')),
                      ('nnx', nm.mean.value, nm.var.value)):
    if m_ is None or _bits(m_) != _bits(np.zeros(F, np.float32)) or \
       _bits(v_) != _bits(np.ones(F, np.float32)):
      ctx.viol(f'{api}-initial-stats', f'{api} running statistics do not start at mean 0 / '
               'var 1 (float32)', observed=repr(bs))
      return
  sc = np.array(SCALE[:F]) if use_scale else None
  bi = np.array(BIAS[:F]) if use_bias else None
  P = {}
  if use_scale:
    P['scale'] = _arr(sc, pdt)
  if use_bias:
    P['bias'] = _arr(bi, pdt)
  for k_, v_ in P.items():
    getattr(nm, k_).value = v_
  exp_dt = R.out_dtype(dtype, xdt, pdt if use_scale else None, pdt if use_bias else None)
  mj = None if mask is None else _arr(mask, None)
  # the running statistics are carried through the six patterns (a history of
  # six steps); every step is checked against the state the previous one left
  rm = np.array([0.5, -1.0, 2.0, 0.25][:F], np.float32)
  rv = np.array([2.0, 0.5, 4.0, 1.0][:F], np.float32)
  refs = []
  for pname, x in _norm_patterns(shape, mask):
    y_ref, lo, hi, (nm_ref, nm_tol), (nv_ref, nv_tol) = R.batch_norm(
      x, axis=axis, eps=eps, scale=sc, bias=bi, ra_mean=rm, ra_var=rv, momentum=mom,
      train=train, mask=mask, fast=fast, u_out=R.UNIT[exp_dt])
    refs.append(np.nan_to_num(y_ref))
    xj = _arr(x, xdt)
    variables = {'batch_stats': {'mean': _arr(rm), 'var': _arr(rv)}}
    if P:
      variables['params'] = P
    nm.mean.value, nm.var.value = _arr(rm), _arr(rv)
    try:
      yl, upd = lm.apply(variables, xj, *call, mask=mj, mutable=['batch_stats'])
      yn = nm(xj, *call, mask=mj)
      ctx.res['evals'] += 2
    except Exception as e:
      ctx.viol('raises', f'BatchNorm raised {_exc(e)} on an accepted configuration',
               pattern=pname)
      return
    yl, yn = np.asarray(yl), np.asarray(yn)
    lmean, lvar = np.asarray(upd['batch_stats']['mean']), np.asarray(upd['batch_stats']['var'])
    nmean, nvar = np.asarray(nm.mean.value), np.asarray(nm.var.value)
    for api, y in (('linen', yl), ('nnx', yn)):
      if _dname(y) != exp_dt or not _in_enclosure(y, (y_ref, lo, hi)):
        ctx.viol(f'{api}-vs-ref', f'{api} BatchNorm output outside the float32 enclosure of '
                 f'the documented formula (pattern {pname}, mode {c["mode"]})', observed=y,
                 expected=y_ref, pattern=pname, x=_small(x), ra_mean=rm.tolist(),
                 ra_var=rv.tolist())
    for api, m_, v_ in (('linen', lmean, lvar), ('nnx', nmean, nvar)):
      if not train:
        if _bits(m_) != _bits(rm) or _bits(v_) != _bits(rv):
          ctx.viol(f'{api}-stats-inference', f'{api} running statistics changed in inference '
                   'mode (must stay bit-identical)', observed=[m_.tolist(), v_.tolist()],
                   expected=[rm.tolist(), rv.tolist()], pattern=pname)
      else:
        with np.errstate(invalid='ignore'):
          okm = np.all((np.abs(_f64(m_) - nm_ref) <= nm_tol) | (np.isnan(nm_ref) & np.isnan(m_)))
          okv = np.all((np.abs(_f64(v_) - nv_ref) <= nv_tol) | (np.isnan(nv_ref) & np.isnan(v_)))
        if _dname(m_) != 'f32' or _dname(v_) != 'f32' or not (okm and okv):
          ctx.viol(f'{api}-stats-update', f'{api} running statistics differ from '
                   f'momentum*old + (1-momentum)*batch (pattern {pname})',
                   observed=[_f64(m_).tolist(), _f64(v_).tolist()],
                   expected=[nm_ref.tolist(), nv_ref.tolist()], pattern=pname, x=_small(x),
                   old=[rm.tolist(), rv.tolist()])
    if _bits(yl) != _bits(yn):
      ctx.viol('linen-vs-nnx', f'BatchNorm outputs differ bitwise (pattern {pname})',
               observed=yn, expected=yl, pattern=pname)
    if _bits(lmean) != _bits(nmean) or _bits(lvar) != _bits(nvar):
      ctx.viol('linen-vs-nnx-stats', f'BatchNorm state updates differ bitwise (pattern {pname})',
               observed=[nmean.tolist(), nvar.tolist()], expected=[lmean.tolist(), lvar.tolist()],
               pattern=pname)
    if ctx.bad:
      break
    if np.all(np.isfinite(lmean)) and np.all(np.isfinite(lvar)):
      rm, rv = lmean.astype(np.float32), lvar.astype(np.float32)
  ctx.nontrivial(*refs)
  ctx.outcome(f"batchnorm:{c['mode']}:ok" if not ctx.bad else 'batchnorm:MISMATCH')
  ctx.sample(final_running_mean=rm.tolist(), final_running_var=rv.tolist())


_RUN.update(layernorm=_run_norm, rmsnorm=_run_norm, instancenorm=_run_norm, groupnorm=_run_norm,
            batchnorm=_run_batchnorm)


# --------------------------------------------------------------------------
# Dropout

_NKEYS = 8


def _dropout_data(shape, xdt):
  """Two data tensors without zeros, multiples of 3 (x/0.75 and x/0.5 exact)."""
  n = int(np.prod(shape))
  i = np.arange(n)
  a = 3.0 * (1 + i % 5) * np.where(i % 3 == 0, -1.0, 1.0)
  b = 3.0 * (2 + (i * 7) % 4)
  return a.reshape(shape), b.reshape(shape)


def _run_dropout(ctx, c):
  import jax
  import flax.linen as nn
  from flax import nnx
  rate, det, at = c['rate'], bool(c['det']), c['at']
  shape, bd, xdt = tuple(c['shape']), tuple(c['bd']), c['xdt']
  nd = len(shape)
  bdn = tuple(sorted(d % nd for d in bd))
  xa, xb = _dropout_data(shape, xdt)
  ja, jb = _arr(xa, xdt), _arr(xb, xdt)
  lm = nn.Dropout(rate, broadcast_dims=bd, deterministic=det if at == 'ctor' else None)
  lcall = {} if at == 'ctor' else dict(deterministic=det)
  sd = _seed()
  seeds = [1000 + 17 * ((sd + j) % 64) + j for j in range(_NKEYS)]

  def linen(x, key, explicit=None):
    if explicit is not None:
      return np.asarray(lm.apply({}, x, rng=explicit, **lcall))
    return np.asarray(lm.apply({}, x, rngs={'dropout': key}, **lcall))

  def mk_nnx(key):
    return nnx.Dropout(rate, broadcast_dims=bd, deterministic=det if at == 'ctor' else (not det),
                       rngs=nnx.Rngs(dropout=key))

  def nnxf(x, key):
    return np.asarray(mk_nnx(key)(x, **lcall))
  label = None
  try:
    k0 = jax.random.key(seeds[0])
    if det or rate == 0.0:
      # identity, bitwise, no key needed
      for api, y in (('linen', np.asarray(lm.apply({}, ja, **lcall))), ('nnx', nnxf(ja, k0))):
        ctx.res['evals'] += 1
        if _bits(y) != _bits(np.asarray(ja)):
          ctx.viol(f'{api}-identity', f'{api} Dropout is not the identity when deterministic '
                   'or at rate 0', observed=y, expected=np.asarray(ja))
      label = 'dropout:identity'
    elif rate == 1.0:
      for api, y in (('linen', linen(ja, k0)), ('nnx', nnxf(ja, k0))):
        ctx.res['evals'] += 1
        if _bits(y) != _bits(np.zeros_like(np.asarray(ja))):
          ctx.viol(f'{api}-rate1', f'{api} Dropout at rate 1 is not all zeros', observed=y)
      label = 'dropout:zeros'
    else:
      keep = 1.0 - rate
      free = int(np.prod([shape[d] for d in range(nd) if d not in bdn]))
      for api in ('linen', 'nnx'):
        f = linen if api == 'linen' else nnxf
        masks = []
        for s_ in seeds:
          k = jax.random.key(s_)
          ya, yb = f(ja, k), f(jb, k)
          ctx.res['evals'] += 2
          za, zb = _f64(ya) == 0, _f64(yb) == 0
          masks.append(za.tobytes())
          if _dname(ya) != xdt or ya.shape != shape:
            ctx.viol(f'{api}-shape', f'{api} Dropout changed shape/dtype', observed=ya)
          if not np.array_equal(za, zb):
            ctx.viol(f'{api}-mask-depends-on-data', f'{api} Dropout: the zero pattern under '
                     'one key differs between two data tensors', observed=za.astype(int),
                     expected=zb.astype(int), key_seed=s_)
          for x_, y_, z_ in ((xa, ya, za), (xb, yb, zb)):
            exp = np.where(z_, 0.0, x_ / keep)
            if not np.array_equal(_f64(y_), exp):
              ctx.viol(f'{api}-survivors', f'{api} Dropout survivors are not x/(1-rate)',
                       observed=y_, expected=exp, key_seed=s_)
          # broadcast_dims share one mask entry
          for d in bdn:
            if not np.all(za == np.take(za, [0], axis=d)):
              ctx.viol(f'{api}-broadcast', f'{api} Dropout mask varies along broadcast dim {d}',
                       observed=za.astype(int), key_seed=s_)
          # key determined: same key twice -> same output
          if _bits(f(ja, k)) != _bits(ya):
            ctx.viol(f'{api}-nondeterministic', f'{api} Dropout differs between two calls with '
                     'the same key', key_seed=s_)
          ctx.res['evals'] += 1
        if free >= 6 and len(set(masks)) < 2:
          ctx.viol(f'{api}-key-ignored', f'{api} Dropout produced the same mask for '
                   f'{_NKEYS} different keys ({free} free mask entries)')
        if free >= 6:
          # non-broadcast dims must be able to vary: over the key pool the mask
          # is not constant along any non-broadcast dim of size >= 3
          allz = np.stack([np.frombuffer(m, bool).reshape(shape) for m in masks])
          for d in range(nd):
            if d not in bdn and shape[d] >= 3 and \
               np.all(allz == np.take(allz, [0], axis=d + 1)):
              ctx.viol(f'{api}-over-broadcast', f'{api} Dropout mask is constant along '
                       f'non-broadcast dim {d} for all {_NKEYS} keys')
        if free >= 4096:
          # drop frequency: n = free Bernoulli(rate) draws per key; 6 sigma
          frac = allz.reshape(_NKEYS, -1).mean(1)
          sig = (rate * (1 - rate) / free) ** 0.5
          if np.any(np.abs(frac - rate) > 6 * sig):
            ctx.viol(f'{api}-rate', f'{api} Dropout drop frequency is not the rate',
                     observed=frac.tolist(), expected=rate)
      # same key material -> Linen and NNX agree: NNX draws its key from the
      # 'dropout' stream; a twin stream yields that key for Linen's rng argument
      for s_ in seeds[:3]:
        k = jax.random.key(s_)
        kn = nnx.Rngs(dropout=k).dropout()
        yl, yn = linen(ja, None, explicit=kn), nnxf(ja, k)
        ctx.res['evals'] += 2
        if _bits(yl) != _bits(yn):
          ctx.viol('linen-vs-nnx', 'Dropout outputs differ under the same key', observed=yn,
                   expected=yl, key_seed=s_)
      label = f'dropout:random:free{min(free, 99)}'
  except Exception as e:
    ctx.viol('raises', f'Dropout raised {_exc(e)}')
    return
  ctx.res['nontrivial'].append(core.h(['dropout', rate, det, shape, bdn, xdt]))
  ctx.outcome(label if not ctx.bad else 'dropout:MISMATCH')
  ctx.sample(key_seeds=seeds)


_RUN['dropout'] = _run_dropout


# --------------------------------------------------------------------------
# dtype / param_dtype grid: representative configurations of every layer under
# every (dtype, param_dtype, input dtype); values stay exact (one-hot / small
# integers), the output dtype must be `dtype`, or the promotion of input and
# parameters when dtype is None, and the parameters must have param_dtype.

_DT_BASE = {
  'dense': [dict(kind='dense', nin=3, nout=2, bias=1, nb=1),
            dict(kind='dense', nin=2, nout=2, bias=0, nb=0)],
  'densegeneral': [dict(kind='densegeneral', shape=[2, 3], feats=[2, 2], axis=-1, bdims=[],
                        bias=1)],
  'einsum': [dict(kind='einsum', eq=['abc,cde->abde', [2, 2, 3], [3, 2, 2]], bias=1, at='ctor')],
  'conv': [dict(kind='conv', nd=1, sp=[5], k=[3], s=1, idil=1, kdil=1, g=1, pad='CIRCULAR',
                cin=2, cout=2, mb=[1, 1], nb=1),
           dict(kind='conv', nd=1, sp=[4], k=[2], s=2, idil=1, kdil=1, g=2, pad='SAME',
                cin=2, cout=2, mb=[0, 0], nb=2)],
  'convlocal': [dict(kind='convlocal', nd=1, sp=[4], k=[2], s=1, idil=1, kdil=1, g=1,
                     pad='VALID', cin=2, cout=1, mb=[0, 1], nb=1)],
  'convT': [dict(kind='convT', nd=1, sp=[3], k=[2], s=2, kdil=None, pad='SAME', tk=1, cin=2,
                 cout=3, mb=[0, 1], nb=1)],
  'embed': [dict(kind='embed', n=3, f=2, ishape=[3], idt='i32')],
  'layernorm': [dict(kind='layernorm', shape=[2, 3, 4], red=-1, feat=-1, bias=1, scale=1,
                     eps=1e-3, mask='none', fast=1),
                dict(kind='layernorm', shape=[2, 3, 4], red=[-2, -1], feat=-1, bias=0, scale=0,
                     eps=1e-3, mask='full', fast=0)],
  'rmsnorm': [dict(kind='rmsnorm', shape=[2, 3, 4], red=-1, feat=-1, scale=1, eps=1e-3,
                   mask='none', fast=1)],
  'groupnorm': [dict(kind='groupnorm', shape=[2, 3, 4], grp=['ng', 2], red=None, bias=1,
                     scale=1, eps=1e-3, mask='none', fast=1)],
  'instancenorm': [dict(kind='instancenorm', shape=[2, 3, 4], feat=-1, bias=1, scale=1,
                        eps=1e-3, mask='none', fast=1)],
  'batchnorm': [dict(kind='batchnorm', shape=[4, 3], axis=-1, mom=0.9, eps=1e-3, bias=1,
                     scale=1, mask='none', fast=1, mode='train', at='ctor'),
                dict(kind='batchnorm', shape=[4, 3], axis=-1, mom=0.9, eps=1e-3, bias=1,
                     scale=0, mask='none', fast=1, mode='eval', at='call')],
}


def _run_dtype(ctx, c):
  dt = (c['dtype'], c['pdt'], c['xdt'])
  for base in _DT_BASE[c['layer']]:
    sub = dict(base, fam='dtype')
    sub_ctx = _Ctx(ctx.res, dict(sub, dt=list(dt)))
    _RUN[base['kind']](sub_ctx, sub, dt)


_RUN['dtype'] = _run_dtype
