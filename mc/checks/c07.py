"""C07 — lifted vjp / jvp / grad / value_and_grad / custom_vjp equal JAX autodiff of
the pure apply function (DESIGN §4 C07).  Linear maps are decided on a basis:
the full Jacobian is obtained from every one-hot cotangent / tangent.
"""
from __future__ import annotations

import itertools
import os

import numpy as np

from mc.engine import core
from mc.engine.canon import jsonable

PROPERTY = 'C07'
LEVEL = 'exploration'
RULE = ('differentiable inner modules (feature flags: second parameter, constants collection '
        '`extra`, counter variable, nested child) x vjp_variables / variable_tangents in {params, '
        '[params, extra], True, False/{}} x has_aux x 1-2 primals x primal pytree {array, dict} x '
        '{nn.vjp, nn.jvp, nn.grad, nn.value_and_grad, nn.custom_vjp}; every one-hot cotangent '
        '(vjp) / tangent (jvp) is fed, so the whole Jacobian is compared with jax.vjp / jax.jvp / '
        'jax.grad of the pure apply function. Non-trivial: at least one variable collection is '
        'differentiated; distinct by configuration')
ASSUMPTIONS = [
  'tolerance 1e-6 relative / 1e-7 absolute: both sides differentiate the same primitives, the '
  'accumulation order may differ',
  'float32, small shapes (vector of 2); data from a fixed pool rotated by VERIF_SEED',
]

TOL = dict(rtol=1e-6, atol=1e-7)


def bounds(tier):
  return dict(flags=['second_param', 'extra', 'count', 'child'],
              vjp_variables=['params', ['params', 'extra'], True, False],
              primals=[1, 2], pytrees=['array', 'dict'], has_aux=[False, True])


def units(tier, seed):
  us = []
  flagsets = list(itertools.product([False, True], repeat=4))
  if tier == 'quick':
    flagsets = [f for f in flagsets if sum(f) in (0, 1, 4) or f == (True, True, False, False)]
  for fl in flagsets:
    for api in ('vjp', 'jvp', 'grad', 'custom_vjp'):
      us.append(dict(api=api, flags=list(fl)))
  return us


def _mods():
  import jax
  import jax.numpy as jnp
  import flax.linen as nn

  class Leaf(nn.Module):
    @nn.compact
    def __call__(self, x):
      v = self.param('v', lambda k: jnp.asarray([0.5, -1.5], jnp.float32))
      return x * v

  class G(nn.Module):
    flags: tuple = (False, False, False, False)

    @nn.compact
    def __call__(self, x, y=None):
      second, extra, count, child = self.flags
      if isinstance(x, dict):
        x = x['p'] + 2.0 * x['q']
      w = self.param('w', lambda k: jnp.asarray([2.0, 3.0], jnp.float32))
      h = jnp.tanh(x * w * 0.25)
      if second:
        s = self.param('s', lambda k: jnp.asarray(0.5, jnp.float32))
        h = h * s + s * s
      # reads are tolerant of a collection that was not lifted into a transform (the `variables`
      # filter of nn.grad): the module then computes what it computes without that collection
      if extra and (self.is_initializing() or self.has_variable('extra', 'e')):
        e = self.variable('extra', 'e', lambda: jnp.asarray([1.0, -1.0], jnp.float32)).value
        h = h + e * x * x
      if count and (self.is_initializing() or self.has_variable('cnt', 'c')):
        c = self.variable('cnt', 'c', lambda: jnp.zeros((), jnp.float32))
        if self.is_mutable_collection('cnt'):
          c.value = c.value + 1.0
        h = h + 0.0 * c.value
        self.sow('sown', 'h', h.sum())
      if child:
        h = h + Leaf()(x)
      if y is not None:
        if isinstance(y, dict):
          y = y['p'] * y['q']
        h = h + jnp.sin(y) * w
      return h

  return G, Leaf


_M = None


def M():
  global _M
  if _M is None:
    _M = _mods()
  return _M


def run_unit(unit):
  res = core.new_result()
  {'vjp': _vjp, 'jvp': _jvp, 'grad': _grad, 'custom_vjp': _custom}[unit['api']](
    res, tuple(unit['flags']))
  return res


def _data(seed, dict_form, second):
  import jax.numpy as jnp
  pool = [np.array([0.3, -0.7], np.float32), np.array([1.1, 0.4], np.float32),
          np.array([-0.9, 0.2], np.float32)]
  a, b = pool[seed % 3], pool[(seed + 1) % 3]
  x = {'p': jnp.asarray(a), 'q': jnp.asarray(b * 0.5)} if dict_form else jnp.asarray(a)
  y = ({'p': jnp.asarray(b), 'q': jnp.asarray(a + 1)} if dict_form else jnp.asarray(b)) \
      if second else None
  return x, y


def _close(a, b):
  import jax
  la, lb = jax.tree.leaves(a), jax.tree.leaves(b)
  if jax.tree.structure(a) != jax.tree.structure(b):
    return False
  return all(np.shape(p) == np.shape(q) and np.allclose(np.asarray(p), np.asarray(q), **TOL)
             for p, q in zip(la, lb))


def _sel(variables, flt):
  from mc.models.dsl import in_filter_ref
  return {c: v for c, v in variables.items() if in_filter_ref(flt, c)}


def _vjp(res, flags):
  import jax
  import jax.numpy as jnp
  import flax.linen as nn
  G, _ = M()
  seed = int(os.environ.get('VERIF_SEED', '0'))
  for vv in bounds('quick')['vjp_variables']:
    for has_aux in (False, True):
      for nprim in (1, 2):
        for dict_form in (False, True):
          cfg = dict(api='vjp', flags=list(flags), vjp_variables=vv, has_aux=has_aux,
                     primals=nprim, dict=dict_form)
          key = repr(sorted(cfg.items()))

          def V(tag, what, **kw):
            core.violation(res, f'vjp-{tag}|{key}', what,
                           dict(cfg, **{k: jsonable(v) for k, v in kw.items()}))
          x, y = _data(seed, dict_form, nprim == 2)
          prim = (x,) if y is None else (x, y)

          class Outer(nn.Module):
            @nn.compact
            def __call__(self, *prim):
              def fn(m, *p):
                out = m(*p)
                return (out, {'aux': out * 2.0}) if has_aux else out
              g = G(flags=flags, name='g')
              r = nn.vjp(fn, g, *prim, has_aux=has_aux, vjp_variables=vv)
              out, bwd = r[0], r[1]
              cts = [bwd(jnp.eye(2, dtype=jnp.float32)[i]) for i in range(2)]
              return out, cts, (r[2] if has_aux else None)

          res['evals'] += 3
          try:
            variables = Outer().init(jax.random.key(0), *prim)
            (out, cts, aux), upd = Outer().apply(variables, *prim, mutable=['cnt'])
          except Exception as e:  # noqa
            V('raises', f'{type(e).__name__}: {str(e)[:300]}')
            continue
          inner = {c: v['g'] for c, v in variables.items()}
          sel = _sel(inner, vv)
          rest = {c: v for c, v in inner.items() if c not in sel}

          def pure(sel_vars, *p):
            return G(flags=flags).apply({**rest, **sel_vars}, *p)
          ref_out, ref_bwd = jax.vjp(pure, sel, *prim)
          if not _close(out, ref_out):
            V('primal', 'primal output differs from apply', observed=out, expected=ref_out)
          for i in range(2):
            ref_ct = ref_bwd(jnp.eye(2, dtype=jnp.float32)[i])
            vg, *ig = cts[i]
            if set(vg.keys()) != set(sel.keys()):
              V('collections', f'cotangent has collections {sorted(vg.keys())}, selected '
                f'{sorted(sel.keys())} (unselected collections must receive no entry)', ct=i)
              continue
            if not _close(vg, ref_ct[0]):
              V('var-cotangent', 'variable cotangent differs from jax.vjp of apply', ct=i,
                observed=vg, expected=ref_ct[0])
            if not _close(tuple(ig), tuple(ref_ct[1:])):
              V('input-cotangent', 'input cotangent differs from jax.vjp of apply', ct=i,
                observed=ig, expected=ref_ct[1:])
          if has_aux and not _close(aux, {'aux': ref_out * 2.0}):
            V('aux', 'aux output differs')
          if flags[2]:
            c0 = float(variables['cnt']['g']['c'])
            c1 = float(upd['cnt']['g']['c'])
            if c1 != c0 + 1.0:
              V('publish-once', f'counter went {c0} -> {c1} across one lifted call '
                '(mutable updates must be published exactly once)')
          core.outcome(res, f'vjp:ok:sel={len(sel)}')
          if sel:
            res['nontrivial'].append(core.h(key))
  res['samples'].append(dict(api='vjp', flags=list(flags)))


def _jvp(res, flags):
  import jax
  import jax.numpy as jnp
  import flax.linen as nn
  G, _ = M()
  seed = int(os.environ.get('VERIF_SEED', '0'))
  for vt in (['params'], ['params', 'extra'], [], ['params', 'cnt']):
    for nprim in (1, 2):
      for dict_form in (False, True):
        cfg = dict(api='jvp', flags=list(flags), variable_tangents=vt, primals=nprim,
                   dict=dict_form)
        key = repr(sorted(cfg.items()))

        def V(tag, what, **kw):
          core.violation(res, f'jvp-{tag}|{key}', what,
                         dict(cfg, **{k: jsonable(v) for k, v in kw.items()}))
        x, y = _data(seed, dict_form, nprim == 2)
        prim = (x,) if y is None else (x, y)
        g0 = G(flags=flags)
        inner = g0.init(jax.random.key(0), *prim)
        cols = [c for c in vt if c in inner]
        # basis of tangents: every leaf entry of the selected variables and of the primals
        flat_sel, tdef_sel = jax.tree.flatten({c: inner[c] for c in cols})
        flat_p, tdef_p = jax.tree.flatten(prim)
        sizes = [int(np.size(l)) for l in flat_sel + flat_p]
        total = sum(sizes)

        def basis(j):
          outs = []
          off = 0
          for l, n in zip(flat_sel + flat_p, sizes):
            t = np.zeros(n, np.float32)
            if off <= j < off + n:
              t[j - off] = 1.0
            outs.append(jnp.asarray(t.reshape(np.shape(l))))
            off += n
          return (jax.tree.unflatten(tdef_sel, outs[:len(flat_sel)]),
                  jax.tree.unflatten(tdef_p, outs[len(flat_sel):]))

        class Outer(nn.Module):
          @nn.compact
          def __call__(self, prim, vts, pts):
            g = G(flags=flags, name='g')
            out, tout = nn.jvp(lambda m, *p: m(*p), g, prim, pts, variable_tangents=vts)
            return out, tout

        outer_vars = {c: {'g': v} for c, v in inner.items()}
        rest = {c: v for c, v in inner.items() if c not in cols}

        def pure(sel_vars, *p):
          return G(flags=flags).apply({**rest, **sel_vars}, *p)
        ok = True
        for j in range(total):
          vts, pts = basis(j)
          res['evals'] += 2
          try:
            (out, tout), upd = Outer().apply(outer_vars, prim, vts, pts, mutable=['cnt'])
          except Exception as e:  # noqa
            V('raises', f'{type(e).__name__}: {str(e)[:300]}', basis=j)
            ok = False
            break
          ref_out, ref_t = jax.jvp(pure, ({c: inner[c] for c in cols},) + tuple(prim),
                                   (vts,) + tuple(pts))
          if not _close(out, ref_out):
            V('primal', 'primal output differs from apply', basis=j)
            ok = False
          if not _close(tout, ref_t):
            V('tangent', 'output tangent differs from jax.jvp of apply', basis=j,
              observed=tout, expected=ref_t)
            ok = False
          if flags[2] and float(upd['cnt']['g']['c']) != float(inner['cnt']['c']) + 1.0:
            V('publish-once', 'counter not increased by exactly one', basis=j)
            ok = False
        # tangents for an unselected collection must not enter
        unsel = [c for c in inner if c not in cols and c != 'cnt']  # (a selected cnt: zero tangent)
        if unsel and ok:
          res['evals'] += 1
          zero_p = jax.tree.map(jnp.zeros_like, prim)
          vts = {c: jax.tree.map(jnp.zeros_like, inner[c]) for c in cols}
          (o1, t1), _ = Outer().apply(outer_vars, prim, vts, zero_p, mutable=['cnt'])
          if any(np.any(np.asarray(l) != 0) for l in jax.tree.leaves(t1)):
            V('unselected', 'zero tangents on the selected inputs gave a non-zero output tangent '
              '(an unselected collection contributed)')
        core.outcome(res, f'jvp:ok:sel={len(cols)}')
        if cols:
          res['nontrivial'].append(core.h(key))
  res['samples'].append(dict(api='jvp', flags=list(flags)))


VSELS = [True, 'params', ['params', 'extra'], ['params', 'cnt']]


def _grad(res, flags):
  import jax
  import jax.numpy as jnp
  import flax.linen as nn
  G, _ = M()
  seed = int(os.environ.get('VERIF_SEED', '0'))
  for api in ('grad', 'value_and_grad'):
    for has_aux in (False, True):
      for nprim, dict_form, vsel in itertools.product((1, 2), (False, True), VSELS):
        if vsel is not True and (nprim == 2 or dict_form):
          continue        # the lifting filter is independent of the primal structure
        if True:
          cfg = dict(api=api, flags=list(flags), has_aux=has_aux, primals=nprim, dict=dict_form)
          if vsel is not True:
            cfg['variables'] = vsel
          key = repr(sorted(cfg.items()))
          sel = lambda c: vsel is True or c == vsel or (isinstance(vsel, list) and c in vsel)

          def V(tag, what, **kw):
            core.violation(res, f'{api}-{tag}|{key}', what,
                           dict(cfg, **{k: jsonable(v) for k, v in kw.items()}))
          x, y = _data(seed, dict_form, nprim == 2)
          prim = (x,) if y is None else (x, y)

          class Outer(nn.Module):
            @nn.compact
            def __call__(self, *prim):
              def fn(m, *p):
                out = (m(*p) * jnp.asarray([1.0, 2.0])).sum()
                return (out, {'aux': out + 1.0}) if has_aux else out
              g = G(flags=flags, name='g')
              f = nn.grad if api == 'grad' else nn.value_and_grad
              # (variables are created with everything lifted; the filter is for apply)
              kw = {} if vsel is True or self.is_initializing() else dict(variables=vsel)
              return f(fn, g, *prim, has_aux=has_aux, **kw)

          res['evals'] += 3
          try:
            variables = Outer().init(jax.random.key(0), *prim)
            r, upd = Outer().apply(variables, *prim, mutable=['cnt'])
          except Exception as e:  # noqa
            V('raises', f'{type(e).__name__}: {str(e)[:300]}')
            continue
          inner = {c: v['g'] for c, v in variables.items() if sel(c)}

          def pure(*p):
            o = (G(flags=flags).apply(inner, *p) * jnp.asarray([1.0, 2.0])).sum()
            return (o, {'aux': o + 1.0}) if has_aux else o
          argn = tuple(range(len(prim)))
          if api == 'grad':
            ref = jax.grad(pure, argnums=argn, has_aux=has_aux)(*prim)
          else:
            ref = jax.value_and_grad(pure, argnums=argn, has_aux=has_aux)(*prim)
          # normalise shapes: flax returns a single gradient (not a 1-tuple) for one primal
          def norm(r, ref):
            return r, ref
          got_leaves = jax.tree.leaves(r)
          ref_leaves = jax.tree.leaves(ref)
          if len(got_leaves) != len(ref_leaves) or not all(
              np.shape(a) == np.shape(b) and np.allclose(np.asarray(a), np.asarray(b), **TOL)
              for a, b in zip(got_leaves, ref_leaves)):
            V('value', f'nn.{api} differs from jax.{api} of the pure function',
              observed=r, expected=ref)
          if flags[2] and sel('cnt') and \
             float(upd['cnt']['g']['c']) != float(variables['cnt']['g']['c']) + 1.0:
            V('publish-once', 'counter not increased by exactly one')
          if flags[2] and not sel('cnt') and \
             float(upd['cnt']['g']['c']) != float(variables['cnt']['g']['c']):
            V('unlifted-write', 'a collection outside the `variables` filter was updated')
          core.outcome(res, f'{api}:ok')
          res['nontrivial'].append(core.h(key))
  res['samples'].append(dict(api='grad', flags=list(flags)))


def _custom(res, flags):
  import jax
  import jax.numpy as jnp
  import flax.linen as nn
  G, _ = M()
  seed = int(os.environ.get('VERIF_SEED', '0'))
  for gv in ('params', ['params', 'extra']):
    for dict_form in (False, True):
      cfg = dict(api='custom_vjp', flags=list(flags), grad_vars=gv, dict=dict_form)
      key = repr(sorted(cfg.items()))

      def V(tag, what, **kw):
        core.violation(res, f'custom_vjp-{tag}|{key}', what,
                       dict(cfg, **{k: jsonable(v) for k, v in kw.items()}))
      x, _ = _data(seed, dict_form, False)
      calls = dict(fwd=0, bwd=0)

      class Outer(nn.Module):
        use_custom: bool = True

        @nn.compact
        def __call__(self, x):
          def f(m, x):
            return m(x)

          def fwd(m, x):
            calls['fwd'] += 1
            return nn.vjp(f, m, x, vjp_variables=gv)

          def bwd(vjp_fn, y_t):
            calls['bwd'] += 1
            vt, *it = vjp_fn(y_t)
            vt = jax.tree.map(lambda a: jnp.sign(a) * 7.0, vt)
            return (vt, *it)
          g = G(flags=flags, name='g')
          if self.use_custom:
            return nn.custom_vjp(f, forward_fn=fwd, backward_fn=bwd, grad_vars=gv)(g, x)
          return f(g, x)

      res['evals'] += 4
      try:
        variables = Outer(False).init(jax.random.key(0), x)
        calls.update(fwd=0, bwd=0)
        out_c = Outer(True).apply(variables, x)
        n_fwd_plain, n_bwd_plain = calls['fwd'], calls['bwd']
        out_p = Outer(False).apply(variables, x)
        # differentiate w.r.t. the grad_vars collections only: like jax.custom_vjp, the
        # rule may not close over values that are being differentiated from outside
        from mc.models.dsl import in_filter_ref as _inf
        sel = {c: v for c, v in variables.items() if _inf(gv, c)}
        rest = {c: v for c, v in variables.items() if not _inf(gv, c)}
        loss = lambda sv, m: (m.apply({**rest, **sv}, x) * jnp.asarray([1.0, 2.0])).sum()
        g_c = jax.grad(loss)(sel, Outer(True))
        g_p = jax.grad(loss)(sel, Outer(False))
      except Exception as e:  # noqa
        V('raises', f'{type(e).__name__}: {str(e)[:300]}')
        continue
      if not all(np.array_equal(np.asarray(a), np.asarray(b))
                 for a, b in zip(jax.tree.leaves(out_c), jax.tree.leaves(out_p))):
        V('forward', 'forward value under custom_vjp differs from the original function',
          observed=out_c, expected=out_p)
      # forward-pass updates of collections outside grad_vars are published (once), and
      # initialisation through the custom_vjp function creates the same variables
      res['evals'] += 4
      try:
        oc, uc = Outer(True).apply(variables, x, mutable=['cnt', 'sown'])
        op_, up = Outer(False).apply(variables, x, mutable=['cnt', 'sown'])
        if jax.tree.structure(uc) != jax.tree.structure(up) or not all(
            np.array_equal(np.asarray(a), np.asarray(b))
            for a, b in zip(jax.tree.leaves(uc), jax.tree.leaves(up))):
          V('mutable-updates', 'mutable-collection updates under custom_vjp differ from the '
            'original function (must be published exactly once)',
            observed=jax.tree.map(lambda a: np.asarray(a).tolist(), uc),
            expected=jax.tree.map(lambda a: np.asarray(a).tolist(), up))
        vi_c = Outer(True).init(jax.random.key(0), x)
        vi_p = Outer(False).init(jax.random.key(0), x)
        if jax.tree.structure(vi_c) != jax.tree.structure(vi_p) or not all(
            np.array_equal(np.asarray(a), np.asarray(b))
            for a, b in zip(jax.tree.leaves(vi_c), jax.tree.leaves(vi_p))):
          V('init', 'init through the custom_vjp function gives different variables')
      except Exception as e:  # noqa
        V('mutable-raises', f'{type(e).__name__}: {str(e)[:300]}')
      if n_bwd_plain != 0:
        V('rule-used-without-diff', 'the backward rule ran although nothing was differentiated')
      if calls['bwd'] == 0:
        V('rule-unused', 'the backward rule did not run under jax.grad')
      from mc.models.dsl import in_filter_ref
      for c in g_p:
        for path, gp in jax.tree_util.tree_leaves_with_path(g_p[c]):
          gc = g_c[c]
          for k in path:
            gc = gc[k.key]
          if in_filter_ref(gv, c):
            want = np.sign(np.asarray(gp)) * 7.0
            if not np.allclose(np.asarray(gc), want, **TOL):
              V('rule', f'gradient of {c}{path} is not the user rule\'s (sign*7)',
                observed=gc, expected=want)
          else:
            # collections outside grad_vars: no cotangent flows through the custom rule
            pass
      core.outcome(res, 'custom_vjp:ok')
      res['nontrivial'].append(core.h(key))
  res['samples'].append(dict(api='custom_vjp', flags=list(flags)))
