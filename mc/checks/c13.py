"""C13 — attention / RNN: stepwise = whole; masks and padding inert (DESIGN §4 C13).

Bounded-exhaustive enumeration of configurations (heads, feature sizes, T,
batch shape, bias, EVERY boolean T x T mask for T <= 3, structured masks for
T = 4; every cell type x T x batch x all seq_lengths x flags) run on the real
flax code and compared with NumPy float64 references (mc/models/c13_ref.py),
with plain Python loops over the real cell, and — for non-interference — with
the same call on inputs that differ only at ignored positions (bitwise).

Sections (unit['sec']):
  fn   functional dot_product_attention(_weights), Linen and NNX
  mha  Linen MultiHeadDotProductAttention / NNX MultiHeadAttention, self and cross form
  dec  decode=True stepwise loop vs one causal pass, garbage in the unwritten cache
  rnn  RNN / Bidirectional over every cell, flag combination and seq_lengths vector
  cell one cell step vs the documented recurrence; Linen == NNX (LSTM), LSTM == OptimizedLSTM
"""
from __future__ import annotations

import itertools
import os

import numpy as np

from mc.engine import core
from mc.models import c13_ref as R

PROPERTY = 'C13'
LEVEL = 'exploration'
RULE = ('attention: heads x head/feature sizes x T in 1..4 x batch shape {(),(2,)} x bias on/off x '
        'EVERY boolean T x T mask for T <= 3 (2 + 16 + 512) and the structured masks (none, all, causal, '
        'anti-causal, diagonal, band, key/query padding by every length, causal+padding, every single '
        'hole; causal/padding/combined built with flax\'s make_causal_mask / make_attention_mask / '
        'combine_masks) for every T, on the functional API and on the Linen/NNX modules (self and cross '
        'form); decode: every mask on the lower triangle for T <= 3, structured for T = 4; RNN: every '
        'cell type (Linen 6, NNX 4) x T in 1..4 x batch {(),(2,)} x seq_lengths None or every vector in '
        '[1,T]^batch x reverse x keep_order x time_major x return_carry, and Bidirectional x time_major x '
        'return_carry. For each case every ignored position is perturbed by +1e3, -1e3 and the value of '
        'another position, one at a time and all at once (all at once also by +1e6). A case is non-trivial when something is '
        'ignored or re-indexed: a mask with a masked entry in a defined row, a decode step, a '
        'seq_length < T, reverse or Bidirectional; distinct = distinct (section, API path, '
        'configuration, mask / seq_lengths).')
ASSUMPTIONS = [
  'data and parameters come from a fixed pool of small multiples of 0.25 (VERIF_SEED rotates the pool '
  'member); the claim is about structure (masks, lengths, flags, shapes), not about all real inputs',
  'float32, dropout off, default precision, single CPU device; perturbation sweeps run the real flax '
  'code under jax.jit (one compile per configuration), base cases and decode also run eagerly',
  'rows whose mask allows no key are excluded (the property does not define them); outputs of an RNN at '
  'positions >= seq_length are not constrained (documented as not zeroed)',
  'ConvLSTMCell: channel layout (i, g, f, o), bias = b_ih + b_hh and XLA SAME padding are taken as given',
  'batch shapes () and (2,): RNN seq_lengths with more than one batch dimension is not exercised',
]

TOL_W = 1e-6     # weights vs float64 softmax: |err| <= ~3 ulp(logit) ~ 4 * 3 * 6e-8 < 1e-6 (|logit| <= 4)
TOL_STEP = 1e-6  # stepwise vs whole: same float32 math, different contraction order (relative to scale)
TOL_CELL = 1e-5  # float32 cell vs float64 recurrence over <= 4 steps (relative to scale)
KINDS = ('+', '-', 'o')  # +1e3, -1e3, value of another position
# 'B' (+1e6) is added to the all-at-once perturbations only: it was introduced after a mutant that
# masks additively (logit - 1e4 instead of where(mask, logit, finfo.min)) survived +-1e3.
MAXV = 12        # violations recorded per unit (all are counted)


def _seed():
  return int(os.environ.get('VERIF_SEED', '0') or 0)


def _tier():
  return os.environ.get('VERIF_TIER', 'quick')


def setup_worker():
  import jax  # noqa
  import flax  # noqa
  import flax.linen  # noqa
  from flax import nnx  # noqa


# --------------------------------------------------------------------------
# small helpers


def _np(x):
  return np.asarray(x)


def _close(a, b, tol, sel=None):
  """max |a - b| <= tol * max(1, max |b|) on the selected entries."""
  a = np.asarray(a, np.float64)
  b = np.asarray(b, np.float64)
  if a.shape != b.shape:
    return False, f'shape {a.shape} vs {b.shape}'
  if sel is not None:
    a = a[sel]
    b = b[sel]
  if a.size == 0:
    return True, 0.0
  if not (np.all(np.isfinite(a)) and np.all(np.isfinite(b))):
    return False, 'non-finite'
  err = float(np.max(np.abs(a - b)))
  return err <= tol * max(1.0, float(np.max(np.abs(b)))), err


def _bits(a):
  a = np.ascontiguousarray(np.asarray(a))
  if a.dtype == np.float32:
    return a.view(np.uint32)
  if a.dtype == np.float64:
    return a.view(np.uint64)
  return a


def _same_bits(a, b, sel=None):
  a = np.asarray(a)
  b = np.asarray(b)
  if a.shape != b.shape or a.dtype != b.dtype:
    return False
  ua, ub = _bits(a), _bits(b)
  if sel is not None:
    ua, ub = ua[sel], ub[sel]
  return bool(np.array_equal(ua, ub))


def _nb(B):
  return int(np.prod(B)) if len(B) else 1


def _bidx(B, n):
  return tuple(np.unravel_index(n, B)) if len(B) else ()


class _Ctx:
  """Per-unit bookkeeping: result dict, capped violations, seed-independent labels."""

  def __init__(self, unit):
    self.res = core.new_result()
    self.unit = unit
    self.nviol = 0
    self.res['extra'] = dict(comparisons_bitwise=0, comparisons_reference=0,
                             rows_excluded_fully_masked=0, violations_total=0)
    self.sanity = 0  # perturbations of attended / valid positions that did change something

  def V(self, clause, path, cfg, detail, what, observed=None, expected=None, **case):
    self.nviol += 1
    self.res['extra']['violations_total'] += 1
    if self.nviol > MAXV:
      return
    key = f'{clause}|{path}|{cfg}|{detail}'
    core.violation(self.res, key, what, dict(clause=clause, path=path, cfg=cfg, detail=detail,
                                            **{k: _j(v) for k, v in case.items()}),
                   observed=_j(observed), expected=_j(expected))

  def ev(self, n=1):
    self.res['evals'] += n

  def out(self, label, n=1):
    core.outcome(self.res, label, n)

  def nontrivial(self, *parts):
    self.res['nontrivial'].append(core.h(list(parts)))

  def sample(self, **kw):
    if len(self.res['samples']) < 2:
      self.res['samples'].append({k: _j(v) for k, v in kw.items()})


def _j(x):
  if isinstance(x, np.ndarray):
    return np.round(x.astype(np.float64), 7).tolist() if x.dtype.kind == 'f' else x.tolist()
  if isinstance(x, (np.floating, np.integer, np.bool_)):
    return x.item()
  if isinstance(x, (list, tuple)):
    return [_j(v) for v in x]
  if isinstance(x, dict):
    return {str(k): _j(v) for k, v in x.items()}
  return x


def _perturb(arrs, keys, B, T, positions, kind, other=None):
  """Copy of `arrs` with arrs[k][b, j] changed for k in keys, (n, j) in positions."""
  out = dict(arrs)
  for k in keys:
    a = np.array(arrs[k], copy=True)
    for n, j in positions:
      ix = _bidx(B, n) + (j,)
      if kind == '+':
        a[ix] = arrs[k][ix] + np.float32(1e3)
      elif kind == '-':
        a[ix] = arrs[k][ix] - np.float32(1e3)
      elif kind == 'B':
        a[ix] = arrs[k][ix] + np.float32(1e6)
      else:
        jo = (j + 1) % T if other is None else other
        a[ix] = arrs[k][_bidx(B, n) + (jo,)]
    out[k] = a
  return out


def _noninterference(cx, path, cfg, detail, run, arrs, keys, B, T, views, self_form=False,
                     kinds=KINDS):
  """views: list of (name, ign [nb,H',T,T], valid [nb,H',T]); run(arrs) -> list of row
  arrays [nb,H',T,feat] (one per view).  Row (n,h,i) must be bitwise unchanged when a
  position (n,j) with ign[n,h,i,j] is perturbed."""
  nb = _nb(B)
  base = run(arrs)
  cx.ev()
  kinds = tuple(k for k in kinds if k != 'o' or T > 1)
  ncmp = 0

  def compare(positions, sels, kind, label):
    nonlocal ncmp
    out = run(_perturb(arrs, keys, B, T, positions, kind))
    cx.ev()
    for (name, _, valid), b0, b1, sel in zip(views, base, out, sels):
      if not sel.any():
        continue
      ncmp += 1
      if not _same_bits(b0, b1, sel):
        d = np.abs(np.asarray(b0, np.float64) - np.asarray(b1, np.float64))
        d = np.where(np.isfinite(d), d, np.inf)
        cx.V('noninterference', f'{path}.{name}', cfg, f'{detail}|{label}:{kind}',
             'perturbing only ignored (masked) positions changed a defined output row '
             f'(max |diff| {float(np.max(d[sel])):.3g}); expected bitwise equality',
             observed=np.asarray(b1)[sel], expected=np.asarray(b0)[sel],
             positions=positions, kind=kind)
      rest = valid & ~sel
      if kind != 'o' and rest.any() and not _same_bits(b0, b1, rest):
        cx.sanity += 1  # data dependent: kept out of the evidence

  # one position at a time
  for n in range(nb):
    for j in range(T):
      sels = []
      any_specific = False
      for name, ign, valid in views:
        sel = valid.copy()
        sel[n] &= ign[n, :, :, j]
        if self_form:
          sel[n, :, j] = False
        any_specific = any_specific or sel[n].any()
        sels.append(sel)
      if not any_specific:
        continue
      for kind in kinds:
        compare([(n, j)], sels, kind, f'pos{n}.{j}')
  # all positions ignored by row i at once (all batch elements together)
  for i in range(T):
    name0, ign0, valid0 = views[0]
    positions = []
    for n in range(nb):
      if not valid0[n, :, i].any():
        continue
      for j in range(T):
        if self_form and j == i:
          continue
        if all(ign[n, h, i, j] for _, ign, valid in views for h in range(ign.shape[1])
               if valid[n, h, i]):
          positions.append((n, j))
    if len(positions) < 1:
      continue
    sels = []
    for name, ign, valid in views:
      sel = np.zeros_like(valid)
      sel[:, :, i] = valid[:, :, i]
      sels.append(sel)
    for kind in kinds + ('B',):  # all-at-once also with a huge value (+1e6): see KINDS note
      compare(positions, sels, kind, f'row{i}.all')
  cx.res['extra']['comparisons_bitwise'] += ncmp
  return ncmp


# --------------------------------------------------------------------------
# masks


def _mask_cases(T, chunk=None, lower=False):
  """[(name, grid or None, helper kind or None)]: None, structured, and every grid for T <= 3."""
  cases = [('none', None, None)]
  for name, g in R.structured_masks(T):
    helper = None
    if name == 'causal' or name.startswith('kpad') or name.startswith('qkpad') \
       or name.startswith('causal+kpad'):
      helper = name
    cases.append((name, g, helper))
  if T <= 3:
    gen = R.lower_masks(T) if lower else R.all_masks(T)
    cases += [(f'm{mi}', g, None) for mi, g in gen]
  if chunk is not None:
    lo, hi = chunk
    cases = cases[lo:hi]
  return cases


def _enumerated(mname):
  return mname[0] == 'm' and mname[1:].isdigit()


def _kinds_for(mname):
  """quick: enumerated masks get two of the three perturbation kinds (sign alternates
  with the mask index); structured masks and the thorough tier get all three."""
  if _tier() == 'quick' and _enumerated(mname):
    return ('+', 'o') if int(mname[1:]) % 2 == 0 else ('-', 'o')
  return KINDS


def _grid_tensor(g, B, H, headvar):
  """Reference notion of the mask: bool [nb, Hm, T, T]; batch element 1 gets the
  transposed grid, head 1 (if headvar) the column-rotated one."""
  nb = _nb(B)
  Hm = H if headvar else 1
  T = g.shape[0]
  G = np.zeros((nb, Hm, T, T), bool)
  for n in range(nb):
    gn = g if n == 0 else g.T
    for h in range(Hm):
      G[n, h] = gn if h == 0 else np.roll(gn, 1, axis=1)
  return G


def _helper_mask(mod, helper, B, T):
  """The same structured mask built with flax's own helpers (float32, [*B,1,T,T])."""
  import jax.numpy as jnp
  tok = jnp.ones(tuple(B) + (T,), jnp.float32)
  def valid(L):
    return jnp.broadcast_to((jnp.arange(T) < L).astype(jnp.float32), tuple(B) + (T,))
  if helper == 'causal':
    return mod.make_causal_mask(tok)
  if helper.startswith('causal+kpad'):
    L = int(helper[len('causal+kpad'):])
    return mod.combine_masks(mod.make_causal_mask(tok), mod.make_attention_mask(tok, valid(L)))
  if helper.startswith('qkpad'):
    L = int(helper[len('qkpad'):])
    return mod.make_attention_mask(valid(L), valid(L))
  if helper.startswith('kpad'):
    L = int(helper[len('kpad'):])
    return mod.make_attention_mask(tok, valid(L))
  raise ValueError(helper)


def _mask_arg(mod, name, g, helper, B, H, headvar):
  """(array handed to flax or None, reference bool tensor [nb,Hm,T,T] or None)."""
  import jax.numpy as jnp
  if g is None:
    return None, None
  T = g.shape[0]
  if helper is not None:
    G = np.broadcast_to(g, (_nb(B), 1, T, T)).copy()
    return _helper_mask(mod, helper, B, T), G
  G = _grid_tensor(g, B, H, headvar)
  return jnp.asarray(G.reshape(tuple(B) + G.shape[1:])), G


def _check_helpers(cx, T, B):
  """make_causal_mask / make_attention_mask / combine_masks == the explicit grids."""
  import flax.linen as nn
  from flax.nnx.nn import attention as nnxatt
  for api, mod in (('linen', nn), ('nnx', nnxatt)):
    for name, g, helper in _mask_cases(T):
      if helper is None:
        continue
      m = np.asarray(_helper_mask(mod, helper, B, T))
      cx.ev()
      exp = np.broadcast_to(g, tuple(B) + (1, T, T))
      cx.res['extra']['comparisons_reference'] += 1
      if m.shape != exp.shape or not np.array_equal(m != 0, exp):
        cx.V('mask-helper', f'{api}.{helper}', f'T{T} B{tuple(B)}', 'grid',
             'mask helper differs from the documented grid (causal: key <= query; '
             'padding: valid_q x valid_k; combine: logical and)', observed=(m != 0), expected=exp)
      cx.out(f'helper:{helper.rstrip("0123456789")}')


# --------------------------------------------------------------------------
# section fn: functional attention


def _fn_paths():
  import jax
  import flax.linen as nn
  from flax import nnx
  from flax.nnx.nn import attention as nnxatt
  # name -> (mask-helper module, function(q,k,v,bias,mask), kind 'out'|'w')
  return {
    'linen.dpa': (nn, lambda q, k, v, b, m: nn.dot_product_attention(q, k, v, bias=b, mask=m), 'out'),
    'linen.dpaw': (nn, lambda q, k, v, b, m: nn.dot_product_attention_weights(q, k, bias=b, mask=m),
                   'w'),
    # default NNX path (delegates to jax.nn.dot_product_attention)
    'nnx.dpa': (nnxatt, lambda q, k, v, b, m: nnx.dot_product_attention(q, k, v, bias=b, mask=m),
                'out'),
    # NNX's own weights/einsum path (taken when dropout is configured; deterministic => no dropout)
    'nnx.dpa.own': (nnxatt, lambda q, k, v, b, m: nnx.dot_product_attention(
      q, k, v, bias=b, mask=m, dropout_rate=0.5, deterministic=True), 'out'),
    'nnx.dpaw': (nnxatt, lambda q, k, v, b, m: nnxatt.dot_product_attention_weights(
      q, k, bias=b, mask=m), 'w'),
  }


def _rows_out(a, B):
  """[*B,T,H,d] -> [nb,H,T,d]"""
  a = np.asarray(a)
  a = a.reshape((_nb(B),) + a.shape[len(B):])
  return np.ascontiguousarray(a.transpose(0, 2, 1, 3))


def _rows_w(a, B):
  a = np.asarray(a)
  return a.reshape((_nb(B),) + a.shape[len(B):])


def _run_fn(cx, u):
  import jax
  import jax.numpy as jnp
  H, d, B, use_bias, headvar = u['H'], u['d'], tuple(u['B']), u['bias'], u.get('headvar', 0)
  salt = (_seed() + u['i']) % 4
  paths = _fn_paths()
  jitted = {p: jax.jit(f) for p, (_, f, _) in paths.items()}
  nb = _nb(B)
  for T in u['Ts']:
    cfg = f'H{H} d{d} T{T} B{B} bias{use_bias} hv{headvar}'
    arrs = dict(q=R.seq_data('q', B, T, (H, d), salt), k=R.seq_data('k', B, T, (H, d), salt),
                v=R.seq_data('v', B, T, (H, d), salt))
    bias = R.fill('abias', B + (H, T, T), salt, step=0.5) if use_bias else None
    if u.get('helpers'):
      _check_helpers(cx, T, B)
    for mname, g, helper in _mask_cases(T, u.get('chunk') if T == 3 else None):
      # ---- reference
      Gref = None
      if g is not None:
        Gref = np.broadcast_to(g, (nb, 1, T, T)) if helper else _grid_tensor(g, B, H, headvar)
        Gfull = np.broadcast_to(Gref, (nb, H, T, T))
      else:
        Gfull = np.ones((nb, H, T, T), bool)
      qf = arrs['q'].reshape((nb, T, H, d))
      kf = arrs['k'].reshape((nb, T, H, d))
      vf = arrs['v'].reshape((nb, T, H, d))
      bf = None if bias is None else bias.reshape((nb, H, T, T))
      o_ref, w_ref, row_ok = R.attention(qf, kf, vf, bf, Gfull)
      o_ref = o_ref.transpose(0, 2, 1, 3)  # [nb,H,T,d]
      n_excl = int((~row_ok).sum())
      n_ign = int((~Gfull & row_ok[..., None]).sum())
      cx.res['extra']['rows_excluded_fully_masked'] += n_excl
      cx.out(f'fn:T{T}:ign={n_ign}:excl={n_excl}')
      for pname, (mod, f, kind) in paths.items():
        marg, _ = _mask_arg(mod, mname, g, helper, B, H, headvar)
        barg = None if bias is None else jnp.asarray(bias)
        rows = (lambda a: _rows_out(a, B)) if kind == 'out' else (lambda a: _rows_w(a, B))
        ref = o_ref if kind == 'out' else w_ref
        # eager and jitted base vs float64 reference (defined rows only)
        for mode, fn in (('eager', f), ('jit', jitted[pname])):
          if mode == 'eager' and pname == 'nnx.dpa' and _enumerated(mname) and _tier() == 'quick':
            continue
          got = rows(fn(jnp.asarray(arrs['q']), jnp.asarray(arrs['k']), jnp.asarray(arrs['v']),
                        barg, marg))
          cx.ev()
          ok, err = _close(got, ref, TOL_W, row_ok)
          cx.res['extra']['comparisons_reference'] += 1
          if not ok:
            cx.V('weights' if kind == 'w' else 'attention-output', f'{pname}.{mode}', cfg, mname,
                 'attention weights / output differ from float64 softmax(q.k/sqrt(d)+bias) over the '
                 f'allowed positions (err {err})', observed=got[row_ok], expected=ref[row_ok],
                 mask=None if g is None else g.astype(int))
          if kind == 'w' and ok and Gref is not None:
            # weight of an excluded key in a defined row: exactly 0 (needed for inertness)
            sel = ~Gfull & row_ok[..., None]
            if sel.any() and np.any(got[sel] != 0):
              cx.V('weights', f'{pname}.{mode}', cfg, f'{mname}|masked-weight-nonzero',
                   'a masked key received non-zero weight in a defined row',
                   observed=got[sel], expected=0.0)
        if g is None:
          continue
        # ---- non-interference (bitwise) under jit
        jf = jitted[pname]
        def run(a, jf=jf, rows=rows, barg=barg, marg=marg):
          return [rows(jf(a['q'], a['k'], a['v'], barg, marg))]
        keys = ['k', 'v'] if kind == 'out' else ['k']
        n = _noninterference(cx, pname, cfg, mname, run, arrs, keys, B, T,
                             [(kind, ~Gfull, row_ok)], kinds=_kinds_for(mname))
        if n and n_ign:
          cx.nontrivial('fn', pname, cfg, mname)
        # perturbing the bias at masked entries is inert as well
        if bias is not None and (~Gfull).any():
          base = run(arrs)[0]
          cx.ev()
          for sgn in (1e3, -1e3, 1e6):
            b2 = np.where(Gfull.reshape(B + (H, T, T)), bias, bias + np.float32(sgn))
            got = rows(jf(arrs['q'], arrs['k'], arrs['v'], jnp.asarray(b2), marg))
            cx.ev()
            cx.res['extra']['comparisons_bitwise'] += 1
            if not _same_bits(base, got, row_ok):
              cx.V('noninterference', pname, cfg, f'{mname}|bias-at-masked:{sgn:+.0e}',
                   'changing the bias at masked entries changed a defined row',
                   observed=got[row_ok], expected=base[row_ok])
      if g is not None and T >= 2:
        cx.sample(section='fn', cfg=cfg, mask=g.astype(int), helper=helper,
                  defined_rows=row_ok.astype(int), weights_ref=w_ref)


# --------------------------------------------------------------------------
# section mha: Linen MultiHeadDotProductAttention / NNX MultiHeadAttention


def _mha_params(F, H, hd, O, salt, use_bias=True):
  P = dict(Wq=R.fill('Wq', (F, H, hd), salt), Wk=R.fill('Wk', (F, H, hd), salt),
           Wv=R.fill('Wv', (F, H, hd), salt), Wo=R.fill('Wo', (H, hd, O), salt))
  if use_bias:
    P.update(bq=R.fill('bq', (H, hd), salt), bk=R.fill('bk', (H, hd), salt),
             bv=R.fill('bv', (H, hd), salt), bo=R.fill('bo', (O,), salt))
  return P


def _mha_linen_tree(P):
  import jax.numpy as jnp
  t = {}
  for name, w, b in (('query', 'Wq', 'bq'), ('key', 'Wk', 'bk'), ('value', 'Wv', 'bv'),
                     ('out', 'Wo', 'bo')):
    t[name] = {'kernel': jnp.asarray(P[w])}
    if b in P:
      t[name]['bias'] = jnp.asarray(P[b])
  return t


def _assert_tree_like(mine, theirs, what):
  """Our hand-built parameter tree must have the structure/shapes flax creates."""
  import jax
  a = jax.tree.map(lambda x: tuple(x.shape), mine)
  b = jax.tree.map(lambda x: tuple(x.shape), theirs)
  a = jax.tree_util.tree_flatten_with_path(a, is_leaf=lambda x: isinstance(x, tuple))[0]
  b = jax.tree_util.tree_flatten_with_path(b, is_leaf=lambda x: isinstance(x, tuple))[0]
  a = sorted((jax.tree_util.keystr(k), v) for k, v in a)
  b = sorted((jax.tree_util.keystr(k), v) for k, v in b)
  if a != b:
    raise AssertionError(f'{what}: parameter tree mismatch\n mine  {a}\n flax  {b}')


def _mha_nnx(P, F, H, qkv, O, decode, use_bias=True):
  import jax.numpy as jnp
  from flax import nnx
  m = nnx.MultiHeadAttention(H, F, qkv, O, decode=decode, use_bias=use_bias, rngs=nnx.Rngs(0))
  for name, w, b in (('query', 'Wq', 'bq'), ('key', 'Wk', 'bk'), ('value', 'Wv', 'bv'),
                     ('out', 'Wo', 'bo')):
    lin = getattr(m, name)
    assert tuple(lin.kernel.value.shape) == P[w].shape, (name, lin.kernel.value.shape)
    lin.kernel.value = jnp.asarray(P[w])
    if use_bias:
      assert tuple(lin.bias.value.shape) == P[b].shape
      lin.bias.value = jnp.asarray(P[b])
    else:
      assert lin.bias is None or lin.bias.value is None
  return m


def _run_mha(cx, u):
  import jax
  import jax.numpy as jnp
  import flax.linen as nn
  from flax import nnx
  from flax.nnx.nn import attention as nnxatt
  H, qkv, O, B, ab, ub = u['H'], u['qkv'], u['out'], tuple(u['B']), u['abias'], u['use_bias']
  headvar = u.get('headvar', 0)
  F = 3
  hd = qkv // H
  salt = (_seed() + u['i']) % 4
  nb = _nb(B)
  P = _mha_params(F, H, hd, O, salt, ub)
  tree = _mha_linen_tree(P)
  lm = nn.MultiHeadDotProductAttention(num_heads=H, qkv_features=qkv, out_features=O, use_bias=ub)
  _assert_tree_like(tree, jax.eval_shape(lambda: lm.init(jax.random.key(0), jnp.zeros(B + (2, F))))
                    ['params'], 'linen MHA')
  nm = _mha_nnx(P, F, H, qkv, O, False, ub)
  gd, st = nnx.split(nm)

  def linen_sow(p, xq, xk, xv, m, b):
    y, muts = lm.apply({'params': p}, xq, xk, xv, mask=m, attention_bias=b, sow_weights=True,
                       mutable=['intermediates'])
    return y, muts['intermediates']['attention_weights'][0]

  def linen_plain(p, xq, xk, xv, m, b):
    return lm.apply({'params': p}, xq, xk, xv, mask=m, attention_bias=b)

  def nnx_plain(s, xq, xk, xv, m, b):
    return nnx.merge(gd, s)(xq, xk, xv, mask=m, attention_bias=b)

  def nnx_sow(s, xq, xk, xv, m, b):
    mod = nnx.merge(gd, s)
    y = mod(xq, xk, xv, mask=m, attention_bias=b, sow_weights=True)
    return y, mod.attention_weights.value[0]

  J = dict(linen_sow=jax.jit(linen_sow), nnx_plain=jax.jit(nnx_plain), nnx_sow=jax.jit(nnx_sow))

  def rows_y(y):
    y = np.asarray(y)
    return y.reshape((nb, 1) + y.shape[len(B):])

  eager_all = _tier() != 'quick'

  for T in u['Ts']:
    cfg = f'H{H} qkv{qkv} out{O} F{F} T{T} B{B} abias{ab} use_bias{ub} hv{headvar}'
    x = dict(x=R.seq_data('x', B, T, (F,), salt), xk=R.seq_data('xk', B, T, (F,), salt + 1),
             xv=R.seq_data('xv', B, T, (F,), salt + 2))
    abias = R.fill('abias', B + (H, T, T), salt, step=0.5) if ab else None
    barg = None if abias is None else jnp.asarray(abias)
    for mname, g, helper in _mask_cases(T, u.get('chunk') if T == 3 else None):
      if g is not None:
        Gref = np.broadcast_to(g, (nb, 1, T, T)) if helper else _grid_tensor(g, B, H, headvar)
        Gfull = np.broadcast_to(Gref, (nb, H, T, T))
      else:
        Gfull = np.ones((nb, H, T, T), bool)
      marg_l, _ = _mask_arg(nn, mname, g, helper, B, H, headvar)
      marg_n, _ = _mask_arg(nnxatt, mname, g, helper, B, H, headvar)
      for form in ('self', 'cross'):
        xq = x['x']
        xk = x['x'] if form == 'self' else x['xk']
        xv = x['x'] if form == 'self' else x['xv']
        ref = R.mha(P, xq.reshape((nb, T, F)), xk.reshape((nb, T, F)), xv.reshape((nb, T, F)),
                    None if abias is None else abias.reshape((nb, H, T, T)), Gfull)
        head_ok, row_ok = ref['head_ok'], ref['row_ok'][:, None, :]
        ign_h = ~Gfull
        ign_r = ign_h.all(1, keepdims=True)
        n_ign = int((ign_h & head_ok[..., None]).sum())
        n_excl = int((~row_ok).sum())
        cx.res['extra']['rows_excluded_fully_masked'] += n_excl
        cx.out(f'mha:{form}:T{T}:ign={n_ign}:excl={n_excl}')
        y_ref = ref['out'][:, None]
        args = (jnp.asarray(xq), None if form == 'self' else jnp.asarray(xk),
                None if form == 'self' else jnp.asarray(xv))

        # ---- base results: eager (plain call) and jit (with sown weights)
        got = {}
        if eager_all or not _enumerated(mname):
          got['linen.eager'] = rows_y(linen_plain(tree, *args, marg_l, barg))
          got['nnx.eager'] = rows_y(nnx_plain(st, *args, marg_n, barg))
          cx.ev(2)
        yl, wl = J['linen_sow'](tree, *args, marg_l, barg)
        got['linen.sow.jit'] = rows_y(yl)
        got['nnx.jit'] = rows_y(J['nnx_plain'](st, *args, marg_n, barg))
        yn, wn = J['nnx_sow'](st, *args, marg_n, barg)
        got['nnx.sow.jit'] = rows_y(yn)
        cx.ev(3)
        for pname, y in got.items():
          ok, err = _close(y, y_ref, TOL_W * 4, row_ok)
          cx.res['extra']['comparisons_reference'] += 1
          if not ok:
            cx.V('attention-output', pname, cfg, f'{form}|{mname}',
                 f'module output differs from the float64 reference on defined rows (err {err})',
                 observed=y[row_ok], expected=y_ref[row_ok], mask=None if g is None else g.astype(int))
        for pname, w in (('linen.sow.jit', wl), ('nnx.sow.jit', wn)):
          w = _rows_w(w, B)
          ok, err = _close(w, ref['w'], TOL_W, head_ok)
          cx.res['extra']['comparisons_reference'] += 1
          if not ok:
            cx.V('weights', pname, cfg, f'{form}|{mname}',
                 f'sown attention weights differ from float64 softmax over allowed keys (err {err})',
                 observed=w[head_ok], expected=ref['w'][head_ok],
                 mask=None if g is None else g.astype(int))
        # ---- Linen vs NNX on the same parameters
        for a, b_, tol in (('linen.sow.jit', 'nnx.sow.jit', 0.0), ('linen.eager', 'nnx.eager', TOL_STEP),
                           ('linen.sow.jit', 'nnx.jit', TOL_STEP)):
          if a not in got or b_ not in got:
            continue
          cx.res['extra']['comparisons_reference'] += 1
          if tol == 0.0:
            same = _same_bits(got[a], got[b_], row_ok)
          else:
            same, _ = _close(got[a], got[b_], tol, row_ok)
          if not same:
            cx.V('linen-vs-nnx', f'{a}~{b_}', cfg, f'{form}|{mname}',
                 'Linen and NNX attention disagree on copied parameters',
                 observed=got[b_][row_ok], expected=got[a][row_ok])
        if g is None:
          continue
        # ---- non-interference
        keys = ['x'] if form == 'self' else ['xk', 'xv']
        def call(a):
          if form == 'self':
            return (a['x'], None, None)
          return (a['x'], a['xk'], a['xv'])
        def run_l(a):
          y, w = J['linen_sow'](tree, *call(a), marg_l, barg)
          return [rows_y(y), _rows_w(w, B)]
        def run_n(a):
          return [rows_y(J['nnx_plain'](st, *call(a), marg_n, barg))]
        def run_ns(a):
          y, w = J['nnx_sow'](st, *call(a), marg_n, barg)
          return [rows_y(y), _rows_w(w, B)]
        vy = ('y', ign_r, row_ok)
        vw = ('w', ign_h, head_ok)
        sf = form == 'self'
        kd = _kinds_for(mname)
        n = _noninterference(cx, f'linen.mha.{form}', cfg, mname, run_l, x, keys, B, T, [vy, vw], sf,
                             kd)
        n += _noninterference(cx, f'nnx.mha.{form}', cfg, mname, run_n, x, keys, B, T, [vy], sf, kd)
        n += _noninterference(cx, f'nnx.mha.sow.{form}', cfg, mname, run_ns, x, keys, B, T,
                              [vy, vw], sf, kd)
        if n and n_ign:
          cx.nontrivial('mha', form, cfg, mname)
      if g is not None and T >= 2:
        cx.sample(section='mha', cfg=cfg, mask=g.astype(int), helper=helper,
                  defined_rows=ref['row_ok'].astype(int), out_ref=ref['out'])


# --------------------------------------------------------------------------
# section dec: decode=True stepwise loop vs one causal pass


def _run_dec(cx, u):
  import jax
  import jax.numpy as jnp
  import flax.linen as nn
  from flax import nnx
  from flax.nnx.nn import attention as nnxatt
  H, qkv, O, B, ab = u['H'], u['qkv'], u['out'], tuple(u['B']), u['abias']
  F = 3
  hd = qkv // H
  salt = (_seed() + u['i']) % 4
  nb = _nb(B)
  P = _mha_params(F, H, hd, O, salt)
  tree = _mha_linen_tree(P)
  l_dec = nn.MultiHeadDotProductAttention(num_heads=H, qkv_features=qkv, out_features=O, decode=True)
  l_whole = nn.MultiHeadDotProductAttention(num_heads=H, qkv_features=qkv, out_features=O)
  n_dec = _mha_nnx(P, F, H, qkv, O, True)
  n_whole = _mha_nnx(P, F, H, qkv, O, False)

  for T in u['Ts']:
    cfg = f'H{H} qkv{qkv} out{O} F{F} T{T} B{B} abias{ab}'
    x = R.seq_data('x', B, T, (F,), salt)
    xj = jnp.asarray(x)
    abias = R.fill('abias', B + (H, T, T), salt, step=0.5) if ab else None
    tok = jnp.ones(B + (T,), jnp.float32)
    cache0 = l_dec.init(jax.random.key(0), xj)['cache']
    cx.ev()
    shapes = jax.tree.map(lambda a: tuple(a.shape), dict(cache0))
    exp_shapes = dict(cached_key=B + (T, H, hd), cached_value=B + (T, H, hd), cache_index=())
    if shapes != exp_shapes or int(cache0['cache_index']) != 0:
      cx.V('decode-cache', 'linen.init', cfg, 'shape', 'fresh decode cache has unexpected '
           'shape/index', observed=shapes, expected=exp_shapes)
      continue

    def step_mask(Gb, t):
      # user mask for step t: row t of the grid, [*B, 1, 1, T]
      if Gb is None:
        return None
      return jnp.asarray(Gb[:, :, t:t + 1, :].reshape(B + (1, 1, T)))

    def step_bias(t):
      return None if abias is None else jnp.asarray(abias[..., t:t + 1, :])

    def linen_steps(Gb, cache):
      ys = []
      for t in range(T):
        y, upd = l_dec.apply({'params': tree, 'cache': cache}, xj[..., t:t + 1, :],
                             mask=step_mask(Gb, t), attention_bias=step_bias(t), mutable=['cache'])
        cache = upd['cache']
        ys.append(np.asarray(y))
        cx.ev()
      return np.concatenate(ys, axis=-2), jax.tree.map(np.asarray, dict(cache))

    def nnx_steps(Gb, garbage=None):
      n_dec.init_cache(B + (T, F))
      if garbage is not None:
        n_dec.cached_key.value = jnp.asarray(garbage['cached_key'])
        n_dec.cached_value.value = jnp.asarray(garbage['cached_value'])
      ys = []
      for t in range(T):
        ys.append(np.asarray(n_dec(xj[..., t:t + 1, :], mask=step_mask(Gb, t),
                                   attention_bias=step_bias(t))))
        cx.ev()
      cache = dict(cached_key=np.asarray(n_dec.cached_key.value),
                   cached_value=np.asarray(n_dec.cached_value.value),
                   cache_index=np.asarray(n_dec.cache_index.value))
      return np.concatenate(ys, axis=-2), cache

    causal = R.causal_grid(T)
    ref_full = None
    for mname, g, helper in _mask_cases(T, None, lower=True):
      Gb = None if g is None else _grid_tensor(g, B, 1, 0)           # [nb,1,T,T]
      eff = causal[None, None] & (Gb if Gb is not None else True)     # what a step may see
      eff = np.broadcast_to(eff, (nb, H, T, T))
      ref = R.mha(P, x.reshape((nb, T, F)), x.reshape((nb, T, F)), x.reshape((nb, T, F)),
                  None if abias is None else abias.reshape((nb, H, T, T)), eff)
      row_ok = ref['row_ok']
      n_excl = int((~row_ok).sum())
      cx.res['extra']['rows_excluded_fully_masked'] += n_excl
      cx.out(f'dec:T{T}:allowed={int(eff[:, 0].sum())}:excl={n_excl}')
      cx.nontrivial('dec', cfg, mname)
      # whole-sequence passes with flax's causal mask (combined with the user mask)
      user_l = None if Gb is None else jnp.asarray(Gb.reshape(B + (1, T, T)).astype(np.float32))
      wm_l = nn.combine_masks(nn.make_causal_mask(tok), user_l)
      wm_n = nnxatt.combine_masks(nnxatt.make_causal_mask(tok), user_l)
      bj = None if abias is None else jnp.asarray(abias)
      whole_l = np.asarray(l_whole.apply({'params': tree}, xj, mask=wm_l, attention_bias=bj))
      whole_n = np.asarray(n_whole(xj, mask=wm_n, attention_bias=bj))
      cx.ev(2)
      step_l, cache_l = linen_steps(Gb, cache0)
      step_n, cache_n = nnx_steps(Gb)
      rsel = row_ok.reshape(B + (T,))
      yref = ref['out'].reshape(B + (T, O))
      for pname, stp, whl, cache in (('linen', step_l, whole_l, cache_l),
                                     ('nnx', step_n, whole_n, cache_n)):
        cx.res['extra']['comparisons_reference'] += 4
        ok, err = _close(stp, whl, TOL_STEP, rsel)
        if not ok:
          cx.V('stepwise-vs-whole', f'{pname}.decode', cfg, mname,
               f'decode loop output differs from one causal pass (err {err})',
               observed=stp[rsel], expected=whl[rsel], mask=None if g is None else g.astype(int))
        ok, err = _close(whl, yref, TOL_W * 4, rsel)
        if not ok:
          cx.V('attention-output', f'{pname}.causal-pass', cfg, mname,
               f'causal whole-sequence pass differs from the float64 reference (err {err})',
               observed=whl[rsel], expected=yref[rsel])
        ok, err = _close(stp, yref, TOL_W * 4, rsel)
        if not ok:
          cx.V('attention-output', f'{pname}.decode', cfg, mname,
               f'decode loop output differs from the float64 reference (err {err})',
               observed=stp[rsel], expected=yref[rsel])
        # final cache == projected keys / values of the whole sequence, index == T
        kref = ref['k'].reshape(B + (T, H, hd))
        vref = ref['v'].reshape(B + (T, H, hd))
        okk, _ = _close(cache['cached_key'], kref, TOL_STEP)
        okv, _ = _close(cache['cached_value'], vref, TOL_STEP)
        if not (okk and okv and int(cache['cache_index']) == T):
          cx.V('decode-cache', f'{pname}.decode', cfg, mname,
               'final cache differs from the keys/values of the whole sequence or index != T',
               observed=dict(index=int(cache['cache_index']), key=cache['cached_key']),
               expected=dict(index=T, key=kref))
      cx.res['extra']['comparisons_reference'] += 1
      ok, _ = _close(step_l, step_n, TOL_STEP, rsel)
      if not ok:
        cx.V('linen-vs-nnx', 'decode', cfg, mname, 'Linen and NNX decode outputs disagree',
             observed=step_n[rsel], expected=step_l[rsel])
      # not-yet-written cache slots are "after the causal position": garbage there is inert
      if g is None or mname in ('all', 'causal') or (T == 3 and mname in ('m21', 'm42')):
        for kind, val in (('+', 1e3), ('-', -1e3), ('o', None)):
          garb = {}
          for name in ('cached_key', 'cached_value'):
            if val is None:
              garb[name] = np.broadcast_to(
                (ref['k'] if name == 'cached_key' else ref['v']).reshape(B + (T, H, hd))
                [..., :1, :, :] * 3 + 1, B + (T, H, hd)).astype(np.float32)
            else:
              garb[name] = np.full(B + (T, H, hd), val, np.float32)
          c0 = dict(cached_key=jnp.asarray(garb['cached_key']),
                    cached_value=jnp.asarray(garb['cached_value']),
                    cache_index=cache0['cache_index'])
          g_l, gc_l = linen_steps(Gb, c0)
          g_n, gc_n = nnx_steps(Gb, garb)
          for pname, a, b_, ca, cb in (('linen', step_l, g_l, cache_l, gc_l),
                                       ('nnx', step_n, g_n, cache_n, gc_n)):
            cx.res['extra']['comparisons_bitwise'] += 1
            if not (_same_bits(a, b_, rsel) and _same_bits(ca['cached_key'], cb['cached_key'])
                    and _same_bits(ca['cached_value'], cb['cached_value'])):
              cx.V('noninterference', f'{pname}.decode', cfg, f'{mname}|garbage-cache:{kind}',
                   'content of cache slots not yet written (after the current position) changed '
                   'a decode output or the final cache', observed=b_[rsel], expected=a[rsel])
      if T >= 2 and g is not None:
        cx.sample(section='dec', cfg=cfg, user_mask=g.astype(int), effective=eff[0, 0].astype(int),
                  out_ref=ref['out'])


# --------------------------------------------------------------------------
# cells: canonical parameters -> Linen tree / NNX module / NumPy step

CONV_W = 3  # spatial extent for ConvLSTM inputs


def _cell_params(kind, F, Hd, salt, opts, tag=''):
  f = lambda n, s: R.fill(tag + n, s, salt)
  if kind == 'simple':
    return dict(Wi=f('Wi', (F, Hd)), bi=f('bi', (Hd,)), Wh=f('Wh', (Hd, Hd)))
  if kind == 'gru':
    P = {}
    for g in 'rzn':
      P['Wi' + g] = f('Wi' + g, (F, Hd))
      P['bi' + g] = f('bi' + g, (Hd,))
      P['Wh' + g] = f('Wh' + g, (Hd, Hd))
    P['bhn'] = f('bhn', (Hd,))
    return P
  if kind == 'mgu':
    P = {}
    for g in 'fn':
      P['Wi' + g] = f('Wi' + g, (F, Hd))
      P['bi' + g] = f('bi' + g, (Hd,))
      P['Wh' + g] = f('Wh' + g, (Hd, Hd))
    if opts.get('reset_gate', 1):
      P['bhn'] = f('bhn', (Hd,))
    return P
  if kind in ('lstm', 'olstm'):
    P = {}
    for g in 'ifgo':
      P['Wi' + g] = f('Wi' + g, (F, Hd))
      P['Wh' + g] = f('Wh' + g, (Hd, Hd))
      P['bh' + g] = f('bh' + g, (Hd,))
    return P
  if kind == 'convlstm':
    k = opts.get('k', 3)
    return dict(Wih=f('Wih', (k, F, 4 * Hd)), bih=f('bih', (4 * Hd,)),
                Whh=f('Whh', (k, Hd, 4 * Hd)), bhh=f('bhh', (4 * Hd,)))
  raise ValueError(kind)


def _feat(kind, F):
  return (CONV_W, F) if kind == 'convlstm' else (F,)


def _np_step(kind, P, opts):
  if kind == 'simple':
    return lambda c, x: R.simple_step(P, c, np.asarray(x, np.float64), bool(opts.get('residual', 0)))
  if kind == 'gru':
    return lambda c, x: R.gru_step(P, c, np.asarray(x, np.float64))
  if kind == 'mgu':
    return lambda c, x: R.mgu_step(P, c, np.asarray(x, np.float64), bool(opts.get('reset_gate', 1)))
  if kind in ('lstm', 'olstm'):
    return lambda c, x: R.lstm_step(P, c, np.asarray(x, np.float64))
  if kind == 'convlstm':
    return lambda c, x: R.convlstm_step(P, c, np.asarray(x, np.float64))
  raise ValueError(kind)


def _np_carry0(kind, Hd, ic=None):
  """Zero carry of one example (or the given initial carry leaves)."""
  shape = (CONV_W, Hd) if kind == 'convlstm' else (Hd,)
  if kind in ('lstm', 'olstm', 'convlstm'):
    return (np.zeros(shape), np.zeros(shape))
  return np.zeros(shape)


def _linen_cell(kind, P, Hd, opts):
  """(cell module, params tree)."""
  import jax.numpy as jnp
  import flax.linen as nn
  J = jnp.asarray
  if kind == 'simple':
    return nn.SimpleCell(Hd, residual=bool(opts.get('residual', 0))), \
      {'i': {'kernel': J(P['Wi']), 'bias': J(P['bi'])}, 'h': {'kernel': J(P['Wh'])}}
  if kind == 'gru':
    t = {}
    for g in 'rzn':
      t['i' + g] = {'kernel': J(P['Wi' + g]), 'bias': J(P['bi' + g])}
      t['h' + g] = {'kernel': J(P['Wh' + g])}
    t['hn']['bias'] = J(P['bhn'])
    return nn.GRUCell(Hd), t
  if kind == 'mgu':
    rg = bool(opts.get('reset_gate', 1))
    t = {}
    for g in 'fn':
      t['i' + g] = {'kernel': J(P['Wi' + g]), 'bias': J(P['bi' + g])}
      t['h' + g] = {'kernel': J(P['Wh' + g])}
    if rg:
      t['hn']['bias'] = J(P['bhn'])
    return nn.MGUCell(Hd, reset_gate=rg), t
  if kind in ('lstm', 'olstm'):
    t = {}
    for g in 'ifgo':
      t['i' + g] = {'kernel': J(P['Wi' + g])}
      t['h' + g] = {'kernel': J(P['Wh' + g]), 'bias': J(P['bh' + g])}
    return (nn.LSTMCell(Hd) if kind == 'lstm' else nn.OptimizedLSTMCell(Hd)), t
  if kind == 'convlstm':
    return nn.ConvLSTMCell(Hd, kernel_size=(opts.get('k', 3),)), \
      {'ih': {'kernel': J(P['Wih']), 'bias': J(P['bih'])},
       'hh': {'kernel': J(P['Whh']), 'bias': J(P['bhh'])}}
  raise ValueError(kind)


def _nnx_cell(kind, P, F, Hd, opts):
  import jax.numpy as jnp
  from flax import nnx
  J = jnp.asarray

  def put(lin, W, b=None):
    assert tuple(lin.kernel.value.shape) == tuple(W.shape), (lin.kernel.value.shape, W.shape)
    lin.kernel.value = J(W)
    if b is not None:
      assert tuple(lin.bias.value.shape) == tuple(b.shape)
      lin.bias.value = J(b)
    else:
      assert lin.bias is None or lin.bias.value is None

  cat = lambda names: np.concatenate([P[n] for n in names], axis=-1)
  rngs = nnx.Rngs(0)
  if kind == 'simple':
    c = nnx.SimpleCell(F, Hd, residual=bool(opts.get('residual', 0)), rngs=rngs)
    put(c.dense_i, P['Wi'], P['bi'])
    put(c.dense_h, P['Wh'])
  elif kind == 'lstm':
    c = nnx.LSTMCell(F, Hd, rngs=rngs)
    for g, attr in zip('ifgo', ('ii', 'if_', 'ig', 'io')):
      put(getattr(c, attr), P['Wi' + g])
      put(getattr(c, 'h' + g), P['Wh' + g], P['bh' + g])
  elif kind == 'olstm':
    c = nnx.OptimizedLSTMCell(F, Hd, rngs=rngs)
    put(c.dense_i, cat(['Wi' + g for g in 'ifgo']))
    put(c.dense_h, cat(['Wh' + g for g in 'ifgo']), cat(['bh' + g for g in 'ifgo']))
  elif kind == 'gru':
    # the NNX GRUCell has no b_hn parameter (dense_h has no bias): recurrence with b_hn = 0
    c = nnx.GRUCell(F, Hd, rngs=rngs)
    put(c.dense_i, cat(['Wi' + g for g in 'rzn']), cat(['bi' + g for g in 'rzn']))
    put(c.dense_h, cat(['Wh' + g for g in 'rzn']))
  else:
    raise ValueError(kind)
  return c


class _Cell:
  """One real cell (Linen or NNX) + its float64 twin on the same parameters."""

  def __init__(self, api, kind, F, Hd, salt, opts, tag=''):
    self.api, self.kind, self.F, self.Hd, self.opts = api, kind, F, Hd, dict(opts)
    self.P = _cell_params(kind, F, Hd, salt, opts, tag)
    if api == 'nnx' and kind == 'gru':
      self.P = dict(self.P, bhn=None)
    self.np_step = _np_step(kind, self.P, opts)
    if api == 'linen':
      self.cell, self.tree = _linen_cell(kind, self.P, Hd, opts)
    else:
      self.cell = _nnx_cell(kind, self.P, F, Hd, opts)
      self.tree = None

  def real_step(self, carry, x):
    import jax.numpy as jnp
    if self.api == 'linen':
      return self.cell.apply({'params': self.tree}, carry, jnp.asarray(x))
    return self.cell(carry, jnp.asarray(x))

  def real_carry0(self, xshape):
    import jax
    if self.api == 'linen':
      return self.cell.initialize_carry(jax.random.key(0), tuple(xshape))
    return self.cell.initialize_carry(tuple(xshape))


def _leaves(c):
  import jax
  return [np.asarray(l) for l in jax.tree.leaves(c)]


# --------------------------------------------------------------------------
# section rnn


def _flat_carry(c):
  """Nested tuples of arrays -> flat list (same order as jax.tree.leaves)."""
  if isinstance(c, (tuple, list)):
    out = []
    for v in c:
      out += _flat_carry(v)
    return out
  return [np.asarray(c)]


def _run_rnn(cx, u):
  import jax
  import jax.numpy as jnp
  import flax.linen as nn
  from flax import nnx
  api, kind, T, B, F, Hd, opts, ic = (u['api'], u['kind'], u['T'], tuple(u['B']), u['F'], u['Hd'],
                                      u['opts'], u['ic'])
  th = _tier() != 'quick'
  salt = (_seed() + u['i']) % 4
  nb = _nb(B)
  feat = _feat(kind, F)
  nbd = len(B)
  x = R.seq_data('x', B, T, feat, salt)
  xf = x.reshape((nb, T) + feat)
  cells = dict(f=_Cell(api, kind, F, Hd, salt, opts, 'f.'),
               b=_Cell(api, kind, F, Hd, salt + 1, opts, 'b.'))
  cshape = (CONV_W, Hd) if kind == 'convlstm' else (Hd,)
  two = kind in ('lstm', 'olstm', 'convlstm')
  base_cfg = f'{api}.{kind}{sorted(opts.items())} F{F} H{Hd} T{T} B{B} ic{ic}'

  # ---- initial carry (None = the cell's own zero carry)
  if ic:
    icl = [R.fill(f'ic{i}', B + cshape, salt) for i in range(2 if two else 1)]
    ic_arg1 = tuple(jnp.asarray(a) for a in icl) if two else jnp.asarray(icl[0])
    def ic_np(n):
      ls = [a.reshape((nb,) + cshape)[n].astype(np.float64) for a in icl]
      return tuple(ls) if two else ls[0]
    def ic_real(n):
      ls = [jnp.asarray(a.reshape((nb,) + cshape)[n]) for a in icl]
      return tuple(ls) if two else ls[0]
  else:
    ic_arg1 = None
    ic_np = lambda n: _np_carry0(kind, Hd)
    ic_real = None

  # ---- reference tables: plain loops over ONE sequence (NumPy cell, and the real cell eagerly)
  memo = {}
  tables = {}

  def real_stepper(which, n):
    cell = cells[which]
    def step(carry, tx):
      hist, c = carry
      t, xt = tx
      key = (which, n, hist + (t,))
      if key not in memo:
        memo[key] = cell.real_step(c, xt)
        cx.ev()
      c2, y = memo[key]
      return (hist + (t,), c2), y
    return step

  def table(which, model, n, rev, L):
    key = (which, model, n, rev, L)
    if key not in tables:
      if model == 'np':
        ys, c = R.rnn_one(cells[which].np_step, ic_np(n), list(xf[n]), L, bool(rev), False)
      else:
        c0 = ic_real(n) if ic else cells[which].real_carry0(xf[n][0].shape)
        ys, (_, c) = R.rnn_one(real_stepper(which, n), ((), c0), list(enumerate(xf[n])), L,
                               bool(rev), False)
      tables[key] = ([np.asarray(y) for y in ys], _flat_carry(jax.tree.leaves(c) if model != 'np'
                                                              else c))
    return tables[key]

  def reference(model, mode, ko, Ls):
    """per example: (list of L outputs in output order, carry leaves)"""
    out = []
    for n in range(nb):
      L = Ls[n]
      if mode == 'fwd':
        ys, c = table('f', model, n, 0, L)
      elif mode == 'rev':
        ys, c = table('f', model, n, 1, L)
        if ko:
          ys = ys[::-1]
      else:
        yf, c1 = table('f', model, n, 0, L)
        yb, c2 = table('b', model, n, 1, L)
        ys = [np.concatenate([a, b_], axis=-1) for a, b_ in zip(yf, yb[::-1])]
        c = c1 + c2
      out.append((ys, c))
    return out

  # ---- all seq_lengths vectors
  all_sl = [None] + [list(v) for v in itertools.product(range(1, T + 1), repeat=nb)]

  def sl_arg(Ls):
    if Ls is None:
      return None
    return jnp.asarray(np.asarray(Ls, np.int32).reshape(B))

  def arrange(xa, tm):
    return np.moveaxis(xa, nbd, 0) if tm else xa

  def normalize(res, rc, tm):
    if rc:
      carry, ys = res
      cl = [np.asarray(l).reshape((nb,) + np.asarray(l).shape[nbd:]) for l in jax.tree.leaves(carry)]
    else:
      ys, cl = res, []
    ys = np.asarray(ys)
    if tm:
      ys = np.moveaxis(ys, 0, nbd)
    return np.ascontiguousarray(ys.reshape((nb, T) + ys.shape[nbd + 1:])), cl

  configs = []
  # quick: time_major only for batched sequences with T in {2, 3} (without a batch axis the
  # time axis is 0 either way)
  tms = (0, 1) if (th or (B and T in (2, 3))) else (0,)
  for mode in ('fwd', 'rev', 'bi'):
    for ko in ((0, 1) if mode != 'bi' else (0,)):
      for tm in tms:
        for rc in (0, 1):
          configs.append((mode, ko, tm, rc))
  n_eager = len(configs) if th else 3
  eager_idx = {(u['i'] * 7 + 5 * k) % len(configs) for k in range(n_eager)}
  # call-time overrides of a Bidirectional reach two inner RNN calls: every such configuration
  # whose flags differ from the constructor defaults is also called eagerly
  bi_eager = {i for i, c in enumerate(configs) if c[0] == 'bi' and (c[2] or c[3])}
  eager_idx |= bi_eager
  bi_done = set()

  for ci, (mode, ko, tm, rc) in enumerate(configs):
    cfg = f'{base_cfg} {mode} ko{ko} tm{tm} rc{rc}'
    rev = mode == 'rev'
    ic_arg = ic_arg1 if mode != 'bi' else (None if ic_arg1 is None else (ic_arg1, ic_arg1))
    # -- the module with the flags as constructor attributes (jit path)
    if api == 'linen':
      if mode == 'bi':
        mod = nn.Bidirectional(nn.RNN(cells['f'].cell), nn.RNN(cells['b'].cell),
                               time_major=bool(tm), return_carry=bool(rc))
        params = {'forward_rnn': {'cell': cells['f'].tree}, 'backward_rnn': {'cell': cells['b'].tree}}
        # eager path: default Bidirectional, time_major / return_carry overridden at call time
        mod0 = nn.Bidirectional(nn.RNN(cells['f'].cell), nn.RNN(cells['b'].cell))
        kw0 = dict(time_major=bool(tm), return_carry=bool(rc))
      else:
        mod = nn.RNN(cells['f'].cell, time_major=bool(tm), return_carry=bool(rc), reverse=rev,
                     keep_order=bool(ko))
        params = {'cell': cells['f'].tree}
        # eager path: default module, flags overridden at call time
        mod0 = nn.RNN(cells['f'].cell)
        kw0 = dict(time_major=bool(tm), return_carry=bool(rc), reverse=rev, keep_order=bool(ko))
      if ci == 0 or mode == 'bi' and (tm, rc) == (0, 0):
        _assert_tree_like(params, jax.eval_shape(
          lambda: mod.init(jax.random.key(0), jnp.asarray(arrange(x, tm))))['params'],
          f'linen {kind} {mode}')
      fn = lambda p, xa, sl, c0, mod=mod: mod.apply({'params': p}, xa, seq_lengths=sl,
                                                    initial_carry=c0)
      fn0 = lambda p, xa, sl, c0: mod0.apply({'params': p}, xa, seq_lengths=sl,
                                             initial_carry=c0, **kw0)
      state = params
    else:
      if mode == 'bi':
        mod = nnx.Bidirectional(nnx.RNN(cells['f'].cell), nnx.RNN(cells['b'].cell),
                                time_major=bool(tm), return_carry=bool(rc))
        mod0 = nnx.Bidirectional(nnx.RNN(cells['f'].cell), nnx.RNN(cells['b'].cell))
        kw0 = dict(time_major=bool(tm), return_carry=bool(rc))
      else:
        mod = nnx.RNN(cells['f'].cell, time_major=bool(tm), return_carry=bool(rc), reverse=rev,
                      keep_order=bool(ko))
        mod0 = nnx.RNN(cells['f'].cell)
        kw0 = dict(time_major=bool(tm), return_carry=bool(rc), reverse=rev, keep_order=bool(ko))
      gd, state = nnx.split(mod)
      fn = lambda s, xa, sl, c0, gd=gd: nnx.merge(gd, s)(xa, seq_lengths=sl, initial_carry=c0)
      fn0 = lambda s, xa, sl, c0: mod0(xa, seq_lengths=sl, initial_carry=c0, **kw0)
    jf = jax.jit(fn)

    for si, Ls in enumerate(all_sl):
      if Ls is None and not rc and not th:
        continue  # quick: the no-lengths path is compiled for return_carry=True only
      Lv = [T] * nb if Ls is None else Ls
      sl = sl_arg(Ls)
      valid = np.array([[t < Lv[n] for t in range(T)] for n in range(nb)], bool)
      npad = int((~valid).sum())
      case = f'sl={"None" if Ls is None else Ls}'
      cx.out(f'rnn:{mode}:T{T}:nb{nb}:pad={npad}')
      if mode != 'fwd' or npad:
        cx.nontrivial('rnn', cfg, case)

      def run(xa, jf=jf, sl=sl, tm=tm, rc=rc, ic_arg=ic_arg):
        return normalize(jf(state, jnp.asarray(arrange(xa, tm)), sl, ic_arg), rc, tm)
      ys, cl = run(x)
      cx.ev()
      # -- (4)+(5): explicit re-indexing of a plain loop, NumPy float64 cell; (1): real cell loop
      for model, tol, clause in (('np', TOL_CELL, 'recurrence+reindex'),
                                 ('real', TOL_STEP, 'stepwise-vs-whole')):
        ref = reference(model, mode, ko, Lv)
        bad = None
        for n in range(nb):
          rys, rc_leaves = ref[n]
          for p in range(Lv[n]):
            ok, err = _close(ys[n, p], rys[p], tol)
            if not ok:
              bad = bad or (f'output n={n} pos={p}', ys[n, p], rys[p], err)
          if rc:
            if len(cl) != len(rc_leaves):
              bad = bad or ('carry structure', len(cl), len(rc_leaves), None)
            else:
              for li, (a, b_) in enumerate(zip(cl, rc_leaves)):
                ok, err = _close(a[n], b_, tol)
                if not ok:
                  bad = bad or (f'carry leaf {li} n={n}', a[n], b_, err)
        cx.res['extra']['comparisons_reference'] += 1
        if bad:
          cx.V(clause, f'{api}.{kind}', cfg, case,
               ('RNN differs from the explicit per-sequence loop '
                + ('with the NumPy float64 recurrence' if model == 'np' else 'over the real cell')
                + f' (reversal inside the valid length, carry after exactly L steps): {bad[0]} '
                f'err {bad[3]}'), observed=bad[1], expected=bad[2], seq_lengths=Ls)
      if si == 1 and ci % 5 == 0:
        cx.sample(section='rnn', cfg=cfg, seq_lengths=Ls, outputs=ys, valid=valid.astype(int))

      # -- eager call (flags as call-time overrides) for a rotating subset of configurations
      if ci in eager_idx and (si == (u['i'] + ci) % len(all_sl)
                              or ci in bi_eager and ci not in bi_done and npad):
        bi_done.add(ci)
        ys_e, cl_e = normalize(fn0(state, jnp.asarray(arrange(x, tm)), sl, ic_arg), rc, tm)
        cx.ev()
        ok = _close(ys_e, ys, TOL_STEP, valid)[0] and len(cl_e) == len(cl) and \
          all(_close(a, b_, TOL_STEP)[0] for a, b_ in zip(cl_e, cl))
        cx.res['extra']['comparisons_reference'] += 1
        if not ok:
          cx.V('stepwise-vs-whole', f'{api}.{kind}.eager', cfg, case,
               'eager call with call-time flag overrides differs from the constructor-flag call',
               observed=ys_e[valid], expected=ys[valid])
        if npad:
          pos = [(n, t) for n in range(nb) for t in range(Lv[n], T)]
          xp = _perturb(dict(x=x), ['x'], B, T, pos, '+')['x']
          ys_p, cl_p = normalize(fn0(state, jnp.asarray(arrange(xp, tm)), sl, ic_arg), rc, tm)
          cx.ev()
          cx.res['extra']['comparisons_bitwise'] += 1
          if not (_same_bits(ys_e, ys_p, valid) and all(_same_bits(a, b_) for a, b_ in zip(cl_e, cl_p))):
            cx.V('noninterference', f'{api}.{kind}.eager', cfg, f'{case}|all:+',
                 'padding (positions >= seq_length) influenced a valid output or the final carry',
                 observed=ys_p[valid], expected=ys_e[valid])

      # -- (2) non-interference of every position >= seq_length (bitwise)
      if not npad:
        continue
      pos_all = [(n, t) for n in range(nb) for t in range(Lv[n], T)]
      groups = [[p] for p in pos_all] + ([pos_all] if len(pos_all) > 1 else [])
      for grp in groups:
        for kind_ in (KINDS if T > 1 else KINDS[:2]) + (('B',) if grp is groups[-1] else ()):
          xp = _perturb(dict(x=x), ['x'], B, T, grp, kind_, other=0)['x']
          ys_p, cl_p = run(xp)
          cx.ev()
          cx.res['extra']['comparisons_bitwise'] += 1
          same = _same_bits(ys, ys_p, valid) and all(_same_bits(a, b_) for a, b_ in zip(cl, cl_p))
          if not same:
            what = 'a valid output' if not _same_bits(ys, ys_p, valid) else 'the final carry'
            cx.V('noninterference', f'{api}.{kind}', cfg,
                 f'{case}|{"all" if len(grp) > 1 else "pos%d.%d" % grp[0]}:{kind_}',
                 f'changing inputs at positions >= seq_length changed {what}',
                 observed=dict(ys=ys_p[valid], carry=[a for a in cl_p]),
                 expected=dict(ys=ys[valid], carry=[a for a in cl]), positions=grp)
          if kind_ != 'o' and not _same_bits(ys, ys_p, ~valid):
            cx.sanity += 1  # data dependent: kept out of the evidence


# --------------------------------------------------------------------------
# section cell: one step vs the documented recurrence; Linen == NNX; LSTM == OptimizedLSTM


def _cell_variants(kind):
  vs = [({}, 2, 3), ({}, 3, 2), ({}, 1, 1)]
  if kind == 'simple':
    vs.append((dict(residual=1), 2, 2))
  if kind == 'mgu':
    vs.append((dict(reset_gate=0), 2, 3))
  if kind == 'convlstm':
    vs.append((dict(k=2), 2, 2))
    vs.append((dict(k=1), 2, 2))
  return vs


def _carry_data(kind, Bc, Hd, salt):
  shape = tuple(Bc) + ((CONV_W, Hd) if kind == 'convlstm' else (Hd,))
  if kind in ('lstm', 'olstm', 'convlstm'):
    return (R.fill('c0', shape, salt), R.fill('h0', shape, salt + 1))
  return R.fill('h0', shape, salt)


def _run_cell(cx, u):
  import jax
  import jax.numpy as jnp
  salt = (_seed() + u['i']) % 4
  if u['api'] == 'both':
    return _run_cell_pair(cx, u, salt)
  api, kind = u['api'], u['kind']
  for opts, F, Hd in _cell_variants(kind):
    if api == 'nnx' and opts and kind != 'simple':
      continue
    cell = _Cell(api, kind, F, Hd, salt, opts)
    for Bc in ((), (2,), (2, 2)):
      cfg = f'{api}.{kind}{sorted(opts.items())} F{F} H{Hd} B{Bc}'
      xs = R.seq_data('x', Bc, 2, _feat(kind, F), salt)
      carry = _carry_data(kind, Bc, Hd, salt)
      # two chained steps from a non-zero carry
      c_real = jax.tree.map(jnp.asarray, carry)
      nbc = _nb(Bc)
      flat = lambda a: np.asarray(a).reshape((nbc,) + np.asarray(a).shape[len(Bc):])
      c_np = [jax.tree.map(lambda a, n=n: flat(a)[n].astype(np.float64), carry) for n in range(nbc)]
      for t in range(2):
        xt = np.moveaxis(xs, len(Bc), 0)[t]
        c_real, y = cell.real_step(c_real, xt)
        cx.ev()
        bad = None
        for n in range(nbc):
          c_np[n], y_np = cell.np_step(c_np[n], flat(xt)[n])
          ok, err = _close(flat(y)[n], y_np, TOL_CELL)
          if not ok:
            bad = bad or (f'output n={n}', flat(y)[n], y_np, err)
          for li, (a, b_) in enumerate(zip(_leaves(c_real), _flat_carry(c_np[n]))):
            ok, err = _close(flat(a)[n], b_, TOL_CELL)
            if not ok:
              bad = bad or (f'carry leaf {li} n={n}', flat(a)[n], b_, err)
        cx.res['extra']['comparisons_reference'] += 1
        cx.out(f'cell:{kind}:B{len(Bc)}:step{t}')
        if bad:
          cx.V('recurrence', f'{api}.{kind}', cfg, f'step{t}',
               f'cell step differs from its documented recurrence in float64: {bad[0]} err {bad[3]}',
               observed=bad[1], expected=bad[2])
      cx.nontrivial('cell', cfg)
      cx.sample(section='cell', cfg=cfg, output=np.asarray(y))


def _run_cell_pair(cx, u, salt):
  """Linen vs NNX on copied parameters (LSTM, plus the other shared cells), and
  LSTMCell vs OptimizedLSTMCell on the same tree; cell level and RNN level."""
  import jax
  import jax.numpy as jnp
  import flax.linen as nn
  from flax import nnx
  F, Hd = 2, 3
  for kind in ('lstm', 'olstm', 'simple', 'gru'):
    lc = _Cell('linen', kind, F, Hd, salt, {})
    nc = _Cell('nnx', kind, F, Hd, salt, {})
    if kind == 'gru':  # NNX has no b_hn: compare with b_hn = 0 on the Linen side
      lc.tree['hn']['bias'] = jnp.zeros_like(lc.tree['hn']['bias'])
    for Bc in (tuple(u['B']),):
      cfg = f'{kind} F{F} H{Hd} B{Bc}'
      x = R.seq_data('x', Bc, 3, (F,), salt)
      carry = jax.tree.map(jnp.asarray, _carry_data(kind, Bc, Hd, salt))
      cl, yl = lc.real_step(carry, x[..., 0, :])
      cn, yn = nc.real_step(carry, x[..., 0, :])
      cx.ev(2)
      cx.res['extra']['comparisons_reference'] += 1
      exact = kind in ('lstm', 'simple')  # same primitive sequence in both APIs
      same = all((_same_bits(a, b_) if exact else _close(a, b_, TOL_STEP)[0])
                 for a, b_ in zip(_leaves((cl, yl)), _leaves((cn, yn))))
      cx.out(f'pair:cell:{kind}')
      cx.nontrivial('pair-cell', cfg)
      if not same:
        cx.V('linen-vs-nnx', f'cell.{kind}', cfg, 'step', 'Linen and NNX cells disagree on copied '
             'parameters', observed=_leaves((cn, yn)), expected=_leaves((cl, yl)))
      # RNN level, all flags, all seq_lengths for T = 3
      if kind != 'lstm' or (not Bc and _tier() == 'quick'):
        continue
      T = 3
      nb = _nb(Bc)
      for rev, ko, tm, rc in itertools.product((0, 1), repeat=4):
        lm = nn.RNN(lc.cell, time_major=bool(tm), return_carry=bool(rc), reverse=bool(rev),
                    keep_order=bool(ko))
        nm = nnx.RNN(nc.cell, time_major=bool(tm), return_carry=bool(rc), reverse=bool(rev),
                     keep_order=bool(ko))
        gd, st = nnx.split(nm)
        jl = jax.jit(lambda p, xa, sl, lm=lm: lm.apply({'params': {'cell': p}}, xa, seq_lengths=sl))
        jn = jax.jit(lambda s, xa, sl, gd=gd: nnx.merge(gd, s)(xa, seq_lengths=sl))
        xa = jnp.asarray(np.moveaxis(x, len(Bc), 0) if tm else x)
        for Ls in [None] + [list(v) for v in itertools.product(range(1, T + 1), repeat=nb)]:
          sl = None if Ls is None else jnp.asarray(np.asarray(Ls, np.int32).reshape(Bc))
          a = jl(lc.tree, xa, sl)
          b_ = jn(st, xa, sl)
          cx.ev(2)
          Lv = [T] * nb if Ls is None else Ls
          valid = np.array([[t < Lv[n] for t in range(T)] for n in range(nb)], bool)
          def norm(r):
            ys = np.asarray(r[1] if rc else r)
            if tm:
              ys = np.moveaxis(ys, 0, len(Bc))
            return ys.reshape((nb, T, Hd)), (_leaves(r[0]) if rc else [])
          ya, ca = norm(a)
          yb, cb = norm(b_)
          cx.res['extra']['comparisons_reference'] += 1
          cx.out(f'pair:rnn:rev{rev}:pad={int((~valid).sum())}')
          cx.nontrivial('pair-rnn', cfg, rev, ko, tm, rc, Ls)
          if not (_same_bits(ya, yb, valid) and len(ca) == len(cb)
                  and all(_same_bits(p, q) for p, q in zip(ca, cb))):
            cx.V('linen-vs-nnx', 'rnn.lstm', f'{cfg} rev{rev} ko{ko} tm{tm} rc{rc}', f'sl={Ls}',
                 'Linen RNN(LSTMCell) and NNX RNN(LSTMCell) disagree on copied parameters',
                 observed=yb[valid], expected=ya[valid])
  # LSTMCell vs OptimizedLSTMCell: "the parameters are compatible"
  for Bc in ((), (2,)):
    a = _Cell('linen', 'lstm', F, Hd, salt, {})
    b_ = _Cell('linen', 'olstm', F, Hd, salt, {})
    x = R.seq_data('x', Bc, 2, (F,), salt)
    carry = jax.tree.map(jnp.asarray, _carry_data('lstm', Bc, Hd, salt))
    ra = a.real_step(carry, x[..., 0, :])
    rb = b_.real_step(carry, x[..., 0, :])
    cx.ev(2)
    cx.res['extra']['comparisons_reference'] += 1
    cx.out('pair:lstm-vs-olstm')
    if not all(_close(p, q, TOL_STEP)[0] for p, q in zip(_leaves(ra), _leaves(rb))):
      cx.V('linen-vs-nnx', 'linen.lstm~olstm', f'F{F} H{Hd} B{Bc}', 'step',
           'LSTMCell and OptimizedLSTMCell disagree on the same parameter tree',
           observed=_leaves(rb), expected=_leaves(ra))


# --------------------------------------------------------------------------
# units / dispatch

BATCHES = [[], [2]]
CELLS = [('linen', 'simple'), ('linen', 'gru'), ('linen', 'mgu'), ('linen', 'lstm'),
         ('linen', 'olstm'), ('linen', 'convlstm'),
         ('nnx', 'simple'), ('nnx', 'gru'), ('nnx', 'lstm'), ('nnx', 'olstm')]
HQO_QUICK = [(1, 2, 4), (2, 4, 2), (1, 4, 2), (2, 2, 4)]
HQO_ALL = [(H, q, o) for H in (1, 2) for q in (2, 4) for o in (2, 4)]
N3 = 1 + len(R.structured_masks(3)) + 512  # mask cases for T = 3


def bounds(tier):
  th = tier != 'quick'
  return dict(
    T=[1, 2, 3, 4], batch_shapes=[[], [2]], heads=[1, 2], head_dim_functional=[1, 2],
    qkv_out_features=[list(x) for x in (HQO_ALL if th else HQO_QUICK)],
    masks='all 2^(T*T) grids for T<=3 + structured for every T',
    head_varying_masks=th, attention_use_bias=[True, False] if th else [True],
    decode_masks='all lower-triangular grids for T<=3 + structured',
    rnn_cells=[f'{a}.{k}' for a, k in CELLS], rnn_flags='reverse x keep_order x time_major x '
    'return_carry (16) + Bidirectional x time_major x return_carry (4)',
    seq_lengths='None and every vector in [1,T]^batch',
    rnn_feature_sizes=[[2, 3], [3, 2]] if th else [[2, 3]],
    rnn_variants=(['default', 'simple.residual', 'mgu.no_reset_gate', 'convlstm.k2', 'initial_carry']
                  if th else ['default']),
    quick_restrictions=None if th else [
      'fn: half fraction (even parity) of heads x head_dim x batch x bias',
      'mha: all 512 3x3 masks for (H,qkv,out,batch,bias) in {(1,2,4,(),off),(2,4,2,(2,),on)}, '
      'structured masks for the other six; attention_bias on iff H = 2',
      'enumerated masks get two of the three perturbation kinds (sign alternates with the mask index)',
      'fn: all 512 3x3 masks for a quarter fraction, structured masks for the other quarter',
      'dec: 4 of the 8 (H,qkv,out) x batch combinations',
      'rnn: unbatched sequences for T = 3 only; time_major only for batched T in {2,3}; '
      'seq_lengths=None only with return_carry=True; 3 eager configurations per unit',
      'eager (non-jit) module / nnx functional calls only for the structured masks'],
    perturbations=['+1e3', '-1e3', 'value of another position', '+1e6 (all-at-once only)'],
    eager_rnn_configs_per_unit=20 if th else 3)


def units(tier, seed):
  th = tier != 'quick'
  us = []
  third = (N3 + 2) // 3
  chunks3 = [(0, third), (third, 2 * third), (2 * third, N3)] if th else \
            [(0, N3 // 2), (N3 // 2, N3)]
  n_struct3 = 1 + len(R.structured_masks(3))
  # fn
  for H in (1, 2):
    for d in (1, 2):
      for B in BATCHES:
        for bias in (0, 1):
          if not th and (H + d + len(B) + bias) % 2:
            continue  # quick: half fraction of H x d x batch x bias covering every triple of values
          hvs = (0, 1) if (th and H == 2) else (0,)
          for hv in hvs:
            us.append(dict(sec='fn', H=H, d=d, B=B, bias=bias, headvar=hv, Ts=[1, 2, 4],
                           helpers=1 - hv))
            if th or (H == d) == bool(B):
              chs = [(0, N3 // 2), (N3 // 2, N3)]
            else:
              chs = [(0, n_struct3)]  # quick: structured 3x3 masks only
            for ch in chs:
              us.append(dict(sec='fn', H=H, d=d, B=B, bias=bias, headvar=hv, Ts=[3],
                             chunk=list(ch)))
  # mha
  for (H, q, o) in (HQO_ALL if th else HQO_QUICK):
    for B in BATCHES:
      for ab in (0, 1):
        for ub in ((1, 0) if th else (1,)):
          if not ub and (ab or not B):
            continue
          if not th and ab != (H == 2):
            continue  # quick: attention_bias on for H = 2, off for H = 1
          # quick: every 3x3 mask for two (H, qkv, out) choices, structured masks for the others
          full3 = th or ((H, q, o) in HQO_QUICK[:2] and bool(B) == bool(ab))
          if not th and not full3 and (H, q, o) in HQO_QUICK[:2]:
            continue
          if not th and not full3 and (H, q, o) == HQO_QUICK[3] and B:
            continue
          if full3:
            us.append(dict(sec='mha', H=H, qkv=q, out=o, B=B, abias=ab, use_bias=ub, Ts=[1, 2, 4]))
            for ch in chunks3:
              us.append(dict(sec='mha', H=H, qkv=q, out=o, B=B, abias=ab, use_bias=ub, Ts=[3],
                             chunk=list(ch)))
          else:
            us.append(dict(sec='mha', H=H, qkv=q, out=o, B=B, abias=ab, use_bias=ub, Ts=[1, 2, 4]))
            us.append(dict(sec='mha', H=H, qkv=q, out=o, B=B, abias=ab, use_bias=ub, Ts=[3],
                           chunk=[0, n_struct3]))
  # dec
  for hi, (H, q, o) in enumerate(HQO_ALL if th else HQO_QUICK):
    for B in BATCHES:
      if not th and bool(B) != bool(hi % 2):
        continue  # quick: 4 of the 8 (H,qkv,out) x batch combinations
      for ab in ((0, 1) if th else (0,)):
        us.append(dict(sec='dec', H=H, qkv=q, out=o, B=B, abias=ab, Ts=[1, 2, 4]))
        us.append(dict(sec='dec', H=H, qkv=q, out=o, B=B, abias=ab, Ts=[3]))
  # rnn
  variants = [dict(F=2, Hd=3)]
  if th:
    variants.append(dict(F=3, Hd=2))
  for api, kind in CELLS:
    for T in (1, 2, 3, 4):
      for B in BATCHES:
        if not th and not B and T != 3:
          continue  # quick: unbatched sequences for T = 3 only
        for var in variants:
          us.append(dict(sec='rnn', api=api, kind=kind, T=T, B=B, opts={}, ic=0, **var))
        if th:
          if kind == 'simple':
            us.append(dict(sec='rnn', api=api, kind=kind, T=T, B=B, opts=dict(residual=1), ic=0,
                           F=3, Hd=3))
          if kind == 'mgu':
            us.append(dict(sec='rnn', api=api, kind=kind, T=T, B=B, opts=dict(reset_gate=0), ic=0,
                           F=2, Hd=3))
          if kind == 'convlstm':
            us.append(dict(sec='rnn', api=api, kind=kind, T=T, B=B, opts=dict(k=2), ic=0,
                           F=2, Hd=3))
          if T >= 2:
            us.append(dict(sec='rnn', api=api, kind=kind, T=T, B=B, opts={}, ic=1, F=2, Hd=3))
  # cell
  for api, kind in CELLS:
    us.append(dict(sec='cell', api=api, kind=kind))
  for B in BATCHES:
    us.append(dict(sec='cell', api='both', kind='lstm-linen-vs-nnx', B=B))
  # heavy units first (better packing); the order never changes what is enumerated
  weight = dict(rnn=0, mha=1, fn=2, dec=3, cell=4)
  us.sort(key=lambda u: (-1 if u.get('api') == 'both' else weight[u['sec']],
                         -max(u.get('Ts', [u.get('T', 0)]))))
  us.append(dict(sec='masks'))
  us.append(dict(sec='qknorm'))
  for i, u in enumerate(us):
    u['i'] = i
  return us


def _run_qknorm(cx, unit):
  """normalize_qk=True: queries and keys go through their OWN LayerNorm (no bias, scale per
  head-dim entry) before the dot product. Linen and NNX with the same parameters (the two scale
  vectors differ) against the float64 reference, for H x mask x self / cross attention."""
  import numpy as np
  import jax.numpy as jnp
  import flax.linen as nn
  from flax import nnx
  res = cx.res
  F, hd, O, T = 3, 2, 2, 3
  eps = 1e-6

  def ln(x, scale):
    x = np.asarray(x, np.float64)
    mu = x.mean(-1, keepdims=True)
    var = ((x - mu) ** 2).mean(-1, keepdims=True)
    return (x - mu) / np.sqrt(var + eps) * np.asarray(scale, np.float64)

  for H in (1, 2):
    for salt in (0, 1):
      P = _mha_params(F, H, hd, O, salt, True)
      sq = np.asarray([1.5, -0.5], np.float32) + salt
      sk = np.asarray([0.25, 2.0], np.float32) - salt
      tree = _mha_linen_tree(P)
      tree['query_ln'] = {'scale': jnp.asarray(sq)}
      tree['key_ln'] = {'scale': jnp.asarray(sk)}
      lm = nn.MultiHeadDotProductAttention(num_heads=H, qkv_features=H * hd, out_features=O,
                                           normalize_qk=True)
      nm = nnx.MultiHeadAttention(H, F, H * hd, O, normalize_qk=True, decode=False,
                                  rngs=nnx.Rngs(0))
      for name, w, b in (('query', 'Wq', 'bq'), ('key', 'Wk', 'bk'), ('value', 'Wv', 'bv'),
                         ('out', 'Wo', 'bo')):
        getattr(nm, name).kernel.value = jnp.asarray(P[w])
        getattr(nm, name).bias.value = jnp.asarray(P[b])
      nm.query_ln.scale.value = jnp.asarray(sq)
      nm.key_ln.scale.value = jnp.asarray(sk)
      xq = R.fill('xq', (T, F), salt)
      xkv = R.fill('xk', (T, F), salt + 3)
      for form, (a, b_) in (('self', (xq, xq)), ('cross', (xq, xkv))):
        for mname, grid in (('none', None), ('causal', R.causal_grid(T))):
          cfg = f'qknorm H{H} salt{salt} {form} {mname}'
          cx.ev(2)

          def proj(x, W, bb):
            return np.einsum('tf,fhd->thd', np.asarray(x, np.float64), np.asarray(W, np.float64)) \
                + np.asarray(bb, np.float64)
          q = ln(proj(a, P['Wq'], P['bq']), sq)
          k = ln(proj(b_, P['Wk'], P['bk']), sk)
          v = proj(b_, P['Wv'], P['bv'])
          o, _, _ = R.attention(q, k, v, None, None if grid is None else grid[None])
          ref = np.einsum('thd,hdo->to', o, np.asarray(P['Wo'], np.float64)) + np.asarray(P['bo'], np.float64)
          mask = None if grid is None else jnp.asarray(grid)[None]
          try:
            yl = lm.apply({'params': tree}, jnp.asarray(a), jnp.asarray(b_), mask=mask)
            yn = nm(jnp.asarray(a), jnp.asarray(b_), mask=mask, decode=False)
          except Exception as e:  # noqa
            core.violation(res, f'qknorm-raises|{cfg}', f'{type(e).__name__}: {e}'[:300], dict(cfg=cfg))
            continue
          for api, y in (('linen', yl), ('nnx', yn)):
            err = float(np.max(np.abs(np.asarray(y, np.float64) - ref)))
            if not err < 1e-4:
              core.violation(res, f'qknorm|{api}|{cfg}',
                             f'{api} attention with normalize_qk differs from the reference in which '
                             f'queries and keys are normalised by their own LayerNorm (err {err:.3g})',
                             dict(cfg=cfg, api=api), observed=np.asarray(y).tolist(),
                             expected=ref.tolist())
          cx.out('qknorm:ok')
          cx.nontrivial('qknorm', cfg)
  cx.sample(section='qknorm')


def _run_masks(cx, unit):
  """combine_masks (Linen and NNX) over every ordered tuple of <= 4 operands from a pool of
  boolean masks and None equals the logical AND of the non-None operands; make_attention_mask
  / make_causal_mask equal their documented formulas."""
  import itertools
  import numpy as np
  import jax.numpy as jnp
  import flax.linen as nn
  from flax import nnx
  res = cx.res
  T = 3
  pool = {
    'causal': np.tril(np.ones((T, T), bool)),
    'padL': np.array([[0, 1, 1]] * T, bool),         # left padding: position 0 is padding
    'hole': np.array([[1, 0, 1]] * T, bool),
    'anti': np.triu(np.ones((T, T), bool)),
    'none': None,
  }
  names = list(pool)
  apis = {'linen': nn.combine_masks, 'nnx': nnx.combine_masks}
  for n in range(1, 5):
    for combo in itertools.product(names, repeat=n):
      ms = [pool[c] for c in combo]
      real = [m for m in ms if m is not None]
      exp = None
      if real:
        exp = np.ones((1, 1, T, T), bool)
        for m in real:
          exp = exp & m[None, None]
      for api, fn in apis.items():
        res['evals'] += 1
        try:
          got = fn(*[None if m is None else jnp.asarray(m)[None, None] for m in ms],
                   dtype=jnp.bool_)
        except Exception as e:  # noqa
          core.violation(res, f'combine_masks-raises|{api}|{combo}', f'{type(e).__name__}: {e}',
                         dict(api=api, masks=list(combo)))
          continue
        ok = (got is None) if exp is None else (got is not None and
                                                np.array_equal(np.asarray(got), exp))
        if not ok:
          core.violation(res, f'combine_masks|{api}|{combo}',
                         'combine_masks is not the logical AND of its non-None operands',
                         dict(api=api, masks=list(combo)))
      if len(real) >= 3:
        res['nontrivial'].append(core.h(['cm', combo]))
      core.outcome(res, f'combine:{len(real)}-masks')
  # make_attention_mask / make_causal_mask
  for lens in itertools.product(range(0, T + 1), repeat=2):
    q = (np.arange(T) < lens[0])
    k = (np.arange(T) < lens[1])
    for api, mod in (('linen', nn), ('nnx', nnx)):
      res['evals'] += 2
      am = np.asarray(mod.make_attention_mask(jnp.asarray(q)[None], jnp.asarray(k)[None],
                                              dtype=jnp.bool_))
      if not np.array_equal(am, (q[:, None] & k[None, :])[None, None]):
        core.violation(res, f'make_attention_mask|{api}|{lens}', 'not the outer product of the '
                       'two validity vectors', dict(api=api, lens=list(lens)))
      cm = np.asarray(mod.make_causal_mask(jnp.zeros((1, T)), dtype=jnp.bool_))
      if not np.array_equal(cm, np.tril(np.ones((T, T), bool))[None, None]):
        core.violation(res, f'make_causal_mask|{api}', 'not lower triangular', dict(api=api))
  res['samples'].append(dict(sec='masks', pool=names, max_operands=4))


def run_unit(unit):
  cx = _Ctx(unit)
  {'fn': _run_fn, 'mha': _run_mha, 'dec': _run_dec, 'rnn': _run_rnn,
   'cell': _run_cell, 'masks': _run_masks, 'qknorm': _run_qknorm}[unit['sec']](cx, unit)
  return cx.res
