"""C11 — checkpoint directory: crashes, retention, ordering, async (DESIGN §4 C11).

Histories of save_checkpoint calls are executed on the real implementation in a
scratch directory; the last save of every history runs under the file-system
recorder (mc/engine/faultfs.py) and every post-crash state it can leave (before
each operation, torn prefixes of the file being written, every prefix of a
recursive delete) is materialised and checked: latest / restore / retry / later
save.  The reference model is a set of committed steps plus the retention
policy written out below.
"""
from __future__ import annotations

import itertools
import os
import shutil
import tempfile
import warnings

import numpy as np

from mc.engine import core, faultfs

PROPERTY = 'C11'
LEVEL = 'fault_enumeration'
RULE = ('every history of save_checkpoint calls up to the tier length over the step alphabet x '
        'keep x keep_every_n_steps x overwrite x prefix x back-end (legacy msgpack, Orbax); for '
        'the last save of each history EVERY post-crash state: the directory before each '
        'file-system operation, the file being written torn at {0,1,n/2,n-1} bytes, every prefix '
        'of each recursive delete. A crash state is non-trivial when it differs from both the '
        'directory before the save and the directory after it; distinct by (configuration, '
        'history, crash label). Async: all interleavings (<= 2 preemptions) of the AsyncManager '
        'worker with the caller.')
ASSUMPTIONS = [
  'crash = process kill: all operations before the crash point are visible, none after; '
  'power-loss reordering is not modelled (flax never fsyncs)',
  'Orbax/tensorstore writes inside the temporary directory are not individually visible; the '
  'directory is observed at the os-level operations Orbax issues',
  'local file system through flax.io (TF gfile mode as installed); no remote back-ends',
  'under overwrite=True the previous copy of the step being replaced (and newer ones) may be '
  'gone after a crash; latest must still be a complete committed checkpoint',
]

INT_STEPS = [1, 2, 3]
ODD_STEPS = [-1, 0, 2e-05, 5e-05, 0.5, 2, 10, 1e2]   # incl. step 0 and negative exponents in the file name


def bounds(tier):
  q = tier == 'quick'
  return dict(legacy_history_len=3 if q else 4, orbax_history_len=2 if q else 3,
              odd_history_len=2 if q else 3,
              keep=[1, 2], keep_every_n_steps=[None, 2], overwrite=[False, True],
              prefix=['checkpoint_', 'ck_'], int_steps=INT_STEPS, odd_steps=ODD_STEPS,
              async_histories=2 if q else 3, async_preemptions=2 if q else 3)


def units(tier, seed):
  b = bounds(tier)
  us = []
  for backend in ('legacy', 'orbax'):
    for keep in b['keep']:
      for every in b['keep_every_n_steps']:
        for ow in b['overwrite']:
          for prefix in b['prefix']:
            if backend == 'orbax' and prefix != 'checkpoint_' and keep == 2:
              continue  # prefix only changes names: one keep value is enough for Orbax
            L = b['legacy_history_len'] if backend == 'legacy' else b['orbax_history_len']
            if backend == 'orbax':
              # split the Orbax work (40 ms per save) by first step
              for first in INT_STEPS:
                us.append(dict(kind='hist', backend=backend, keep=keep, every=every, ow=ow,
                               prefix=prefix, family='int', maxlen=L, first=first))
            else:
              us.append(dict(kind='hist', backend=backend, keep=keep, every=every, ow=ow,
                             prefix=prefix, family='int', maxlen=L, first=None))
          us.append(dict(kind='hist', backend=backend, keep=keep, every=every, ow=ow,
                         prefix='checkpoint_', family='odd', maxlen=b['odd_history_len'],
                         first=None, crash=(backend == 'legacy')))
  for keep in b['keep']:
    for every in b['keep_every_n_steps']:
      for ow in b['overwrite']:
        us.append(dict(kind='async', backend='legacy', keep=keep, every=every, ow=ow,
                       prefix='checkpoint_', maxlen=b['async_histories'],
                       bound=b['async_preemptions']))
  return us


# ----------------------------------------------------------------------------
# reference model


def policy(existing, s, keep, every, overwrite):
  """Which steps the directory holds after a completed save of step s."""
  files = sorted(set(existing) | {s})
  if overwrite:
    files = [f for f in files if f <= s]
  kept = set(files[-keep:])
  old = files[:-keep] if len(files) > keep else []
  last = -float('inf')
  for p in old:
    if every and p and (p - last) >= every:
      last = p
      kept.add(p)
  return kept


def must_raise(backend, existing, s, overwrite):
  if overwrite:
    return False
  if s in existing:
    return True
  if backend == 'legacy' and existing and s < max(existing):
    return True
  return False


def mk_tree(j, s):
  return {'a': np.array([j, int(round(float(s) * 2)), 7], np.int32),
          'b': {'c': np.full((2,), j + 0.5, np.float32)}}


def tree_eq(a, b):
  try:
    return (set(a) == set(b) and np.array_equal(a['a'], b['a']) and
            np.asarray(a['a']).dtype == np.asarray(b['a']).dtype and
            set(a['b']) == set(b['b']) and np.array_equal(a['b']['c'], b['b']['c']))
  except Exception:
    return False


# ----------------------------------------------------------------------------


class Ctx:
  def __init__(self, unit):
    self.u = unit
    self.backend = unit['backend']
    self.keep, self.every, self.ow, self.prefix = (unit['keep'], unit['every'], unit['ow'],
                                                   unit['prefix'])
    self.base = tempfile.mkdtemp(prefix='c11_', dir='/dev/shm' if os.path.isdir('/dev/shm')
                                 else None)
    self.n = 0

  def fresh(self):
    self.n += 1
    d = os.path.join(self.base, f'd{self.n}')
    os.makedirs(d)
    return d

  def name(self, s):
    return f'{self.prefix}{s}'

  def save(self, d, tree, s):
    from flax.training import checkpoints
    with warnings.catch_warnings():
      warnings.simplefilter('ignore')
      return checkpoints.save_checkpoint(d, tree, s, prefix=self.prefix, keep=self.keep,
                                         overwrite=self.ow, keep_every_n_steps=self.every)

  def listed_steps(self, d, steps_universe):
    """Steps whose exact checkpoint name is present (own parser, not flax's)."""
    names = set(os.listdir(d))
    return {s for s in steps_universe if self.name(s) in names}

  def cleanup(self):
    shutil.rmtree(self.base, ignore_errors=True)


def setup_worker():
  import flax
  from flax import config
  from flax.training import checkpoints  # noqa  (imports TF / orbax once)
  _ = config


def _set_backend(backend):
  from flax import config
  config.update('flax_use_orbax_checkpointing', backend == 'orbax')


def run_unit(unit):
  if unit['kind'] == 'async':
    return _run_async(unit)
  res = core.new_result()
  _set_backend(unit['backend'])
  ctx = Ctx(unit)
  try:
    steps = INT_STEPS if unit['family'] == 'int' else ODD_STEPS
    for L in range(1, unit['maxlen'] + 1):
      for hist in itertools.product(steps, repeat=L):
        if unit.get('first') is not None and hist[0] != unit['first']:
          continue
        _run_history(res, ctx, hist, steps, crash=unit.get('crash', True))
  finally:
    ctx.cleanup()
    _set_backend('orbax')
  return res


def _subtree(snap, name):
  return {r: v for r, v in snap.items() if r == name or r.startswith(name + os.sep)}


def _run_history(res, ctx, hist, universe, crash=True):
  from flax import errors
  from flax.training import checkpoints
  u = ctx.u
  hkey = f"{u['backend']}|keep={u['keep']}|every={u['every']}|ow={u['ow']}|{u['prefix']}|{list(hist)}"
  case = dict(backend=u['backend'], keep=u['keep'], every=u['every'], overwrite=u['ow'],
              prefix=u['prefix'], history=list(hist))

  def V(clause, what, **kw):
    core.violation(res, f'{clause}|{hkey}|{kw.get("crash", "")}', what, dict(case, **kw))

  D = ctx.fresh()
  R = set()
  trees = {}
  # ---- prefix of the history (already decided by the shorter histories) -------
  for j, s in enumerate(hist[:-1]):
    tree = mk_tree(j, s)
    res['evals'] += 1
    if must_raise(ctx.backend, R, s, ctx.ow):
      try:
        ctx.save(D, tree, s)
      except Exception:
        pass
      continue
    try:
      ctx.save(D, tree, s)
    except Exception:
      core.outcome(res, 'prefix-diverged')
      return
    R = policy(R, s, ctx.keep, ctx.every, ctx.ow)
    trees[s] = tree
    if ctx.listed_steps(D, universe) != R:
      core.outcome(res, 'prefix-diverged')
      return
  # ---- the last save, recorded -------------------------------------------------
  j, s = len(hist) - 1, hist[-1]
  tree = mk_tree(j, s)
  before = faultfs.snapshot(D)
  rec = faultfs.Recorder(D).install(orbax=(ctx.backend == 'orbax'))
  err = None
  res['evals'] += 1
  try:
    path = ctx.save(D, tree, s)
  except Exception as e:  # noqa
    err = e
  finally:
    rec.uninstall()
  after = faultfs.snapshot(D)
  expect_raise = must_raise(ctx.backend, R, s, ctx.ow)
  step_type = int if u['family'] == 'int' else float
  if expect_raise:
    ok = err is not None and (ctx.backend == 'orbax' or
                              isinstance(err, errors.InvalidCheckpointError))
    if not ok:
      V('must-raise', f'save at step {s} with existing steps {sorted(R)} and overwrite=False '
        f'must raise, got {type(err).__name__ if err else "success"}')
    if after != before:
      V('raise-changed-dir', 'a rejected save changed the directory',
        observed=faultfs.top_names(after), expected=faultfs.top_names(before))
    core.outcome(res, 'rejected')
    return
  if err is not None:
    V('save-raises', f'save raised {type(err).__name__}: {str(err)[:200]}')
    return
  Rn = policy(R, s, ctx.keep, ctx.every, ctx.ow)
  trees_new = dict(trees)
  trees_new[s] = tree
  exp_names = sorted(ctx.name(k) for k in Rn)
  if faultfs.top_names(after) != exp_names:
    V('retention', 'directory after a completed save differs from the retention policy',
      observed=faultfs.top_names(after), expected=exp_names)
  if os.path.basename(path) != ctx.name(s):
    V('returned-path', f'save returned {path}')
  res['evals'] += 2 + len(Rn)
  av = checkpoints.available_steps(D, ctx.prefix, step_type=step_type)
  if list(av) != sorted(Rn):
    V('available-steps', 'available_steps is not the numerically sorted retained set',
      observed=list(av), expected=sorted(Rn))
  lc = checkpoints.latest_checkpoint(D, ctx.prefix)
  if lc is None or os.path.basename(lc) != ctx.name(max(Rn)):
    V('latest', 'latest_checkpoint is not the numerically largest retained step',
      observed=lc, expected=ctx.name(max(Rn)))
  for k in sorted(Rn):
    try:
      t = checkpoints.restore_checkpoint(D, None, step=k, prefix=ctx.prefix)
    except Exception as e:  # noqa
      t = repr(e)
    if not tree_eq(t, trees_new[k]):
      V('restore-step', f'restore_checkpoint(step={k}) is not the tree saved at that step',
        observed=repr(t)[:300])
  core.outcome(res, f'completed:retained={len(Rn)}')
  if not res['samples']:
    res['samples'].append(dict(case, ops=[(o['kind'], o['args']) for o in rec.ops],
                               retained=sorted(Rn)))
  if not crash:
    return
  # ---- every post-crash state of the last save ------------------------------------
  nxt = (max(universe) + 1) if u['family'] == 'int' else 1000
  # the committed form of the new checkpoint: its subtree right after the commit rename
  # (the retention step may delete it again, e.g. an older step saved with keep=1)
  new_sub = _subtree(after, ctx.name(s))
  snaps = [o['before'] for o in rec.ops] + [after]
  for i, o in enumerate(rec.ops):
    if o['kind'] == 'rename' and len(o['args']) > 1 and o['args'][1] == ctx.name(s):
      new_sub = _subtree(snaps[i + 1], ctx.name(s))
  for label, S in rec.crash_states(after):
    nontriv = S != before and S != after
    if nontriv:
      res['nontrivial'].append(core.h([hkey, label]))
    # which checkpoints are complete in S (byte-identical to a committed version)
    C, P, version = set(), set(), {}
    for k in set(R) | {s}:
      sub = _subtree(S, ctx.name(k))
      if not sub:
        continue
      if k in R and sub == _subtree(before, ctx.name(k)):
        C.add(k)
        version[k] = trees[k]
      elif k == s and sub == new_sub:
        C.add(k)
        version[k] = tree
      else:
        P.add(k)
    Dx = ctx.fresh()
    faultfs.materialize(S, Dx)
    res['evals'] += 2
    lc = checkpoints.latest_checkpoint(Dx, ctx.prefix)
    if lc is None:
      if C or P:
        V('crash-latest-none', 'latest_checkpoint returned None although checkpoints exist',
          crash=label, complete=sorted(C))
    else:
      nm = os.path.basename(lc)
      ks = [k for k in set(R) | {s} if ctx.name(k) == nm]
      if not ks:
        V('crash-latest-tmp', f'latest_checkpoint returned {nm}, which is not a committed '
          'checkpoint name', crash=label)
      elif ks[0] not in C:
        site = ('same-step' if ks[0] == s else 'newer-step' if ks[0] > s else 'older-step')
        V(f'crash-latest-partial:{site}', f'latest_checkpoint returned {nm}, which is incomplete in this '
          'crash state', crash=label, complete=sorted(C), partial=sorted(P))
      else:
        k = ks[0]
        if not ctx.ow and k not in ({max(R)} if R else set()) | {s}:
          V('crash-latest-wrong', f'latest is step {k}: neither the previous latest nor the new '
            'checkpoint', crash=label)
        try:
          t = checkpoints.restore_checkpoint(Dx, None, prefix=ctx.prefix)
        except Exception as e:  # noqa
          t = repr(e)
        if not tree_eq(t, version[k]):
          V('crash-restore', f'restore_checkpoint after the crash is not the tree of step {k}',
            crash=label, observed=repr(t)[:300])
    promised = (set(R) & Rn) - ({s} if ctx.ow else set())
    if not promised <= C:
      V('crash-lost', f'checkpoints {sorted(promised - C)} promised by the policy are missing or '
        'incomplete after the crash', crash=label, complete=sorted(C))
    core.outcome(res, f'crash:C={len(C)},P={len(P)},new={s in C}')
    # -- retry of the interrupted step
    committed = s in C and version[s] is tree
    tree2 = mk_tree(j + 10, s)
    res['evals'] += 1
    rerr = None
    try:
      ctx.save(Dx, tree2, s)
    except Exception as e:  # noqa
      rerr = e
    sub_s = _subtree(S, ctx.name(s))
    remainder = (s in P and sub_s and all(r in new_sub and new_sub[r] == v
                                          for r, v in sub_s.items()))
    if remainder:
      # the step had been committed and is being retired again by the retention
      # step: the statement leaves the retry outcome open
      core.outcome(res, 'retry-skipped:committed-then-retired')
    elif committed and not ctx.ow:
      if rerr is None:
        V('retry-committed', 'retrying an already committed step without overwrite must raise',
          crash=label)
    else:
      retry_must_raise = must_raise(ctx.backend, C - {s}, s, ctx.ow) and not ctx.ow
      if rerr is not None and not retry_must_raise:
        V('retry-fails', f'retrying the interrupted save raised {type(rerr).__name__}: '
          f'{str(rerr)[:200]}', crash=label)
      elif rerr is None and not P:
        exp = sorted(policy(C - ({s} if not committed else set()), s, ctx.keep, ctx.every, ctx.ow))
        got = sorted(checkpoints.available_steps(Dx, ctx.prefix, step_type=step_type))
        if got != exp:
          V('retry-retention', 'after retrying the interrupted save the directory does not '
            'follow the retention policy', crash=label, observed=got, expected=exp)
        try:
          t = checkpoints.restore_checkpoint(Dx, None, step=s, prefix=ctx.prefix)
        except Exception as e:  # noqa
          t = repr(e)
        if s in exp and not tree_eq(t, tree2):
          V('retry-restore', 'the retried checkpoint does not restore to the retried tree',
            crash=label, observed=repr(t)[:300])
    # -- a later step on a fresh copy of the crash state
    Dy = ctx.fresh()
    faultfs.materialize(S, Dy)
    tree3 = mk_tree(j + 20, nxt)
    res['evals'] += 1
    lerr = None
    try:
      ctx.save(Dy, tree3, nxt)
    except Exception as e:  # noqa
      lerr = e
    if lerr is not None:
      V('later-fails', f'saving a later step after the crash raised {type(lerr).__name__}: '
        f'{str(lerr)[:200]}', crash=label)
    elif not P:
      exp = sorted(policy(C, nxt, ctx.keep, ctx.every, ctx.ow))
      got = sorted(checkpoints.available_steps(Dy, ctx.prefix, step_type=step_type))
      if got != exp:
        V('later-retention', 'after a later save the directory does not follow the retention '
          'policy applied to the committed checkpoints (an in-flight name was counted or a '
          'promised checkpoint was deleted)', crash=label, observed=got, expected=exp,
          names=sorted(os.listdir(Dy)))
      else:
        for k in exp:
          want = tree3 if k == nxt else version.get(k)
          try:
            t = checkpoints.restore_checkpoint(Dy, None, step=k, prefix=ctx.prefix)
          except Exception as e:  # noqa
            t = repr(e)
          if want is not None and not tree_eq(t, want):
            V('later-restore', f'step {k} does not restore correctly after a later save',
              crash=label, observed=repr(t)[:300])
    shutil.rmtree(Dx, ignore_errors=True)
    shutil.rmtree(Dy, ignore_errors=True)
  shutil.rmtree(D, ignore_errors=True)


# ----------------------------------------------------------------------------
# AsyncManager: every interleaving of the worker with the caller (T)


def _run_async(unit):
  """Histories of saves through an AsyncManager whose executor runs on the
  virtual scheduler; scheduling points at every file-system operation, submit
  and result.  Final directory must equal the synchronous run's; a concurrent
  latest_checkpoint/restore in the caller must only ever see complete
  checkpoints."""
  import types
  from mc.engine import sched
  from flax.training import checkpoints
  res = core.new_result()
  _set_backend('legacy')
  ctx = Ctx(unit)
  try:
    for L in range(1, unit['maxlen'] + 1):
      for hist in itertools.product(INT_STEPS, repeat=L):
        _async_history(res, ctx, unit, hist, sched, checkpoints, types)
  finally:
    ctx.cleanup()
    _set_backend('orbax')
  return res


def _async_history(res, ctx, unit, hist, sched, checkpoints, types):
  u = unit
  hkey = f"async|keep={u['keep']}|every={u['every']}|ow={u['ow']}|{list(hist)}"
  case = dict(keep=u['keep'], every=u['every'], overwrite=u['ow'], history=list(hist))
  # synchronous reference run (real code, no manager)
  Dref = ctx.fresh()
  ref_out = []
  for j, s in enumerate(hist):
    try:
      ctx.save(Dref, mk_tree(j, s), s)
      ref_out.append('ok')
    except Exception as e:  # noqa
      ref_out.append(type(e).__name__)
  ref_snap = faultfs.snapshot(Dref)
  saved_trees = {}
  for j, s in enumerate(hist):
    saved_trees.setdefault(s, []).append(mk_tree(j, s))

  def make_body(ns):
    def body():
      D = ctx.fresh()

      class VFuture:
        def __init__(self):
          self._done = False
          self._res = None
          self._exc = None

        def done(self):
          return self._done

        def result(self, timeout=None):
          sc.point('future-result')
          while not self._done:
            sc.block(lambda: self._done, 'future-wait')
          if self._exc is not None:
            raise self._exc
          return self._res

      class VExecutor:
        def __init__(self, max_workers=1):
          pass

        def submit(self, fn, *a, **k):
          fut = VFuture()

          def run():
            try:
              fut._res = fn(*a, **k)
            except BaseException as e:  # noqa
              if isinstance(e, sched.Abort):
                raise
              fut._exc = e
            fut._done = True
          t = ns.Thread(target=run, name='ckpt-worker')
          t.start()
          return fut

      checkpoints.thread = types.SimpleNamespace(ThreadPoolExecutor=VExecutor)
      rec = faultfs.Recorder(D, on_op=lambda kind, args: sc.point('fs:' + kind))
      rec.install(orbax=False)
      out = []
      seen = []
      try:
        am = checkpoints.AsyncManager()
        for j, s in enumerate(hist):
          try:
            with warnings.catch_warnings():
              warnings.simplefilter('ignore')
              checkpoints.save_checkpoint(D, mk_tree(j, s), s, prefix=ctx.prefix,
                                          keep=ctx.keep, overwrite=ctx.ow,
                                          keep_every_n_steps=ctx.every, async_manager=am)
            out.append('ok')
          except Exception as e:  # noqa
            out.append(type(e).__name__)
          # a concurrent reader in the caller thread
          rec.enabled = False
          lc = checkpoints.latest_checkpoint(D, ctx.prefix)
          if lc is not None:
            try:
              t = checkpoints.restore_checkpoint(lc, None, parallel=False)
            except Exception as e:  # noqa
              t = repr(e)
            seen.append((os.path.basename(lc), t))
          rec.enabled = True
        am.wait_previous_save()
      finally:
        rec.uninstall()
      snap = faultfs.snapshot(D)
      shutil.rmtree(D, ignore_errors=True)
      return out, snap, seen
    return body

  import threading as _real
  holder = {}

  def make_body_bound(ns):
    return make_body(ns)

  # sched.run_once creates the Scheduler; we need it inside the body for points
  def make_body_with_sched(ns):
    body = make_body(ns)
    return body

  first_bad = {}
  outs = {}
  stats = dict(executions=0, points=0)

  def explore():
    stack = [((), None)]
    while stack:
      prefix, expect = stack.pop()
      s_ = sched.Scheduler(prefix, expect, (), 20000)
      ns = s_.namespace()
      nonlocal_sc[0] = s_
      exc = None
      result = None
      try:
        result = s_.run(make_body(ns))
      except (sched.Divergence, sched.HorizonExceeded):
        raise
      except BaseException as e:  # noqa
        exc = e
      x = sched.Execution([p.chosen for p in s_.points], s_.points, result, exc,
                          s_.deadlock_in_body, getattr(s_, 'stuck', []))
      stats['executions'] += 1
      stats['points'] += len(x.points)
      check(x)
      pre = 0
      exp = [p.enabled for p in x.points]
      alts = []
      for i, p in enumerate(x.points):
        if i >= len(prefix):
          cost = pre + (1 if p.running_enabled else 0)
          if cost <= u['bound']:
            for alt in range(1, len(p.enabled)):
              alts.append((tuple(x.choices[:i]) + (alt,), exp[:i + 1]))
        if p.chosen != 0 and p.running_enabled:
          pre += 1
      stack.extend(reversed(alts))

  nonlocal_sc = [None]

  class _SC:
    def point(self, k):
      nonlocal_sc[0].point(k)

    def block(self, f, k):
      nonlocal_sc[0].block(f, k)
  sc = _SC()

  def check(x):
    bad = None
    if x.deadlock:
      bad = ('deadlock', f'deadlock {x.deadlock}')
    elif x.exc is not None:
      bad = ('exc', f'{type(x.exc).__name__}: {x.exc}')
    elif x.stuck:
      bad = ('stuck', f'worker still blocked at the end: {x.stuck}')
    else:
      out, snap, seen = x.result
      label = ','.join(out)
      outs[label] = outs.get(label, 0) + 1
      if out != ref_out:
        bad = ('outcome', f'async saves returned {out}, synchronous saves {ref_out}')
      elif snap != ref_snap:
        bad = ('final-dir', 'directory after the async saves differs from the synchronous run: '
               f'{faultfs.top_names(snap)} vs {faultfs.top_names(ref_snap)}')
      else:
        for nm, t in seen:
          ks = [k for k in INT_STEPS if ctx.name(k) == nm]
          if not ks or not any(tree_eq(t, tt) for tt in saved_trees.get(ks[0], [])):
            bad = ('concurrent-read', f'a concurrent latest/restore saw {nm} -> {repr(t)[:120]}')
    if x.preemptions() > 0:
      res['nontrivial'].append(core.h([hkey, x.choices]))
    if bad and bad[0] not in first_bad:
      first_bad[bad[0]] = (bad[1], list(x.choices))

  explore()
  res['evals'] += stats['executions']
  for label, c in outs.items():
    core.outcome(res, 'async:' + label, c)
  for clause, (text, choices) in first_bad.items():
    core.violation(res, f'async-{clause}|{hkey}', f'AsyncManager {hkey}: {text}',
                   dict(case, schedule=choices))
  if len(res['samples']) < 2:
    res['samples'].append(dict(case, schedules=stats['executions'], sync_outcome=ref_out))
  shutil.rmtree(Dref, ignore_errors=True)
