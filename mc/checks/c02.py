"""C02 — variable tree mirrors the module tree; init / apply / shape-only init agree
(DESIGN §4 C02).  Bounded-exhaustive enumeration of DSL module programs
(including every illegal naming combination) with the reference interpreter and
differential oracles.
"""
from __future__ import annotations

import itertools
from typing import Any
import os

import numpy as np

from mc.engine import core
from mc.engine.canon import canon_tree, np_tree, flat_paths, jsonable
from mc.models import dsl

PROPERTY = 'C02'
LEVEL = 'exploration'
RULE = ('every DSL module program up to the tier size, legal and illegal (name clashes between '
        'children, child/variable, two variables of one collection and their legal twins), compact '
        'classes A/B and setup class S, children called once or twice, one instance shared by two '
        'parents; x 3 input shapes (+ bf16 for the shape-only clause). Per program: init vs '
        'reference tree; apply(init vars) structure and output; every parameter path deleted / '
        'reshaped / collection deleted under 3 mutable filters; every child applied standalone on '
        'its subtree and via bind/unbind; lazy_init / eval_shape(init) / jit(init); auto-named children '
        'created in helper methods (direct / plain / @nn.jit / @nn.remat, 2-3 slots, 4 in thorough) vs '
        'the inlined program. Non-trivial: '
        'program has a child or a clash; distinct by program text')
ASSUMPTIONS = [
  'programs are those of the DSL; integer-valued float32 data',
  'where a shared instance stores its variables is compared between init/apply/bind, not fixed',
]

LEAVES = [('param', 'a', 's'), ('param', 'a', 'v'), ('param', 'b', 's'),
          ('var', 'stats', 'a', 'read'), ('var', 'cnt', 'a', 'count'), ('var', 'stats', 'b', 'acc'),
          ('sow', 'aux', 'a'), ('rng', 'dropout')]
SHAPES = [(2,), (1, 2), (3, 2)]


def bounds(tier):
  return dict(statements=3 if tier == 'quick' else 4, nesting=2,
              shapes=SHAPES, clash_statements=2 if tier == 'quick' else 3,
              helper_slots=3 if tier == 'quick' else 4, helper_programs=len(_helper_programs(tier)))


def _legal_programs(tier):
  if tier == 'quick':
    ds = dsl.defs_upto(3, 2, LEAVES, variants=[('A', None, 1), ('B', None, 2), ('A', 'c', 1),
                                               ('B', 'a', 1)])
  else:
    ds = dsl.defs_upto(3, 2, LEAVES, child_cls=('A', 'B'), child_names=(None, 'a', 'c'),
                       times=(1, 2))
    seen = set(ds)
    for d in dsl.defs_upto(4, 3, LEAVES[:6], variants=[('A', None, 1), ('B', 'c', 2)]):
      if d not in seen:
        ds.append(d)
  progs = []
  for d in ds:
    progs.append(('A', d))
    if dsl.setup_ok(d) and dsl.has(d, lambda st: st[0] == 'child'):
      progs.append(('S', d))
  return progs


def _clash_programs(tier):
  """All (also illegal) flat definitions over a naming alphabet that collides."""
  kid = (('param', 'a', 's'),)
  alpha = [('param', 'a', 's'), ('param', 'a', 'v'), ('var', 'stats', 'a', 'read'),
           ('var', 'cnt', 'a', 'count'), ('sow', 'stats', 'a'), ('sow', 'aux', 'a'),
           ('child', 'A', kid, 'a', 1), ('child', 'B', kid, 'a', 1), ('child', 'A', kid, None, 1),
           ('child', 'A', kid, 'A_0', 1), ('perturb', 'a'), ('var', 'perturbations', 'a', 'read')]
  n = 2 if tier == 'quick' else 3
  out = []
  for k in range(2, n + 1):
    for d in itertools.product(alpha, repeat=k):
      out.append(('A', tuple(d)))
  return out


def units(tier, seed):
  us = []
  progs = _legal_programs(tier)
  chunk = 6 if tier == 'quick' else 12
  for i in range(0, len(progs), chunk):
    us.append(dict(kind='legal', progs=[[c, dsl.tolist(d)] for c, d in progs[i:i + chunk]]))
  cl = _clash_programs(tier)
  for i in range(0, len(cl), 36):
    us.append(dict(kind='clash', progs=[[c, dsl.tolist(d)] for c, d in cl[i:i + 36]]))
  shared = [d for d in dsl.defs_upto(2, 0, LEAVES[:6])]
  for i in range(0, len(shared), 8):
    us.append(dict(kind='shared', defs=[dsl.tolist(d) for d in shared[i:i + 8]]))
  us.append(dict(kind='share_scope'))
  # auto-named children created in helper methods, plain or wrapped in a lifted transform
  hs = _helper_programs(tier)
  for i in range(0, len(hs), 24):
    us.append(dict(kind='helper', progs=[list(map(list, h)) for h in hs[i:i + 24]]))
  return us


HELPER_HOWS_QUICK = ['d', 'j', 'r']
HELPER_HOWS = ['d', 'p', 'j', 'r']   # direct, plain helper, @nn.jit helper, @nn.remat helper
HELPER_KIDS = ['K1', 'K2', 'K12']    # helper bodies: one K1, one K2, a K1 then a K2


def _helper_programs(tier):
  hows = HELPER_HOWS_QUICK if tier == 'quick' else HELPER_HOWS
  n = 3 if tier == 'quick' else 4
  slots = [(h, k) for h in hows for k in HELPER_KIDS if not (h == 'd' and k == 'K12')]
  out = []
  for ln in range(2, n + 1):
    for prog in itertools.product(slots, repeat=ln):
      if all(h in ('d', 'p') for h, _ in prog) and any(h == 'p' for h, _ in prog) and tier == 'quick':
        continue
      if all(h == 'd' for h, _ in prog):
        continue          # the plain twin itself
      out.append(prog)
  return out


def run_unit(unit):
  res = core.new_result()
  if unit['kind'] == 'legal':
    for cls, dl in unit['progs']:
      _legal(res, cls, dsl.fromlist(dl))
  elif unit['kind'] == 'clash':
    for cls, dl in unit['progs']:
      _clash(res, cls, dsl.fromlist(dl))
  elif unit['kind'] == 'share_scope':
    _share_scope(res)
  elif unit['kind'] == 'helper':
    for prog in unit['progs']:
      _helper(res, tuple(tuple(sl) for sl in prog))
  else:
    for dl in unit['defs']:
      _shared(res, dsl.fromlist(dl))
  return res


def _share_scope(res):
  """nn.share_scope(wrapper, block) re-attaches the block's children under the wrapper: every
  module still owns its own subtree when the names differ, and a name that is already taken in
  the wrapper (by a submodule, a param or a variable) is reported as a clash, never shared.
  Names x what holds the name in the wrapper x setup / compact wrapper x one or two block
  children."""
  import jax
  import jax.numpy as jnp
  import flax.linen as nn
  x = jnp.asarray([1.0, 2.0], jnp.float32)
  rngs = {'params': jax.random.key(4)}

  class Kid(nn.Module):
    @nn.compact
    def __call__(self, x):
      return x * self.param('w', lambda k: jnp.floor(jax.random.uniform(k, (2,)) * 8) + 1)

  class Block(nn.Module):
    kids: tuple = ()

    def __call__(self, x):
      for k in self.kids:
        x = k(x) + 1
      return x

  class BlockF(nn.Module):
    """children arrive as dataclass fields and are named after the field"""
    order: tuple = ()
    p: nn.Module = None
    q: nn.Module = None

    def __call__(self, x):
      for n in self.order:
        x = getattr(self, n)(x) + 1
      return x

  def wrapper(style, holder, own_name, kid_names, form='tuple'):
    def mk_block():
      if form == 'field':
        return BlockF(order=tuple(kid_names), **{n: Kid() for n in kid_names})
      return Block(kids=tuple(Kid(name=n) for n in kid_names))

    def own(self, x):
      if holder == 'module':
        return Kid(name=own_name)(x) if style == 'compact' else self.own(x)
      if holder == 'param':
        return x * self.param(own_name, lambda k: jnp.ones((2,)) * 3)
      return x * self.variable('params', own_name, lambda: jnp.ones((2,)) * 5).value

    if style == 'setup':
      class W(nn.Module):
        def setup(self):
          if holder == 'module':
            self.own = Kid(name=own_name)
          self.block = mk_block()
          nn.share_scope(self, self.block)

        def __call__(self, x):
          return self.block(x) + 10.0 * own(self, x)
    else:
      class W(nn.Module):
        @nn.compact
        def __call__(self, x):
          y = own(self, x)
          block = mk_block()
          nn.share_scope(self, block)
          return block(x) + 10.0 * y
    return W()

  for style in ('setup', 'compact'):
    for holder in ('module', 'param', 'variable'):
      if style == 'setup' and holder != 'module':
        continue      # params / variables cannot be declared in setup before the block
      for own_name, kid_names, form in itertools.product(
          ('p', 'q', 'z'), (('p',), ('p', 'q'), ('q', 'p')), ('tuple', 'field')):
        if form == 'field' and style == 'compact':
          # a module constructed inside the wrapper's compact method is the wrapper's own
          # auto-named child whatever field of the block it is handed to: nothing to re-attach
          continue
        if True:
          clash = own_name in kid_names
          key = f'{style}|{holder}|{own_name}|{",".join(kid_names)}|{form}'
          case = dict(style=style, holder=holder, own_name=own_name, kid_names=list(kid_names),
                      form=form)
          res['evals'] += 1
          try:
            y, vs = wrapper(style, holder, own_name, kid_names, form).init_with_output(rngs, x)
            err = None
          except Exception as e:  # noqa
            err = e
          if clash:
            if err is None:
              core.violation(res, f'share-scope-clash-accepted|{key}',
                             'a name taken in the wrapper was given to a re-attached child as '
                             'well: init succeeded and two owners share one subtree', case,
                             observed=jsonable(_shapes(vs)))
            elif _kind(err) != 'name':
              core.violation(res, f'share-scope-clash-kind|{key}',
                             f'clash reported as {_kind(err)}, not as a name clash', case)
            core.outcome(res, 'share-scope:clash-' + ('accepted' if err is None else 'raises'))
          else:
            if err is not None:
              core.violation(res, f'share-scope-raises|{key}', f'{type(err).__name__}: {err}'[:300],
                             case)
              continue
            want = sorted(set(kid_names) | {own_name})
            if sorted(vs['params']) != want:
              core.violation(res, f'share-scope-tree|{key}',
                             'children re-attached by share_scope do not sit next to the '
                             'wrapper\'s own entries', case, observed=sorted(vs['params']),
                             expected=want)
            y2 = wrapper(style, holder, own_name, kid_names, form).apply(vs, x)
            if canon_tree(np.asarray(y2)) != canon_tree(np.asarray(y)):
              core.violation(res, f'share-scope-apply|{key}', 'apply(init vars) != init output', case)
            core.outcome(res, 'share-scope:ok')
          res['nontrivial'].append(core.h(key))
  res['samples'].append(dict(kind='share_scope'))


_HELPER_CLS = None


def _helper_cls():
  global _HELPER_CLS
  if _HELPER_CLS is not None:
    return _HELPER_CLS
  import jax
  import jax.numpy as jnp
  import flax.linen as nn

  def winit(key, shape):
    return jnp.floor(jax.random.uniform(key, shape) * 8) + 1

  class K1(nn.Module):
    @nn.compact
    def __call__(self, x):
      return x * self.param('w', winit, (2,)) + 1

  class K2(nn.Module):
    @nn.compact
    def __call__(self, x):
      c = self.variable('cnt', 'n', lambda: jnp.zeros(()))
      if self.is_mutable_collection('cnt'):
        c.value = c.value + 1
      return x + self.param('b', winit, (2,))

  def body(self, x, k):
    if k in ('K1', 'K12'):
      x = K1()(x)
    if k in ('K2', 'K12'):
      x = K2()(x)
    return x

  class Prog(nn.Module):
    slots: tuple = ()

    @nn.compact
    def __call__(self, x):
      for how, k in self.slots:
        if how == 'd':
          x = body(self, x, k)
        else:
          x = getattr(self, f'h_{how}_{k}')(x)
      return x

    def h_p_K1(self, x): return body(self, x, 'K1')
    def h_p_K2(self, x): return body(self, x, 'K2')
    def h_p_K12(self, x): return body(self, x, 'K12')
    @nn.jit
    def h_j_K1(self, x): return body(self, x, 'K1')
    @nn.jit
    def h_j_K2(self, x): return body(self, x, 'K2')
    @nn.jit
    def h_j_K12(self, x): return body(self, x, 'K12')
    @nn.remat
    def h_r_K1(self, x): return body(self, x, 'K1')
    @nn.remat
    def h_r_K2(self, x): return body(self, x, 'K2')
    @nn.remat
    def h_r_K12(self, x): return body(self, x, 'K12')

  _HELPER_CLS = Prog
  return Prog


def _helper(res, prog):
  """Auto-named children created inside helper methods (plain / @nn.jit / @nn.remat) called
  from a compact method: the i-th instance of class K is K_i wherever it is created, and the
  tree equals the tree of the same program with every helper inlined."""
  import jax
  Prog = _helper_cls()
  pkey = 'helper:' + ','.join(h + ':' + k for h, k in prog)
  case = dict(slots=[list(sl) for sl in prog])
  x = _x((2,), 0)
  rngs = {'params': jax.random.key(3)}

  def V(tag, what, **kw):
    core.violation(res, f'{tag}|{pkey}', what, dict(case, **{k: jsonable(v) for k, v in kw.items()}))

  # reference: K_i naming by order of creation
  n1 = n2 = 0
  names = []
  for _, k in prog:
    if k in ('K1', 'K12'):
      names.append(f'K1_{n1}')
      n1 += 1
    if k in ('K2', 'K12'):
      names.append(f'K2_{n2}')
      n2 += 1
  plain = Prog(slots=tuple(('d', k) for _, k in prog))
  m = Prog(slots=prog)
  res['evals'] += 4
  o_ref, v_ref = plain.init_with_output(rngs, x)
  if sorted(v_ref['params']) != sorted(names):
    V('helper-ref-names', 'the inlined program itself is not named K_i by creation order',
      observed=sorted(v_ref['params']), expected=sorted(names))
    return
  try:
    o, v = m.init_with_output(rngs, x)
  except Exception as e:  # noqa
    V('helper-init-raises', f'{type(e).__name__}: {e}'[:300])
    return
  if sorted(v['params']) != sorted(names):
    V('helper-names', 'children created in helper methods are not named K_i by creation order '
      '(two distinct children may share one subtree)', observed=sorted(v['params']),
      expected=sorted(names))
  # (initial values may differ: a lifted transform derives its rng keys differently; structure,
  # shapes and dtypes may not, and apply below is compared on the same variables)
  if _shapes(v) != _shapes(v_ref):
    V('helper-tree', 'variable tree (paths, shapes, dtypes) differs from the same program with '
      'the helpers inlined', observed=_shapes(v), expected=_shapes(v_ref))
  try:
    o1 = m.apply(v, x)
    if canon_tree(np.asarray(o1)) != canon_tree(np.asarray(plain.apply(v, x))):
      V('helper-apply-own', 'apply on the variables init returned differs from the inlined program')
  except Exception as e:  # noqa
    V('helper-apply-raises', f'apply(init vars): {type(e).__name__}: {e}'[:300])
  try:
    o2, upd = m.apply(v_ref, x, mutable=['cnt'])
    o2r, updr = plain.apply(v_ref, x, mutable=['cnt'])
    if canon_tree(np.asarray(o2)) != canon_tree(np.asarray(o2r)) or \
       canon_tree(np_tree(upd), True) != canon_tree(np_tree(updr), True):
      V('helper-apply', 'apply on the inlined program\'s variables differs from the inlined program',
        observed=np_tree(upd), expected=np_tree(updr))
  except Exception as e:  # noqa
    V('helper-apply-raises', f'{type(e).__name__}: {e}'[:300])
  core.outcome(res, 'helper:' + ''.join(sorted(set(h for h, _ in prog))))
  res['nontrivial'].append(core.h(pkey))


def _kind(e):
  from mc.checks.c01 import _err_kind
  return _err_kind(e)


def _x(shape, seed):
  import jax.numpy as jnp
  n = int(np.prod(shape))
  base = (np.arange(n) % 3 + 1 + (seed % 2)).astype(np.float32).reshape(shape)
  return jnp.asarray(base)


def _shapes(t):
  import jax
  return jax.tree.map(lambda a: (tuple(np.shape(a)), str(np.asarray(a).dtype)
                                 if not hasattr(a, 'dtype') else str(a.dtype)), t)


def _legal(res, cls, d):
  import jax
  import jax.numpy as jnp
  seed = int(os.environ.get('VERIF_SEED', '0'))
  pkey = f'{cls}:{d!r}'
  nontriv = dsl.has(d, lambda st: st[0] == 'child')
  m = dsl.make(cls, d)
  rngs = {'params': jax.random.key(1), 'dropout': jax.random.key(2)}
  init_mut = lambda c: c != 'intermediates'
  stateful = dsl.has(d, lambda st: st[0] == 'var' and st[3] in ('count', 'acc'))
  has_rng = dsl.has(d, lambda st: st[0] == 'rng')
  data_dep = dsl.has(d, lambda st: st[0] == 'sow' or (st[0] == 'var' and st[3] == 'acc'))
  for shape in SHAPES:
    x = _x(shape, seed)
    case = dict(cls=cls, d=dsl.tolist(d), shape=list(shape))

    def V(tag, what, **kw):
      core.violation(res, f'{tag}|{pkey}|{shape}', what, dict(case, **{k: jsonable(v)
                                                                       for k, v in kw.items()}))
    res['evals'] += 1
    out0, v0 = m.init_with_output(rngs, x)
    keys0 = [np.asarray(k) for k in out0['k']]
    trace = []
    rx, rstore, _ = dsl.ref_run(cls, d, {}, init_mut, np.asarray(x), keys=keys0, trace=trace)
    if canon_tree(np_tree(v0)) != canon_tree(rstore):
      V('init-tree', 'init variable tree differs from the reference (paths / values)',
        observed=np_tree(v0), expected=rstore)
      continue
    if canon_tree(np.asarray(out0['x'])) != canon_tree(rx):
      V('init-out', 'init output differs from the reference')
    core.outcome(res, 'init-ok')
    # (2) apply consumes exactly init's variables
    res['evals'] += 2
    try:
      o1 = m.apply(v0, x, rngs={'dropout': rngs['dropout']})
    except Exception as e:  # noqa
      V('apply-needs-init', f'apply on init\'s variables raised {_kind(e)}')
      continue
    keys1 = [np.asarray(k) for k in o1['k']]
    if canon_tree(keys1) != canon_tree(keys0):
      V('apply-keys', 'apply drew different rng keys than init for the same rngs')
    rx1, _, _ = dsl.ref_run(cls, d, np_tree(v0), lambda c: False, np.asarray(x), keys=keys1)
    if canon_tree(np.asarray(o1['x'])) != canon_tree(rx1):
      V('apply-out', 'apply(init vars) output differs from the reference')
    if not stateful and canon_tree(np.asarray(o1['x'])) != canon_tree(np.asarray(out0['x'])):
      V('apply-vs-init', 'apply on init\'s variables does not reproduce init\'s output')
    o2, upd = m.apply(v0, x, rngs={'dropout': rngs['dropout']}, mutable=True)
    p_init = sorted(map(repr, flat_paths(np_tree(v0)).keys()))
    p_upd = sorted(map(repr, flat_paths(np_tree(upd)).keys()))
    # sow appends to a tuple: compare container paths, not tuple indices
    strip = lambda ps: sorted({p for p in ps})
    if _paths_no_idx(np_tree(upd)) != _paths_no_idx(np_tree(v0)):
      V('apply-structure', 'apply(mutable=True) created, dropped or renamed a variable',
        observed=p_upd, expected=p_init)
    if shape != SHAPES[0] and os.environ.get('VERIF_TIER', 'quick') == 'quick':
      continue   # quick: the edit / standalone / shape-only clauses run on the first shape
    # (3) every parameter path: delete / reshape / drop the collection
    params = flat_paths(np_tree(v0.get('params', {})))
    for ppath in sorted(params, key=repr):
      if isinstance(params[ppath], dict):
        continue
      for mut in (False, ['cnt'], ['stats', 'cnt', 'aux']):
        for edit in ('delete', 'reshape'):
          ve = jax.tree.map(lambda a: a, dict(v0))
          ve = _edit(np_tree(ve), ('params',) + ppath, edit)
          res['evals'] += 1
          try:
            r = m.apply(jax.tree.map(jnp.asarray, ve), x,
                        rngs={'params': jax.random.key(9), 'dropout': rngs['dropout']},
                        mutable=mut)
            V(f'param-{edit}-silent',
              f'apply with parameter {ppath} {edit}d returned instead of raising '
              '(silent re-initialisation / shape ignored)', mutable=mut, path=list(ppath))
          except Exception as e:  # noqa
            k = _kind(e)
            want = 'lookup' if edit == 'delete' else 'shape'
            if k != want:
              V(f'param-{edit}-error', f'expected a {want} error, got {k}', mutable=mut,
                path=list(ppath))
            core.outcome(res, f'param-{edit}-raises')
    if 'params' in v0:
      ve = {c: v for c, v in v0.items() if c != 'params'}
      res['evals'] += 1
      try:
        m.apply(ve, x, rngs={'params': jax.random.key(9), 'dropout': rngs['dropout']})
        V('params-dropped-silent', 'apply without the params collection returned')
      except Exception as e:  # noqa
        if _kind(e) != 'lookup':
          V('params-dropped-error', f'expected a lookup error, got {_kind(e)}')
    # (4) every child standalone on its subtree == in-parent (immutable apply)
    if not has_rng:
      trace = []
      dsl.ref_run(cls, d, np_tree(v0), lambda c: False, np.asarray(x), keys=[], trace=trace)
      for t in trace:
        if len(t['path']) != 1 or t['call'] != 0:
          continue
        name = t['path'][0]
        sub = {c: v[name] for c, v in v0.items() if isinstance(v, dict) and name in v}
        cm = dsl.make(dsl.base_cls(t['cls']), t['d'])
        res['evals'] += 1
        try:
          so = cm.apply(sub, jnp.asarray(t['x_in']))
        except Exception as e:  # noqa
          V('standalone-raises', f'child {name} applied on its own subtree raised {_kind(e)}',
            child=name)
          continue
        exp = _first_call_out(cls, d, v0, x, name)
        if canon_tree(np.asarray(so['x'])) != canon_tree(exp):
          V('standalone-out', f'child {name} standalone output differs from in-parent output',
            child=name)
        core.outcome(res, 'standalone-ok')
        if cls == 'S':
          res['evals'] += 1
          try:
            bound = m.bind(v0)
            ch = getattr(bound, name)
            um, uv = ch.unbind()
            bo = um.apply(uv, jnp.asarray(t['x_in']))
            if canon_tree(np.asarray(bo['x'])) != canon_tree(exp):
              V('unbind-out', f'bind().{name}.unbind() does not compute the in-parent output',
                child=name)
            if canon_tree(np_tree(uv)) != canon_tree(np_tree(sub)):
              V('unbind-vars', f'unbind() variables differ from the subtree under {name}',
                child=name)
          except Exception as e:  # noqa
            V('unbind-raises', f'bind/unbind of {name} raised {type(e).__name__}: {e}'[:300],
              child=name)
    # (6) shape-only initialisation
    for dt in (jnp.float32, jnp.bfloat16):
      xs = x.astype(dt)
      res['evals'] += 4
      vc = m.init(rngs, xs)
      ref_shapes = canon_tree(jax.tree.map(lambda a: (tuple(a.shape), str(a.dtype)), vc))
      spec = jax.ShapeDtypeStruct(xs.shape, xs.dtype)
      alts = {
        'lazy_init': lambda: m.lazy_init(rngs, spec),
        'eval_shape': lambda: jax.eval_shape(m.init, rngs, xs),
        'jit': lambda: jax.jit(m.init)(rngs, xs),
      }
      for nm, f in alts.items():
        try:
          va = f()
        except Exception as e:  # noqa
          from flax import errors as _fe
          if nm == 'lazy_init' and data_dep and isinstance(e, _fe.LazyInitError):
            # documented: lazy_init cannot produce variables whose value depends on the data
            core.outcome(res, 'lazy_init-data-dependent')
            continue
          V(f'shape-only-raises:{nm}', f'{nm} raised {type(e).__name__}: {e}'[:300], dtype=str(dt))
          continue
        got = canon_tree(jax.tree.map(lambda a: (tuple(a.shape), str(a.dtype)), va))
        if got != ref_shapes:
          V(f'shape-only:{nm}', f'{nm} gives a different tree / shapes / dtypes than init',
            dtype=str(dt))
        if nm == 'jit' and canon_tree(np_tree(va)) != canon_tree(np_tree(vc)):
          V('jit-init-values', 'jit(init) values differ from init', dtype=str(dt))
      if dt is not jnp.float32:
        continue
      # the same agreement under a non-default `mutable` (which collections init may create)
      from flax import errors as _fe
      shp = lambda t: canon_tree(jax.tree.map(lambda a: (tuple(a.shape), str(a.dtype)), t))
      for mf in ('params', ['params', 'aux'], {'deny': 'aux'}, ['params', 'cnt', 'stats']):
        ff = dsl.to_flax_filter(mf)
        res['evals'] += 3
        outs = {}
        for nm, f in (('init', lambda: m.init(rngs, xs, mutable=ff)),
                      ('lazy_init', lambda: m.lazy_init(rngs, spec, mutable=ff)),
                      ('eval_shape', lambda: jax.eval_shape(
                        lambda r, a: m.init(r, a, mutable=ff), rngs, xs))):
          try:
            outs[nm] = ('ok', shp(f()))
          except _fe.LazyInitError:
            outs[nm] = ('lazy', None)
          except Exception as e:  # noqa
            outs[nm] = ('raises', _kind(e))
        for nm in ('lazy_init', 'eval_shape'):
          if outs[nm][0] == 'lazy' and data_dep:
            core.outcome(res, 'lazy_init-data-dependent')
            continue
          if outs[nm] != outs['init']:
            V(f'shape-only-mutable:{nm}',
              f'{nm}(mutable={mf!r}) does not agree with init(mutable={mf!r}) '
              '(tree / shapes / dtypes, or which of them raises)', mutable=mf,
              observed=repr(outs[nm])[:300], expected=repr(outs['init'])[:300])
        core.outcome(res, f'shape-only-mutable:{outs["init"][0]}')
  if nontriv:
    res['nontrivial'].append(core.h(pkey))
  if not res['samples']:
    res['samples'].append(dict(cls=cls, d=dsl.tolist(d), shapes=SHAPES))


def _paths_no_idx(t):
  return sorted({repr(tuple(p for p in path if not isinstance(p, int)))
                 for path in flat_paths(t).keys()})


def _edit(tree, path, edit):
  d = tree
  for p in path[:-1]:
    d = d[p]
  if edit == 'delete':
    del d[path[-1]]
  else:
    a = np.asarray(d[path[-1]])
    d[path[-1]] = np.zeros(tuple(a.shape) + (3,) if a.ndim == 0 else (a.shape[0] + 1,),
                           np.float32)
  return tree


def _first_call_out(cls, d, v0, x, name):
  trace = []
  dsl.ref_run(cls, d, np_tree(v0), lambda c: False, np.asarray(x), keys=[], trace=trace)
  for t in trace:
    if t['path'] == (name,) and t['call'] == 0:
      return t['x_out']
  raise AssertionError(name)


def _clash(res, cls, d):
  import jax
  pkey = f'{cls}:{d!r}'
  x = _x((2,), 0)
  m = dsl.make(cls, d)
  rngs = {'params': jax.random.key(1), 'dropout': jax.random.key(2)}
  res['evals'] += 1
  err = None
  try:
    out0, v0 = m.init_with_output(rngs, x)
  except Exception as e:  # noqa
    err = e
  exp_err = None
  try:
    rx, rstore, _ = dsl.ref_run(cls, d, {}, lambda c: c != 'intermediates', np.asarray(x),
                                keys=[np.zeros(2, np.uint32)] * 8)
  except dsl.RefError as re:
    exp_err = re.kind
  case = dict(cls=cls, d=dsl.tolist(d))
  if exp_err == 'name':
    if err is None:
      core.violation(res, f'clash-silent|{pkey}',
                     'a name clash (between submodules, a submodule and a variable, or two '
                     'variables of one collection) did not raise', case,
                     observed=np_tree(v0))
    elif _kind(err) != 'name':
      core.violation(res, f'clash-error|{pkey}', f'name clash raised {_kind(err)}', case)
    core.outcome(res, 'clash-raises')
    res['nontrivial'].append(core.h(pkey))
  elif exp_err is None:
    if err is not None:
      core.violation(res, f'legal-raises|{pkey}',
                     f'legal naming (same name in different collections) raised {_kind(err)}', case)
    elif canon_tree(np_tree(v0)) != canon_tree(rstore):
      core.violation(res, f'legal-tree|{pkey}', 'variable tree differs from the reference', case,
                     observed=np_tree(v0), expected=rstore)
    core.outcome(res, 'legal-ok')
  elif exp_err == 'sow-type':
    # sow onto an existing plain variable: an invalid program, any error is fine
    if err is None:
      core.violation(res, f'sow-type-silent|{pkey}', 'sow appended to a non-tuple variable', case)
    core.outcome(res, 'invalid-sow')
  else:
    if err is None or _kind(err) != exp_err:
      core.violation(res, f'other-error|{pkey}',
                     f'reference expects {exp_err}, got {None if err is None else _kind(err)}', case)
    core.outcome(res, 'other-' + exp_err)
  if not res['samples']:
    res['samples'].append(case)


def _shared(res, sd):
  """One instance handed to two parents owns one set of variables."""
  import jax
  import jax.numpy as jnp
  import flax.linen as nn
  pkey = f'shared:{sd!r}'
  x = _x((2,), 0)
  rngs = {'params': jax.random.key(1)}
  case = dict(shared_def=dsl.tolist(sd))

  def V(tag, what, **kw):
    core.violation(res, f'{tag}|{pkey}', what, dict(case, **{k: jsonable(v) for k, v in kw.items()}))

  class TopC(nn.Module):
    @nn.compact
    def __call__(self, x):
      s = dsl.A(d=sd)
      p1 = dsl.A(d=(('sub',),), sub=s, name='p1')
      p2 = dsl.A(d=(('sub',),), sub=s, name='p2')
      return p2(p1(x)['x'])

  class TopS(nn.Module):
    def setup(self):
      s = dsl.A(d=sd)
      self.p1 = dsl.A(d=(('sub',),), sub=s)
      self.p2 = dsl.A(d=(('sub',),), sub=s)

    def __call__(self, x):
      return self.p2(self.p1(x)['x'])

  class TopF(nn.Module):
    """the shared instance reaches two different parents as a dataclass field"""
    left: Any = None
    right: Any = None

    @nn.compact
    def __call__(self, x):
      return self.right(self.left(x)['x'])

  def mk_field():
    s = dsl.A(d=sd)
    return TopF(left=dsl.A(d=(('sub',),), sub=s), right=dsl.A(d=(('sub',),), sub=s))

  single = dsl.A(d=(('child', 'A', sd, 's', 2),))
  res['evals'] += 1
  o_ref, v_ref = single.init_with_output(rngs, x)
  n_ref = len(jax.tree.leaves(v_ref))
  for nm, T in (('compact', TopC), ('setup', TopS), ('field', mk_field)):
    res['evals'] += 3
    try:
      o, v = T().init_with_output(rngs, x)
    except Exception as e:  # noqa
      V(f'shared-raises:{nm}', f'{type(e).__name__}: {e}'[:300])
      continue
    if len(jax.tree.leaves(v)) != n_ref:
      V(f'shared-dup:{nm}', 'an instance shared by two parents owns more than one set of '
        'variables', observed=np_tree(v))
    if canon_tree(np.asarray(o['x'])) != canon_tree(np.asarray(o_ref['x'])):
      V(f'shared-out:{nm}', 'shared instance does not compute like one instance called twice')
    o2 = T().apply(v, x)
    # count/acc variables are read-only in apply: compare with the single-instance program
    o2r = single.apply(v_ref, x)
    if canon_tree(np.asarray(o2['x'])) != canon_tree(np.asarray(o2r['x'])):
      V(f'shared-apply:{nm}', 'apply of the shared-instance program differs from the reference')
    o3, upd = T().apply(v, x, mutable=True)
    if _paths_no_idx(np_tree(upd)) != _paths_no_idx(np_tree(v)):
      V(f'shared-structure:{nm}', 'apply moved the shared instance\'s variables',
        observed=_paths_no_idx(np_tree(upd)), expected=_paths_no_idx(np_tree(v)))
    # bind / unbind of the whole program and of each parent keeps the sharing
    res['evals'] += 3
    try:
      um, uv = T().bind(v).unbind()
      ou = um.apply(uv, x)
      if canon_tree(np.asarray(ou['x'])) != canon_tree(np.asarray(o2['x'])):
        V(f'shared-unbind-out:{nm}', 'bind().unbind() of a program with a shared instance does not '
          'compute like the original')
      if canon_tree(np_tree(uv)) != canon_tree(np_tree(v)):
        V(f'shared-unbind-vars:{nm}', 'unbind() returned different variables',
          observed=np_tree(uv), expected=np_tree(v))
      oi, vi = um.init_with_output(rngs, x)
      if canon_tree(np_tree(vi)) != canon_tree(np_tree(v)):
        V(f'shared-unbind-init:{nm}', 'init of the unbound module no longer shares the instance '
          '(different variable tree)', observed=np_tree(vi), expected=np_tree(v))
      es = jax.eval_shape(um.init, rngs, x)
      if _paths_no_idx(np_tree(jax.tree.map(lambda a: np.zeros(a.shape), es))) != \
         _paths_no_idx(np_tree(v)):
        V(f'shared-unbind-shape:{nm}', 'eval_shape(init) of the unbound module has another tree')
      om, _ = um.apply(uv, x, mutable=True)
      if canon_tree(np.asarray(om['x'])) != canon_tree(np.asarray(o3['x'])):
        V(f'shared-unbind-mutable:{nm}', 'mutable apply of the unbound module differs')
    except Exception as e:  # noqa
      V(f'shared-unbind-raises:{nm}', f'{type(e).__name__}: {str(e)[:200]}')
    core.outcome(res, f'shared-ok:{nm}')
  res['nontrivial'].append(core.h(pkey))
  if not res['samples']:
    res['samples'].append(case)
