"""C01 — Linen init/apply purity and the mutability contract (DESIGN §4 C01).

Explicit-state BFS over call histories on one module instance: a state is the
variable dict reached (canonical form); transitions are apply(mutable=f) calls
on the real implementation, compared with the pure-Python reference
interpreter of the DSL (mc/models/dsl.py).
"""
from __future__ import annotations

import os

import numpy as np

from mc.engine import core
from mc.engine.canon import canon_tree, container_ids, np_tree, jsonable
from mc.models import dsl

PROPERTY = 'C01'
LEVEL = 'model_checking'
RULE = ('every legal DSL module program up to the tier size (statements: param, '
        'variable read/count/acc/force, sow, perturb, rng draw, child called 1-2x, '
        'compact classes A/B and setup class S) x BFS over apply histories '
        '(mutable filter alphabet x dict/FrozenDict input) from the state init returns; '
        'a state is non-trivial when its program has a non-params variable or a child; '
        'distinct = distinct (program, canonical variable state); plus tree-valued variables: '
        'argument shape {flat, nested, list, FrozenDict} x write {none, same, full, partial, deep} '
        'x {init, init_with_output, apply with the variable present/absent} x caller-owned '
        'filter object {list, set, tuple, str, True, False, ...} x capture_intermediates; '
        'apply x3 on a bound module (field / setup / Sequential submodules x method x mutable)')
ASSUMPTIONS = [
  'programs are those expressible in the DSL; data are small integers in float32',
  'leaf arrays are immutable jax arrays: sharing leaves between input and output is not aliasing',
]

FILTERS = [False, True, 'params', 'stats', ['stats', 'cnt'], {'deny': 'params'},
           {'deny': ['stats', 'cnt']}, 'aux', ['intermediates', 'cnt'], 'perturbations',
           # names that merely *contain* a collection name select nothing / deny nothing
           'xcntx', {'deny': 'xstatsx'}]


def bounds(tier):
  return dict(statements=3 if tier == 'quick' else 4, nesting=2,
              history_depth=2 if tier == 'quick' else 3, filters=len(FILTERS),
              containers=['dict', 'FrozenDict'], tree_shapes=len(TREE_SHAPES),
              tree_writes=len(TREE_WRITES), tree_filters=len(TREE_FILTERS))


LEAVES = [('param', 'a', 's'), ('param', 'a', 'v'), ('var', 'stats', 'a', 'acc'),
          ('var', 'cnt', 'a', 'count'), ('var', 'cnt', 'b', 'force'), ('sow', 'aux', 'a'),
          ('perturb', 'b'), ('rng', 'dropout')]
LEAVES_T = LEAVES + [('param', 'b', 's'), ('var', 'stats', 'b', 'read'),
                     ('sow', 'intermediates', 'b')]


def _programs(tier):
  if tier == 'quick':
    ds = dsl.defs_upto(3, 2, LEAVES, variants=[('A', None, 1), ('B', None, 2), ('A', 'c', 1)])
  else:
    ds = dsl.defs_upto(3, 2, LEAVES_T, child_cls=('A', 'B'), child_names=(None, 'c'),
                       times=(1, 2))
    seen = set(ds)
    for d in dsl.defs_upto(4, 3, LEAVES, variants=[('A', None, 1), ('B', 'c', 2)]):
      if d not in seen:
        ds.append(d)
  progs = []
  for d in ds:
    progs.append(('A', d))
    if dsl.setup_ok(d) and dsl.has(d, lambda st: st[0] == 'child'):
      progs.append(('S', d))
  return progs


def units(tier, seed):
  progs = _programs(tier)
  chunk = 8 if tier == 'quick' else 16
  us = []
  for i in range(0, len(progs), chunk):
    us.append(dict(progs=[[c, dsl.tolist(d)] for c, d in progs[i:i + chunk]]))
  # structured arguments used as tree-valued variables; filter objects passed by the caller
  for shape in TREE_SHAPES:
    us.append(dict(tree=shape))
  us.append(dict(bound=True))
  return us


_POOL = [np.array([1., 2.], np.float32), np.array([[3., 1.]], np.float32),
         np.array([2., 2.], np.float32), np.array([[1., 1.], [2., 3.]], np.float32)]


def setup_worker():
  import jax  # noqa
  import flax  # noqa


def _snap_module(m):
  st = m._state
  return (m.scope is None, repr(m), tuple(sorted(m.__dict__.keys())),
          dict(st.children), dict(st.autoname_cursor), st.setup_called,
          st.is_initialized, st.in_compact_method, st.in_setup)


def _err_kind(e):
  from flax import errors
  if isinstance(e, errors.ModifyScopeVariableError):
    return 'modify'
  if isinstance(e, (errors.ScopeCollectionNotFound, errors.ScopeVariableNotFoundError,
                    errors.ScopeParamNotFoundError)):
    return 'lookup'
  if isinstance(e, errors.ScopeParamShapeError):
    return 'shape'
  if isinstance(e, errors.NameInUseError) or (
      isinstance(e, ValueError) and 'Duplicate use of scope name' in str(e)):
    return 'name'
  if isinstance(e, errors.InvalidRngError):
    return 'rng'
  if isinstance(e, ValueError) and 'Perturbation collection' in str(e):
    return 'perturb-missing'
  return 'other:' + type(e).__name__ + ':' + str(e)[:200]


def _merge(state, upd):
  new = dict(state)
  for c, v in upd.items():
    new[c] = v
  return new


def run_unit(unit):
  res = core.new_result()
  if 'tree' in unit:
    _run_tree(res, unit['tree'])
    return res
  if 'bound' in unit:
    _run_bound(res)
    return res
  for cls, dl in unit['progs']:
    d = dsl.fromlist(dl)
    _run_prog(res, cls, d)
    if cls == 'A' and _core_ok(d):
      _run_core(res, d)
  return res


def _run_prog(res, cls, d):
  import jax
  import jax.numpy as jnp
  from flax.core import freeze, FrozenDict
  seed = int(os.environ.get('VERIF_SEED', '0'))
  tier = os.environ.get('VERIF_TIER', 'quick')
  depth = 2 if tier == 'quick' else 3
  x = jnp.asarray(_POOL[(seed + len(repr(d))) % len(_POOL)])
  case = dict(cls=cls, d=dsl.tolist(d), x=np.asarray(x).tolist())
  pkey = f'{cls}:{d!r}'
  nontriv = dsl.has(d, lambda st: st[0] == 'child' or (st[0] == 'var'))

  def V(tag, what, **kw):
    core.violation(res, f'{tag}|{pkey}|{kw.get("hist", "")}', what,
                   dict(case, **{k: jsonable(v) for k, v in kw.items()}))

  m = dsl.make(cls, d)
  rngs = {'params': jax.random.key(1), 'dropout': jax.random.key(2)}
  rng_snap = {k: np.asarray(jax.random.key_data(v)).tobytes() for k, v in rngs.items()}
  xb = np.asarray(x).tobytes()
  msnap = _snap_module(m)

  def inputs_intact(tag, hist):
    ok = True
    if _snap_module(m) != msnap:
      V('module-changed', f'{tag}: module object changed by the call', hist=hist,
        before=repr(msnap), after=repr(_snap_module(m)))
      ok = False
    if {k: np.asarray(jax.random.key_data(v)).tobytes() for k, v in rngs.items()} != rng_snap \
       or set(rngs) != set(rng_snap):
      V('rngs-changed', f'{tag}: rng dict changed', hist=hist)
      ok = False
    if np.asarray(x).tobytes() != xb:
      V('arg-changed', f'{tag}: argument changed', hist=hist)
      ok = False
    return ok

  # ---- init ---------------------------------------------------------------
  res['evals'] += 2
  try:
    out0, vars0 = m.init_with_output(rngs, x)
    out0b, vars0b = m.init_with_output(rngs, x)
    init_err = None
  except Exception as e:  # noqa
    init_err = e
  init_mut = lambda c: c != 'intermediates'
  if init_err is not None:
    # expected only if the reference raises the same kind
    try:
      dsl.ref_run(cls, d, {}, init_mut, np.asarray(x), keys=[np.zeros(2, np.uint32)] * 16)
      V('init-raises', f'init raised {_err_kind(init_err)} but the reference program is valid',
        hist='init')
    except dsl.RefError as re:
      if re.kind != _err_kind(init_err):
        V('init-error-kind', f'init raised {_err_kind(init_err)}, reference says {re.kind}',
          hist='init')
      core.outcome(res, 'init-raises-' + re.kind)
    inputs_intact('init(raising)', 'init')
    return
  inputs_intact('init', 'init')
  if canon_tree((out0, vars0), True) != canon_tree((out0b, vars0b), True):
    V('init-nondet', 'init with the same inputs returned different results', hist='init')
  keys0 = [np.asarray(k) for k in out0['k']]
  try:
    rx, rstore, used = dsl.ref_run(cls, d, {}, init_mut, np.asarray(x), keys=keys0)
  except dsl.RefError as re:
    V('init-should-raise', f'reference raises {re.kind} at init, implementation returned',
      hist='init')
    return
  if canon_tree(np_tree(vars0)) != canon_tree(rstore):
    V('init-tree', 'variables returned by init differ from the reference model',
      hist='init', observed=np_tree(vars0), expected=rstore)
    return
  if canon_tree(np.asarray(out0['x'])) != canon_tree(rx):
    V('init-out', 'init output differs from the reference', hist='init',
      observed=out0['x'], expected=rx)
  if len(keys0) != len(used):
    V('init-keys', 'number of rng draws differs from the reference', hist='init')
  # module.init must equal init_with_output()[1]
  res['evals'] += 1
  v_init = m.init(rngs, x)
  if canon_tree(v_init, True) != canon_tree(vars0, True):
    V('init-vs-iwo', 'init() and init_with_output()[1] differ', hist='init')

  # ---- BFS over apply histories --------------------------------------------
  state0 = np_tree(vars0)
  seen = {canon_tree(state0): 0}
  frontier = [(state0, ('init',))]
  res['states'] += 1
  if nontriv:
    res['nontrivial'].append(core.h([pkey, 'init']))
  sample_done = False
  for level in range(depth):
    nxt = []
    for state, hist in frontier:
      for fi, f in enumerate(FILTERS):
        for kind in ('dict', 'frozen'):
          if kind == 'frozen' and (level > 0 or fi % 2):
            # FrozenDict inputs: covered on the first level for half the filters
            # (the container kind only matters to the copy-in step)
            continue
          h2 = hist + (f'apply[{f!r},{kind}]',)
          hs = '>'.join(h2)
          vin = jax.tree.map(jnp.asarray, state)
          if kind == 'frozen':
            vin = freeze(vin)
          vsnap = canon_tree(vin, True)
          vids = container_ids(vin)
          ff = dsl.to_flax_filter(f)
          res['evals'] += 2
          res['transitions'] += 1
          err = None
          try:
            r1 = m.apply(vin, x, rngs={'dropout': rngs['dropout']}, mutable=ff)
          except Exception as e:  # noqa
            err = e
          intact = canon_tree(vin, True) == vsnap
          if not intact:
            V('vars-changed', 'the variables passed to apply were modified',
              hist=hs, err=None if err is None else _err_kind(err))
          inputs_intact('apply', hs)
          mut = lambda c, f=f: dsl.in_filter_ref(f, c)
          if err is not None:
            try:
              dsl.ref_run(cls, d, state, mut, np.asarray(x),
                          keys=[np.zeros(2, np.uint32)] * 16)
              V('apply-raises', f'apply raised {_err_kind(err)}; reference run is valid',
                hist=hs)
            except dsl.RefError as re:
              if re.kind != _err_kind(err):
                V('apply-error-kind', f'apply raised {_err_kind(err)}, reference: {re.kind}',
                  hist=hs)
              core.outcome(res, 'raises-' + re.kind)
            continue
          if f is False:
            out, upd = r1, None
            if isinstance(r1, tuple):
              V('ret-shape', 'mutable=False must return the bare output', hist=hs)
              continue
          else:
            if not (isinstance(r1, tuple) and len(r1) == 2):
              V('ret-shape', 'mutable!=False must return (output, updates)', hist=hs)
              continue
            out, upd = r1
          # determinism
          try:
            r2 = m.apply(vin, x, rngs={'dropout': rngs['dropout']}, mutable=ff)
            if canon_tree(r1, True) != canon_tree(r2, True):
              V('apply-nondet', 'repeating apply with the same inputs gave a different result',
                hist=hs)
          except Exception as e:  # noqa
            V('apply-nondet', f'second identical apply raised {type(e).__name__}', hist=hs)
          keys = [np.asarray(k) for k in out['k']]
          try:
            rx, rstore, used = dsl.ref_run(cls, d, state, mut, np.asarray(x), keys=keys)
          except dsl.RefError as re:
            V('apply-should-raise',
              f'reference raises {re.kind} (write/lookup outside the mutable filter) '
              'but apply returned', hist=hs)
            continue
          if canon_tree(np.asarray(out['x'])) != canon_tree(rx):
            V('apply-out', 'apply output differs from the reference', hist=hs,
              observed=out['x'], expected=rx)
          if upd is not None:
            exp = {c: v for c, v in rstore.items() if mut(c)}
            if canon_tree(np_tree(upd)) != canon_tree(exp):
              V('apply-updates',
                'returned mutable collections differ from the reference '
                '(every existing collection matching `mutable`, and no other)',
                hist=hs, observed=np_tree(upd), expected=exp)
              continue
            upd_keys = sorted(upd.keys())
            # aliasing: no mutable container shared between input and output
            if container_ids(upd) & vids:
              V('alias', 'returned updates share a mutable container with the input variables',
                hist=hs)
            else:
              _scribble(upd)
              if canon_tree(vin, True) != vsnap:
                V('alias', 'mutating the returned updates changed the input variables',
                  hist=hs)
            core.outcome(res, 'updates:' + ','.join(sorted(exp)))
            new = _merge(state, exp)
          else:
            core.outcome(res, 'bare-output')
            new = state
          if not sample_done and upd is not None and level > 0:
            res['samples'].append(dict(program=[cls, dsl.tolist(d)], history=list(h2),
                                       updates=upd_keys))
            sample_done = True
          c = canon_tree(new)
          if c not in seen:
            seen[c] = level + 1
            res['states'] += 1
            if nontriv:
              res['nontrivial'].append(core.h([pkey, hs]))
            nxt.append((new, h2))
    frontier = nxt

  # ---- observation features never change the primary output -----------------
  vin = jax.tree.map(jnp.asarray, state0)
  try:
    base = m.apply(vin, x, rngs={'dropout': rngs['dropout']})
  except Exception:
    base = None
  if base is not None:
    res['evals'] += 2
    o1, _ = m.apply(vin, x, rngs={'dropout': rngs['dropout']}, capture_intermediates=True,
                    mutable=['intermediates'])
    if canon_tree(o1, True) != canon_tree(base, True):
      V('capture-changes-output', 'capture_intermediates changed the primary output',
        hist='init>apply[capture]')
    vin2 = {k: v for k, v in vin.items() if k != 'perturbations'}
    # perturb creating its (zero) variable on the fly must not change the output either,
    # whatever the dtype flowing through it
    if dsl.has(d, lambda st: st[0] == 'perturb'):
      for dt in (jnp.float32, jnp.bfloat16, jnp.float16):
        xd = x.astype(dt)
        res['evals'] += 2
        try:
          pv = {k: (jax.tree.map(lambda a: a.astype(dt), v) if k == 'params' else v)
                for k, v in vin2.items()}
          ob = m.apply(pv, xd, rngs={'dropout': rngs['dropout']})
          op, _ = m.apply(pv, xd, rngs={'dropout': rngs['dropout']}, mutable=['perturbations'])
          if canon_tree(ob, True) != canon_tree(op, True):
            V('perturb-changes-output',
              f'perturb with a mutable (still empty) perturbation collection changed the primary '
              f'output for {jnp.dtype(dt).name} data (dtype or bits)',
              hist=f'init>apply[perturbations,{jnp.dtype(dt).name}]',
              observed=str(jax.tree.map(lambda a: a.dtype, op)),
              expected=str(jax.tree.map(lambda a: a.dtype, ob)))
        except Exception as e:  # noqa
          V('perturb-raises', f'{type(e).__name__}: {e}'[:200],
            hist=f'init>apply[perturbations,{jnp.dtype(dt).name}]')
    try:
      o2 = m.apply(vin2, x, rngs={'dropout': rngs['dropout']})
      if canon_tree(o2, True) != canon_tree(base, True):
        V('perturb-changes-output',
          'perturb without a perturbation collection changed the output',
          hist='init>apply[no-perturbations]')
    except Exception as e:  # noqa
      V('perturb-raises', f'apply without perturbations raised {type(e).__name__}: {e}',
        hist='init>apply[no-perturbations]')


def _core_fn(d):
  """The DSL definition as a plain function of a core Scope (functional core API)."""
  import jax
  import jax.numpy as jnp

  def fn(scope, x):
    ks = ()
    for i, st in enumerate(d):
      op = st[0]
      if op == 'param':
        shape = {'s': (), 'v': (x.shape[-1],)}[st[2]]
        x = x * scope.param(st[1], dsl.pinit(False), shape)
      elif op == 'var':
        _, col, n, kind = st
        v = scope.variable(col, n, dsl.vzero)
        if kind == 'count' and scope.is_mutable_collection(col):
          v.value = v.value + 1.0
        elif kind == 'acc' and scope.is_mutable_collection(col):
          v.value = v.value + x.sum()
        elif kind == 'force':
          v.value = v.value + 1.0
        x = x + v.value
      elif op == 'rng':
        k = scope.make_rng(st[1])
        ks = ks + (jax.random.key_data(k),)
        x = x + dsl.rng_bump(k)
      elif op == 'child':
        for _ in range(st[4]):
          o = scope.child(_core_fn(st[2]), st[3] or f'auto{i}')(x)
          x = o['x']
          ks = ks + tuple(o['k'])
      else:
        raise AssertionError(op)
    return {'x': x, 'k': ks}
  return fn


def _core_ok(d):
  # (a core child scope is pushed per call: re-calling one child is a Module-level feature)
  return not dsl.has(d, lambda st: st[0] in ('sow', 'perturb', 'leak') or
                     (st[0] == 'child' and st[4] != 1))


def _run_core(res, d):
  """flax.core.init / apply on the equivalent scope function: same contract."""
  import jax
  import jax.numpy as jnp
  from flax import core as fcore
  x = jnp.asarray(_POOL[len(repr(d)) % len(_POOL)])
  pkey = f'core:{d!r}'
  case = dict(layer='flax.core', d=dsl.tolist(d))
  fn = _core_fn(d)
  rngs = {'params': jax.random.key(1), 'dropout': jax.random.key(2)}
  res['evals'] += 2
  try:
    out0, v0 = fcore.init(fn)(rngs, x)
    out0b, v0b = fcore.init(fn)(rngs, x)
  except Exception as e:  # noqa
    core.violation(res, f'core-init-raises|{pkey}', f'{type(e).__name__}: {e}'[:300], case)
    return
  if canon_tree((out0, v0), True) != canon_tree((out0b, v0b), True):
    core.violation(res, f'core-init-nondet|{pkey}', 'core.init is not deterministic', case)
  state = np_tree(v0)
  res['states'] += 1
  for f in FILTERS:
    for kind in ('dict', 'frozen'):
      vin = jax.tree.map(jnp.asarray, state)
      if kind == 'frozen':
        from flax.core import freeze
        vin = freeze(vin)
      vsnap = canon_tree(vin, True)
      vids = container_ids(vin)
      res['evals'] += 2
      res['transitions'] += 1
      hs = f'init>apply[{f!r},{kind}]'
      err = None
      try:
        r1 = fcore.apply(fn, mutable=dsl.to_flax_filter(f))(vin, x, rngs={'dropout': rngs['dropout']})
      except Exception as e:  # noqa
        err = e
      if canon_tree(vin, True) != vsnap:
        core.violation(res, f'core-vars-changed|{pkey}|{hs}',
                       'core.apply modified the variables passed in', case)
      forced = dsl.has(d, lambda st: st[0] == 'var' and st[3] == 'force'
                       and not dsl.in_filter_ref(f, st[1]))
      if err is not None:
        if not forced:
          core.violation(res, f'core-apply-raises|{pkey}|{hs}',
                         f'core.apply raised {_err_kind(err)}', case)
        elif _err_kind(err) != 'modify':
          core.violation(res, f'core-apply-error-kind|{pkey}|{hs}',
                         f'expected ModifyScopeVariableError, got {_err_kind(err)}', case)
        continue
      if forced:
        core.violation(res, f'core-should-raise|{pkey}|{hs}',
                       'a write to a collection outside `mutable` took effect in core.apply', case)
        continue
      out, upd = (r1, None) if f is False else r1
      r2 = fcore.apply(fn, mutable=dsl.to_flax_filter(f))(vin, x, rngs={'dropout': rngs['dropout']})
      if canon_tree(r1, True) != canon_tree(r2, True):
        core.violation(res, f'core-apply-nondet|{pkey}|{hs}', 'core.apply is not deterministic',
                       case)
      if upd is not None:
        exp_cols = sorted(c for c in state if dsl.in_filter_ref(f, c))
        if sorted(upd.keys()) != exp_cols:
          core.violation(res, f'core-updates|{pkey}|{hs}',
                         f'core.apply returned collections {sorted(upd.keys())}, expected every '
                         f'existing collection matching mutable: {exp_cols}', case)
        if container_ids(upd) & vids:
          core.violation(res, f'core-alias|{pkey}|{hs}',
                         'core.apply returned a container of the input', case)
        for c in state:
          if not dsl.in_filter_ref(f, c) and c in upd:
            core.violation(res, f'core-immutable-returned|{pkey}|{hs}', c, case)
      core.outcome(res, 'core:ok')
  res['nontrivial'].append(core.h(pkey))


TREE_SHAPES = ['flat', 'nested', 'list', 'frozen']
TREE_WRITES = ['none', 'same', 'full', 'partial', 'deep']
TREE_FILTERS = [('list', lambda: ['cache']), ('set', lambda: {'cache'}), ('tuple', lambda: ('cache',)),
                ('str', lambda: 'cache'), ('true', lambda: True), ('false', lambda: False),
                ('set-params', lambda: {'params'}), ('list-both', lambda: ['cache', 'params']),
                # filters that select nothing are still filters: (output, {}) comes back
                ('empty-list', lambda: []), ('empty-tuple', lambda: ()), ('empty-set', lambda: set()),
                ('empty-str', lambda: '')]


def _tree_arg(shape):
  import jax.numpy as jnp
  from flax.core import freeze
  a, c, e = jnp.asarray(1., jnp.float32), jnp.asarray([2., 3.], jnp.float32), jnp.asarray(5., jnp.float32)
  if shape == 'flat':
    return {'a': a, 'b': c}
  if shape == 'nested':
    return {'a': a, 'b': {'c': c, 'd': {'e': e}}}
  if shape == 'list':
    return {'a': a, 'b': [c, {'e': e}]}
  return freeze({'a': a, 'b': {'c': c}})


def _tree_module(write):
  import jax
  import flax.linen as nn

  class TreeVar(nn.Module):
    @nn.compact
    def __call__(self, carry, x):
      v = self.variable('cache', 'carry', lambda: carry)
      w = self.param('w', lambda k: x * 0 + 2)
      self.sow('intermediates', 's', x)
      cur = v.value
      bump = lambda t: jax.tree.map(lambda l: l + 1, t)
      if write == 'same':
        v.value = cur
      elif write == 'full':
        v.value = bump(cur)
      elif write == 'partial':
        v.value = {'a': cur['a'] + 1}
      elif write == 'deep':
        b = cur['b']
        if isinstance(b, (list, tuple)):
          v.value = {'b': [b[0] + 1] + list(b[1:])}
        elif not hasattr(b, 'keys'):
          v.value = {'b': b + 1}
        else:
          k0 = sorted(b.keys())[0]
          v.value = {'b': {k0: bump(b[k0])}}
      return x * w + cur['a']
  return TreeVar()


def _run_bound(res):
  """apply / init called on a module that is already bound (Module.bind) are the same pure
  functions: they use the variables passed in, leave the bound module and its variables alone,
  and repeat. Submodules as dataclass fields / created in setup / in a Sequential x method x
  mutable filter x histories of three calls."""
  import jax
  import jax.numpy as jnp
  import flax.linen as nn

  class Inner(nn.Module):
    @nn.compact
    def __call__(self, x):
      w = self.param('w', lambda k: jnp.asarray([1.0, 2.0], jnp.float32))
      c = self.variable('cnt', 'n', lambda: jnp.zeros((), jnp.float32))
      if self.is_mutable_collection('cnt'):
        c.value = c.value + 1.0
      self.sow('intermediates', 's', x)
      return x * w + c.value

  class OuterF(nn.Module):
    inner: nn.Module = None

    def __call__(self, x):
      return self.inner(x) + 1.0

    def other(self, x):
      return self.inner(x) * 2.0

  class OuterS(nn.Module):
    def setup(self):
      self.inner = Inner()

    def __call__(self, x):
      return self.inner(x) + 1.0

    def other(self, x):
      return self.inner(x) * 2.0

  makers = {'field': lambda: OuterF(inner=Inner()), 'setup': lambda: OuterS(),
            'sequential': lambda: nn.Sequential([Inner(), Inner()])}
  x = jnp.asarray([1.0, -1.0], jnp.float32)
  for mname, mk in makers.items():
    A = mk().init(jax.random.key(0), x)
    B = jax.tree.map(lambda a: a * 3.0 + 5.0, A)
    for method in ((None,) if mname == 'sequential' else (None, 'other')):
      for fname, f in (('false', False), ('cnt', ['cnt']), ('true', True),
                       ('deny', nn.DenyList('params'))):
        for bind_mut in (False, True):
          key = f'bound|{mname}|{method}|{fname}|{bind_mut}'
          case = dict(module=mname, method=method, mutable=fname, bind_mutable=bind_mut)
          kw = {} if method is None else dict(method=method)
          res['evals'] += 5
          res['transitions'] += 3
          ref = mk().apply(B, x, mutable=f, **kw)
          bound = mk().bind(A, mutable=bind_mut)
          a_snap = canon_tree(A, True)
          b_snap = canon_tree(B, True)
          bv_snap = canon_tree(jax.tree.map(np.asarray, dict(bound.variables)), True)
          outs = []
          try:
            for _ in range(3):
              outs.append(bound.apply(B, x, mutable=f, **kw))
          except Exception as e:  # noqa
            core.violation(res, 'bound-raises|' + key, f'{type(e).__name__}: {e}'[:300], case)
            continue
          for i, r in enumerate(outs):
            if canon_tree(r, True) != canon_tree(ref, True):
              core.violation(res, f'bound-apply|{key}|call{i}',
                             'apply on a bound module does not return what apply on an unbound '
                             'module returns for the same variables', case,
                             observed=jsonable(np_tree(r)), expected=jsonable(np_tree(ref)))
              break
          if canon_tree(A, True) != a_snap or canon_tree(B, True) != b_snap:
            core.violation(res, 'bound-inputs|' + key, 'variables passed to bind / apply changed', case)
          if canon_tree(jax.tree.map(np.asarray, dict(bound.variables)), True) != bv_snap:
            core.violation(res, 'bound-module|' + key,
                           'apply changed the variables of the bound module it was called on', case)
          core.outcome(res, 'bound:ok')
          res['nontrivial'].append(core.h(key))
  res['samples'].append(dict(kind='bound'))


def _dict_ids(t, out=None):
  """ids of the dicts reachable through dicts only: the containers a scope can merge a write
  into (dicts below a list are opaque values to it)."""
  out = set() if out is None else out
  if isinstance(t, dict):
    out.add(id(t))
    for v in t.values():
      _dict_ids(v, out)
  return out


def _run_tree(res, shape):
  """Arguments that are trees (dict / nested dict / list / FrozenDict) and end up as the initial
  value of a variable, and `mutable` filters passed as caller-owned objects: none of them may
  be changed by init/apply, whatever the program later writes to that variable."""
  import jax
  import jax.numpy as jnp
  from flax import errors
  x = jnp.asarray([1., 2.], jnp.float32)
  rngs = {'params': jax.random.key(1)}

  def snap(t):
    return (canon_tree(t, True), tuple(sorted(container_ids(t))) if not isinstance(t, (set, frozenset)) else ())

  def fsnap(f):
    return (type(f).__name__, repr(sorted(f)) if isinstance(f, (set, frozenset)) else repr(f))

  for write in TREE_WRITES:
    m = _tree_module(write)
    msnap = _snap_module(m)
    case0 = dict(shape=shape, write=write)
    # ---- init: the argument becomes the variable's initial value -------------
    for phase in ('init', 'init_with_output'):
      arg = _tree_arg(shape)
      before = snap(arg)
      res['evals'] += 2
      key = f'tree|{shape}|{write}|{phase}'
      try:
        r1 = getattr(m, phase)(rngs, arg, x)
        arg_after = snap(arg)
        r2 = getattr(m, phase)(rngs, _tree_arg(shape), x)
      except Exception as e:  # noqa
        if shape == 'frozen' and write in ('partial', 'deep', 'full', 'same'):
          core.outcome(res, 'tree-init-raises:' + type(e).__name__)
          if snap(arg) != before:
            core.violation(res, 'tree-arg-changed|' + key, 'a raising init changed its argument', case0)
          continue
        core.violation(res, 'tree-init-raises|' + key, f'{type(e).__name__}: {e}'[:200], case0)
        continue
      if arg_after != before:
        core.violation(res, 'tree-arg-changed|' + key,
                       f'{phase} changed the tree passed as an argument in place',
                       dict(case0, phase=phase), observed=jsonable(np_tree(arg)),
                       expected=jsonable(np_tree(_tree_arg(shape))))
      if canon_tree(r1, True) != canon_tree(r2, True):
        core.violation(res, 'tree-init-nondet|' + key, 'same inputs, different result', case0)
      # (the program stores its argument on purpose, so sharing containers between the
      # argument and the returned variables is not asserted; only "inputs do not change")
      if _snap_module(m) != msnap:
        core.violation(res, 'tree-module-changed|' + key, 'module changed', case0)
      core.outcome(res, f'tree-init:{write}')
      res['nontrivial'].append(core.h(key))
    # ---- apply: variable present / absent x filter objects x capture ----------
    vars_full = m.init(rngs, _tree_arg('flat' if shape == 'frozen' else shape), x)
    for present in (True, False, 'empty'):   # 'empty': the collection exists but holds nothing
      for fname, mk in TREE_FILTERS:
        for capture in (False, True):
          f = mk()
          fb = fsnap(f)
          vin = jax.tree.map(lambda l: l, vars_full if present is True
                             else {'params': vars_full['params']})
          if present == 'empty':
            vin['cache'] = {}
            vin['intermediates'] = {}
          vb = snap(vin)
          arg = _tree_arg(shape)
          ab = snap(arg)
          key = f'tree|{shape}|{write}|apply|{present}|{fname}|{capture}'
          res['evals'] += 1
          res['transitions'] += 1
          err = None
          try:
            r = m.apply(vin, arg, x, mutable=f, capture_intermediates=capture)
          except Exception as e:  # noqa
            err = e
          if fsnap(f) != fb:
            core.violation(res, 'tree-filter-changed|' + key,
                           'apply changed the `mutable` filter object passed by the caller',
                           dict(case0, filter=fname, capture=capture), observed=fsnap(f)[1],
                           expected=fb[1])
          if snap(arg) != ab:
            core.violation(res, 'tree-arg-changed|' + key,
                           'apply changed the tree passed as an argument in place',
                           dict(case0, filter=fname, present=present, capture=capture),
                           observed=jsonable(np_tree(arg)))
          if snap(vin) != vb:
            core.violation(res, 'tree-vars-changed|' + key, 'apply changed the variables passed in',
                           dict(case0, filter=fname, present=present, capture=capture))
          if _snap_module(m) != msnap:
            core.violation(res, 'tree-module-changed|' + key, 'module changed', case0)
          if err is not None:
            core.outcome(res, 'tree-apply-raises:' + type(err).__name__)
            continue
          # same filter object again: same collections come back (no state kept in the filter)
          res['evals'] += 1
          r2 = m.apply(vin, _tree_arg(shape), x, mutable=f, capture_intermediates=False)
          r3 = m.apply(vin, _tree_arg(shape), x, mutable=mk(), capture_intermediates=False)
          if canon_tree(r2, True) != canon_tree(r3, True):
            core.violation(res, 'tree-filter-stateful|' + key,
                           'reusing the same filter object after a call gives a different result '
                           'than a fresh equal filter', dict(case0, filter=fname, capture=capture))
          # (capture_intermediates adds 'intermediates' to the filter, so it is never "False")
          shape_ok = (not isinstance(r, tuple)) if (f is False and not capture) else \
              (isinstance(r, tuple) and len(r) == 2 and hasattr(r[1], 'keys'))
          if not shape_ok:
            core.violation(res, 'tree-ret-shape|' + key,
                           'mutable=False returns the bare output, any other filter (also one that '
                           'selects nothing) returns (output, updates)',
                           dict(case0, filter=fname), observed=type(r).__name__)
          if isinstance(r, tuple) and f is not False:
            upd = r[1]
            if _dict_ids(upd) & _dict_ids(vin):
              core.violation(res, 'tree-alias|' + key,
                             'returned updates share a dict with the variables passed in',
                             dict(case0, filter=fname, present=present))
            core.outcome(res, 'tree-apply:' + ','.join(sorted(upd.keys())))
          res['nontrivial'].append(core.h(key))


def _scribble(t):
  """Mutate every mutable container of a returned tree."""
  if isinstance(t, dict):
    for v in list(t.values()):
      _scribble(v)
    t['__scribble__'] = 1
    for k in list(t.keys()):
      if k != '__scribble__':
        del t[k]
  elif isinstance(t, list):
    for v in t:
      _scribble(v)
    t.clear()
