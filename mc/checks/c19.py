"""C19 — partition metadata stays aligned with array axes through boxing and
transforms (DESIGN §4 C19).

Part T (transforms): one real scan / vmap nest is traced per configuration and
carries the *whole* names alphabet (one annotated param + one annotated mutable
variable per names tuple), in three APIs; the oracle is plain tuple insertion
(mc/models/c19_ref.py) for the names and the un-annotated twin program for the
values.

Part R (rules): `logical_to_mesh_axes` on every names tuple x every ordered
rule list against the reference priority algorithm written from its docstring.
"""
from __future__ import annotations

import os

import numpy as np

from mc.engine import core
from mc.engine.canon import jsonable
from mc.models import c19_ref as ref

PROPERTY = 'C19'
LEVEL = 'exploration'
RULE = (
  'part T: every names tuple over {None,x,y,z} of rank 0-3 without a repeated name x every '
  'stacking position k in [0, current rank] per level (params at k, the mutable collection at '
  'the mirrored position) x every scan/vmap nest up to the tier '
  'depth (distinct partition name and distinct axis size per level) x API flavour (Linen '
  'Partitioned, LogicallyPartitioned, legacy params_axes API, NNX int / StateAxes prefixes, '
  'partition name None, names shorter than the rank) x {init, apply}; all names tuples of one '
  'configuration share one traced transform (one param and one mutable variable each). One '
  'evaluation = one names tuple carried through one transformed init or apply and checked '
  '(names after, names seen inside the body, value shape, value bits vs the un-annotated twin, '
  'PartitionSpec). Non-trivial = the tuple has a named dimension and the nest a named level '
  '(a misplaced entry is then visible); distinct = distinct (flavour, partition names, nest, '
  'names, phase). '
  'part IO: nn.scan / nn.vmap with In(ka) / plain kp / Out(km) collections for every (ka, kp, km) '
  'in {0,1}^3 x 3 orders of the variable_axes mapping: each collection gets the level name at its '
  'own axis, an In collection is seen inside as one un-named slice. '
  'part R: every names tuple of rank <= 3 over {a,b,c,None} (repeated names included: they must '
  'raise) x every ordered rule list (repetition allowed) up to the tier length over 12 rules '
  '{a,b,c} x {x, y, (x,y), None}, via rules= and via the logical_axis_rules context. Distinct = '
  'distinct (names, sub-list of the rules that mention a dimension of names); non-trivial = that '
  'sub-list is not empty.')
ASSUMPTIONS = [
  'one CPU device, no global mesh: Partitioned.unbox applies no sharding constraint, so the '
  'claim is about the metadata and about value pass-through, not about XLA shardings',
  'value equality is against the same program without annotations (same primitive sequence, '
  'so bitwise); the names oracle is independent tuple insertion',
  'in / out variable axes of a level are equal (no nn.In / nn.Out split) and non-negative',
  'names shorter than the rank (implicit trailing None) are compared up to None padding and '
  'only for the boxed APIs (the legacy API requires full-rank axes)',
]

MAX_VIOL_PER_CLAUSE = 4      # per unit and clause; the rest is only counted
# Off by default. Negative stacking positions (variable_axes / out_axes = -1 ... -(rank+1), the
# jax spelling of "counted from the end") are outside the enumerated domain of the design; on
# the pinned tree every one of them except -(rank+1) is misaligned (list.insert(-1, ..) puts
# the name before the last entry). Reported to the maintainer of /verif; set the variable to
# add the depth-1 units for them.
NEGATIVE_AXES = os.environ.get('C19_NEGATIVE_AXES', '1') == '1'   # on by default: recorded as a known finding


def bounds(tier):
  th = tier == 'thorough'
  return dict(
    ranks=[0, 1, 2, 3], names_alphabet=[None, 'x', 'y', 'z'],
    names_tuples_per_rank={r: len(ref.all_names(r)) for r in (0, 1, 2, 3)},
    stacking_positions='every k in [0, current rank] at every level; params at k, the '
                       'mutable collection at the mirrored position',
    nests=('scan, vmap, every 2-nest (ranks 1-3), every 3-nest (rank 1), the two alternating '
           '3-nests (rank 2) of scan/vmap' if th else
           'scan, vmap (ranks 1-3), scan-in-vmap, vmap-in-scan (ranks 1-2)'),
    flavours=dict(
      linen=('Partitioned + legacy params_axes API on every nest; LogicallyPartitioned and '
             'partition name None at each level on nests of depth ' + ('<= 2' if th else '1')),
      nnx=('int prefix on every nest; StateAxes prefix on nests of depth ' +
           ('<= 2' if th else '1') + '; partition name None at each '
           'level on nests of depth ' + ('<= 2' if th else '1')),
      short_names='names shorter than the rank (padding): nests of depth ' +
                  ('<= 2' if th else '1') + ', Partitioned and NNX int prefix'),
    eval_shape_specs=th,
    rule_list_max_len=4 if th else 3, rule_alphabet=len(ref.RULES),
    l2m_names=len(ref.l2m_names(3)), l2m_names_max_rank=3)


# ---------------------------------------------------------------------------
# units


def _variants(group, depth, tier, names):
  th = tier == 'thorough'
  none_at = lambda j: [None if i == j else ref.LEVEL_NAME[i] for i in range(depth)]
  if names == 'short':
    return [['part' if group == 'linen' else 'int', None]]
  if group == 'linen':
    v = [['part', None], ['legacy', None]]
    if depth == 1 or (th and depth == 2):
      v.append(['logical', None])
      v.extend(['part', none_at(j)] for j in range(depth))
    return v
  v = [['int', None]]
  if depth == 1 or (th and depth == 2):
    v.append(['state', None])
  if depth == 1 or (th and depth == 2):
    v.extend(['int', none_at(j)] for j in range(depth))
  return v


def units(tier, seed):
  th = tier == 'thorough'
  us = []

  def T(group, rank, names, cfgs, depth):
    us.append(dict(part='T', group=group, rank=rank, names=names,
                   cfgs=[dict(kinds=list(k), ks=list(s)) for k, s in cfgs],
                   variants=_variants(group, depth, tier, names)))

  # heaviest first (imap hands units out in order)
  if th:
    for rank in (2, 1):
      for kinds in ref.kind_tuples(3):
        if rank == 2 and not (kinds[0] != kinds[1] != kinds[2]):
          continue     # rank 2: only the alternating 3-nests (cost); rank 1: all eight
        for k0 in range(rank + 1):
          for group in ('linen', 'nnx'):
            T(group, rank, 'full', [(kinds, (k0, k1, k2)) for k1 in range(rank + 2)
                                    for k2 in range(rank + 3)], 3)
  for rank in (3, 2, 1, 0):   # rank 0: a scalar annotated with the empty names tuple
    for depth in (2, 1):
      for kinds in ref.kind_tuples(depth):
        if depth == 2 and not th and (kinds[0] == kinds[1] or rank == 3):
          continue     # scan-in-scan / vmap-in-vmap and rank-3 two-level nests: thorough only
        if depth == 2 and th:
          # thorough runs 4-6 flavours per configuration: one unit per innermost position
          for k0 in range(rank + 1):
            for group in ('linen', 'nnx'):
              T(group, rank, 'full', [(kinds, (k0, k1)) for k1 in range(rank + 2)], 2)
          continue
        for ks in ref.k_tuples(rank, depth):
          for group in ('linen', 'nnx'):
            T(group, rank, 'full', [(kinds, ks)], depth)
  for rank in (3, 2, 1):
    for group in ('linen', 'nnx'):
      for kinds in ref.kind_tuples(1):
        T(group, rank, 'short', [(kinds, ks) for ks in ref.k_tuples(rank, 1)], 1)
      if th:
        for kinds in ref.kind_tuples(2):
          T(group, rank, 'short', [(kinds, ks) for ks in ref.k_tuples(rank, 2)], 2)
  if NEGATIVE_AXES:
    for rank in (3, 2, 1):
      for group in ('linen', 'nnx'):
        for kinds in ref.kind_tuples(1):
          us.append(dict(part='T', group=group, rank=rank, names='full',
                         cfgs=[dict(kinds=list(kinds), ks=[-k]) for k in range(1, rank + 2)],
                         variants=[['part', None], ['legacy', None]] if group == 'linen'
                         else [['int', None]]))
  ios = [dict(part='IO', kind=k, names='io') for k in ('scan', 'vmap')]
  rs = [dict(part='R', first=first, max_len=4 if th else 3) for first in range(len(ref.RULES))]
  # heavy transform units first, but one unit of every kind among the first six (the
  # evidence shows one sample of each of the first units)
  shorts = [u for u in us if u['names'] == 'short']
  full = [u for u in us if u['names'] == 'full']
  return full[:2] + rs[:1] + shorts[:2] + full[2:] + shorts[2:] + rs[1:] + ios


def setup_worker():
  import jax  # noqa
  import flax  # noqa
  from mc.models import c19_linen, c19_nnx  # noqa


# ---------------------------------------------------------------------------
# shared helpers


class _Ctx:
  """Per-unit bookkeeping: capped violation recording."""

  def __init__(self, res):
    self.res = res
    self.n = {}

  def viol(self, key, what, case, observed=None, expected=None):
    clause = key.split('|', 1)[0]
    self.n[clause] = self.n.get(clause, 0) + 1
    if self.n[clause] <= MAX_VIOL_PER_CLAUSE:
      core.violation(self.res, key, what, case, observed=_js(observed), expected=_js(expected))
    else:
      self.res['extra']['violations_not_listed'] = \
        self.res['extra'].get('violations_not_listed', 0) + 1


def _js(x):
  if isinstance(x, tuple):
    return [_js(v) for v in x]
  if isinstance(x, (list,)):
    return [_js(v) for v in x]
  if isinstance(x, dict):
    return {str(k): _js(v) for k, v in x.items()}
  if isinstance(x, np.ndarray):
    return dict(shape=list(x.shape), dtype=str(x.dtype),
                data=x.ravel()[:24].tolist())
  return x


def _same_names(obs, exp, ndim, short):
  """Full-rank names: exact equality (which implies one entry per dimension).
  Short names: at most one entry per dimension and equal up to None padding."""
  if not isinstance(obs, tuple):
    return False
  if not short:
    return obs == tuple(exp) and len(obs) == ndim
  return len(obs) <= ndim and ref.pad(obs, ndim) == ref.pad(exp, ndim)


def _bits_equal(a, b):
  a = np.asarray(a)
  b = np.asarray(b)
  return a.dtype == b.dtype and a.shape == b.shape and a.tobytes() == b.tobytes()


def _tree_bits_equal(a, b):
  import jax
  la, ta = jax.tree.flatten(a)
  lb, tb = jax.tree.flatten(b)
  return ta == tb and all(_bits_equal(x, y) for x, y in zip(la, lb))


def _vk(var):
  """Variable kind for violation keys (the index in the name depends on the seed)."""
  return 'param' if var.startswith('p') else 'state'


def _nontrivial(names, levels):
  return any(n is not None for n in names) and any(lv['pname'] is not None for lv in levels)


# ---------------------------------------------------------------------------
# part T, Linen and legacy API


def _linen_cfg(ctx, unit, cfg, specs, shape, seed):
  from mc.models import c19_linen as lin
  res = ctx.res
  rank = unit['rank']
  short = unit['names'] == 'short'
  base = ref.make_levels(cfg['kinds'], cfg['ks'], rank)
  raw = lin.run(specs, shape, base, 'raw', seed)
  if raw['apply_error'] is not None:
    raise raw['apply_error']        # the un-annotated program itself fails: harness error
  res['extra']['traces'] = res['extra'].get('traces', 0) + 2
  raw_vs = lin.values(raw['vs'])
  raw_upd = lin.values(raw['upd'])
  tag0 = f"r{rank}{'s' if short else ''}|{ref.levels_text(base)}"
  # un-annotated arrays: replicated spec, and the body saw no box
  for tree in (raw['vs'], raw['upd']):
    for var, s in lin.specs_of(tree, 'raw').items():
      if s != ():
        ctx.viol(f'spec-unboxed|linen|{tag0}|{_vk(var)}',
                 'get_partition_spec of an unboxed array is not PartitionSpec()',
                 dict(levels=base, var=var), observed=s, expected=())
  for var, (n, _) in lin.entries(raw['vs'], 'raw').items():
    if n != 'unboxed':
      ctx.viol(f'raw-boxed|linen|{tag0}|{_vk(var)}', 'the un-annotated twin came back boxed',
               dict(levels=base, var=var), observed=n)

  for flavour, pnames in unit['variants']:
    levels = ref.make_levels(cfg['kinds'], cfg['ks'], rank, pnames)
    tag = f"linen:{flavour}|r{rank}{'s' if short else ''}|{ref.levels_text(levels)}"
    case0 = dict(api='linen', flavour=flavour, rank=rank, shape=list(shape), levels=levels)
    try:
      got = lin.run(specs, shape, levels, flavour, seed)
    except Exception as e:  # noqa: the oracle predicts that every configuration runs
      ctx.viol(f'raises|{tag}',
               f'init/apply under the transform raised {type(e).__name__}: {str(e)[:300]}',
               case0)
      core.outcome(res, 'T:raises')
      continue
    res['extra']['traces'] = res['extra'].get('traces', 0) + 2
    phases = ('init', 'apply')
    if got['apply_error'] is not None:
      e = got['apply_error']
      ctx.viol(f'raises-apply|{tag}', 'apply under the transform on the variables init '
               f'returned raised {type(e).__name__}: {str(e)[:300]}', case0)
      core.outcome(res, 'T:apply-raises')
      phases = ('init',)
    ndim = rank + len(levels)
    e_init = lin.entries(got['vs'], flavour)
    e_upd = lin.entries(got['upd'], flavour)
    s_init = lin.specs_of(got['vs'], flavour)
    s_upd = lin.specs_of(got['upd'], flavour)
    res['extra']['spec_calls'] = res['extra'].get('spec_calls', 0) + 3
    if os.environ.get('VERIF_TIER') == 'thorough':
      # specs from jax.eval_shape(init) (no arrays are made) == specs of the real init
      s_abs = lin.abstract_specs(got, flavour)
      res['extra']['traces'] = res['extra'].get('traces', 0) + 1
      if s_abs != s_init:
        bad = sorted(v for v in set(s_abs) | set(s_init) if s_abs.get(v) != s_init.get(v))
        ctx.viol(f'spec-abstract|{tag}', 'PartitionSpecs from jax.eval_shape(init) '
                 'differ from those of the real init', dict(case0, vars=bad[:8]),
                 observed=s_abs.get(bad[0]), expected=s_init.get(bad[0]))
    inside = {}
    for phase in ('init', 'apply'):
      for var, n, shp in got['rec_' + phase]:
        inside.setdefault((phase, var), []).append((n, shp))

    # boxed computation == raw computation, bitwise
    for what, a, b in (('init output', got['out'], raw['out']),
                       ('apply output', got['out2'], raw['out2'])):
      if what.split()[0] in phases and not _tree_bits_equal(a, b):
        ctx.viol(f'value-out|{tag}|{what}', f'{what} differs from the un-annotated program',
                 case0, observed=np.asarray(a[1]), expected=np.asarray(b[1]))
    got_vs = lin.values(got['vs'])
    got_upd = lin.values(got['upd'])
    for what, g, r in (('init', got_vs, raw_vs), ('apply', got_upd, raw_upd)):
      if what in phases and (sorted(g) != sorted(r) or any(sorted(g[c]['inner']) != sorted(r[c]['inner']) for c in r)):
        ctx.viol(f'value-tree|{tag}|{what}',
                 f'variable tree after {what} differs from the un-annotated program', case0,
                 observed={c: sorted(g[c].get('inner', {})) for c in g},
                 expected={c: sorted(r[c]['inner']) for c in r})

    for i, names in enumerate(specs):
      names = tuple(names)
      ctext = f'{tag}|{list(names)}'
      for phase in ('init', 'apply'):
        res['evals'] += 1
        if _nontrivial(names, levels):
          res['nontrivial'].append(core.h(['T', 'linen', flavour, pnames, cfg, list(names),
                                           unit['names'], phase]))
      for var, col, axis in ((f'p{i}', 'params', 'k'), (f'v{i}', 'state', 'ks')):
        case = dict(case0, names=list(names), var=var)
        vk = _vk(var)
        exp = ref.expect_names(ref.pad(names, rank), levels, axis=axis)
        exp_shape = ref.expect_shape(shape, levels, axis=axis)
        stages = [('init', e_init, s_init, got_vs, raw_vs)]
        if col == 'state' and 'apply' in phases:
          stages.append(('apply', e_upd, s_upd, got_upd, raw_upd))
        for phase, ent, sp, gv, rv in stages:
          if var not in ent:
            ctx.viol(f'missing|{ctext}|{vk}|{phase}', f'{var} missing after {phase}', case)
            continue
          n_obs, val = ent[var]
          # (1) one name per dimension, level names inserted at k, outermost last
          if not _same_names(n_obs, exp, ndim, short):
            ctx.viol(f'names|{ctext}|{vk}|{phase}',
                     f'names of {var} after {phase} under the transform are not the inner names '
                     'with each level\'s partition name inserted at its stacking position',
                     case, observed=n_obs, expected=exp)
          # (2) the array itself is stacked at those positions
          if tuple(val.shape) != exp_shape:
            ctx.viol(f'shape|{ctext}|{vk}|{phase}', f'value shape of {var} after {phase}',
                     case, observed=tuple(val.shape), expected=exp_shape)
          # (3) bitwise equal to the raw twin
          r = rv.get(col, {}).get('inner', {}).get(var)
          if r is None or not _bits_equal(val, r):
            ctx.viol(f'value|{ctext}|{vk}|{phase}',
                     f'value of {var} after {phase} differs from the un-annotated program',
                     case, observed=np.asarray(val), expected=None if r is None else np.asarray(r))
          # (4) get_partition_spec / get_axis_names returns exactly the names
          s = sp.get(var)
          if s is None or (isinstance(n_obs, tuple) and s != n_obs):
            ctx.viol(f'spec|{ctext}|{vk}|{phase}',
                     'PartitionSpec extracted for the variable is not exactly its names',
                     case, observed=s, expected=n_obs)
        # (5) inside the body the stacked axes and their names are gone again
        for phase in phases:
          recs = inside.get((phase, var), [])
          if not recs:
            ctx.viol(f'inside-unobserved|{ctext}|{vk}|{phase}',
                     'the transform body never saw the variable', case)
          for n_in, shp in recs:
            if not _same_names(n_in, ref.pad(names, rank) if short else names, rank, short) \
               or tuple(shp) != tuple(shape):
              ctx.viol(f'inside|{ctext}|{vk}|{phase}',
                       f'names / shape of {var} seen inside the transform body during {phase}',
                       case, observed=[n_in, shp], expected=[names, shape])
              break
      n_obs = e_init.get(f'p{i}', ('missing', None))[0]
      core.outcome(res, 'T:' + '/'.join(map(str, n_obs)) if isinstance(n_obs, tuple)
                   else f'T:{n_obs}')
      if i == len(specs) // 2 and len(res['samples']) < 2:
        res['samples'].append(dict(api=f'linen:{flavour}', nest=ref.levels_text(levels),
                                   inner_names=list(names), inner_shape=list(shape),
                                   names_after_init=_js(n_obs),
                                   shape_after_init=list(ref.expect_shape(shape, levels)),
                                   names_inside_body=_js(inside.get(('apply', f'p{i}'), [[None]])[0][0])))


# ---------------------------------------------------------------------------
# part T, NNX


def _nnx_cfg(ctx, unit, cfg, specs, shape, seed):
  from mc.models import c19_nnx as nx
  res = ctx.res
  rank = unit['rank']
  short = unit['names'] == 'short'
  raws = {}

  def raw_twin(form):
    """The un-annotated twin, once per prefix form (the mutable Variables are
    stacked elsewhere under StateAxes)."""
    if form in raws:
      return raws[form]
    base = ref.make_levels(cfg['kinds'], cfg['ks'], rank, mirror=form == 'state')
    tag0 = f"r{rank}{'s' if short else ''}|{ref.levels_text(base)}"
    raw = nx.run(specs, shape, base, False, form, seed)
    if raw['apply_error'] is not None:
      raise raw['apply_error']      # the un-annotated program itself fails: harness error
    res['extra']['traces'] = res['extra'].get('traces', 0) + 2
    for stage in ('init', 'apply'):
      for var, s in raw['spec_' + stage].items():
        if s != ():
          ctx.viol(f'spec-unboxed|nnx:{form}|{tag0}|{_vk(var)}',
                   'nnx.get_partition_spec of an un-annotated Variable is not PartitionSpec()',
                   dict(levels=base, var=var), observed=s, expected=())
      for var, (sh, nk, _) in raw['after_' + stage].items():
        if sh != 'unboxed':
          ctx.viol(f'raw-boxed|nnx:{form}|{tag0}|{_vk(var)}',
                   'the un-annotated twin carries sharding metadata',
                   dict(levels=base, var=var), observed=sh)
    raws[form] = raw
    return raw

  for form, pnames in unit['variants']:
    raw = raw_twin(form)
    levels = ref.make_levels(cfg['kinds'], cfg['ks'], rank, pnames, mirror=form == 'state')
    tag = f"nnx:{form}|r{rank}{'s' if short else ''}|{ref.levels_text(levels)}"
    case0 = dict(api='nnx', flavour=form, rank=rank, shape=list(shape), levels=levels)
    try:
      got = nx.run(specs, shape, levels, True, form, seed)
    except Exception as e:  # noqa: the oracle predicts that every configuration runs
      ctx.viol(f'raises|{tag}',
               f'create/call under the transform raised {type(e).__name__}: {str(e)[:300]}',
               case0)
      core.outcome(res, 'T:raises')
      continue
    res['extra']['traces'] = res['extra'].get('traces', 0) + 2
    res['extra']['spec_calls'] = res['extra'].get('spec_calls', 0) + 2
    phases = ('init', 'apply')
    if got['apply_error'] is not None:
      e = got['apply_error']
      ctx.viol(f'raises-apply|{tag}', 'calling the module under the transform it was created '
               f'under raised {type(e).__name__}: {str(e)[:300]}', case0)
      core.outcome(res, 'T:apply-raises')
      phases = ('init',)
    ndim = rank + len(levels)
    if 'apply' in phases and not _tree_bits_equal(got['out'], raw['out']):
      ctx.viol(f'value-out|{tag}', 'output under the transform differs from the un-annotated '
               'program', case0, observed=np.asarray(got['out'][1]),
               expected=np.asarray(raw['out'][1]))
    for stage in phases:
      if sorted(got['after_' + stage]) != sorted(raw['after_' + stage]):
        ctx.viol(f'value-tree|{tag}|{stage}', 'set of Variables differs from the un-annotated '
                 'program', case0, observed=sorted(got['after_' + stage]),
                 expected=sorted(raw['after_' + stage]))
    inside = {}
    for var, sh, nk, shp in got['rec_apply']:
      inside.setdefault(var, []).append((sh, nk, shp))

    for i, names in enumerate(specs):
      names = tuple(names)
      pnm = ref.pad(names, rank)
      ctext = f'{tag}|{list(names)}'
      for phase in ('init', 'apply'):
        res['evals'] += 1
        if _nontrivial(names, levels):
          res['nontrivial'].append(core.h(['T', 'nnx', form, pnames, cfg, list(names),
                                           unit['names'], phase]))
      for var, axis in ((f'p{i}', 'k'), (f'v{i}', 'ks')):
        case = dict(case0, names=list(names), var=var)
        vk = _vk(var)
        exp = ref.expect_names(pnm, levels, axis=axis)
        # the second tuple-valued metadata field follows the same discipline
        exp_nick = ref.expect_names(ref.pad(nx.nick(names), rank), levels, key='nick', axis=axis)
        exp_shape = ref.expect_shape(shape, levels, axis=axis)
        for stage in phases:
          ent = got['after_' + stage].get(var)
          if ent is None:
            ctx.viol(f'missing|{ctext}|{vk}|{stage}', f'{var} missing after {stage}', case)
            continue
          sh, nk, val = ent
          if not _same_names(sh, exp, ndim, short):
            ctx.viol(f'names|{ctext}|{vk}|{stage}',
                     f'sharding of {var} after {stage} under the transform is not the inner '
                     'names with each level\'s partition name inserted at its stacking position',
                     case, observed=sh, expected=exp)
          if names and not _same_names(nk, exp_nick, ndim, short):
            # (an empty tuple-valued field is skipped by the implementation by design)
            ctx.viol(f'nickname|{ctext}|{vk}|{stage}',
                     f'tuple metadata listed in transform_metadata is misaligned after {stage}',
                     case, observed=nk, expected=exp_nick)
          if tuple(val.shape) != exp_shape:
            ctx.viol(f'shape|{ctext}|{vk}|{stage}', f'value shape of {var} after {stage}',
                     case, observed=tuple(val.shape), expected=exp_shape)
          r = raw['after_' + stage].get(var)
          if r is None or not _bits_equal(val, r[2]):
            ctx.viol(f'value|{ctext}|{vk}|{stage}',
                     f'value of {var} after {stage} differs from the un-annotated program',
                     case, observed=val, expected=None if r is None else r[2])
          s = got['spec_' + stage].get(var)
          # (an empty sharding tuple means "replicated": PartitionSpec())
          if s is None or (isinstance(sh, tuple) and s != sh):
            ctx.viol(f'spec|{ctext}|{vk}|{stage}',
                     'nnx.get_partition_spec is not exactly the sharding names',
                     case, observed=s, expected=sh)
        recs = inside.get(var, [])
        if not recs and 'apply' in phases:
          ctx.viol(f'inside-unobserved|{ctext}|{vk}|apply',
                   'the transform body never saw the variable', case)
        for sh, nk, shp in recs:
          bad = not _same_names(sh, pnm if short else names, rank, short) \
            or tuple(shp) != tuple(shape)
          if names and not _same_names(nk, ref.pad(nx.nick(names), rank) if short
                                       else nx.nick(names), rank, short):
            bad = True
          if bad:
            ctx.viol(f'inside|{ctext}|{vk}|apply',
                     f'sharding / nickname / shape of {var} seen inside the transform body',
                     case, observed=[sh, nk, shp], expected=[names, nx.nick(names), shape])
            break
      sh = got['after_init'].get(f'p{i}', ('missing',))[0]
      core.outcome(res, 'T:' + '/'.join(map(str, sh)) if isinstance(sh, tuple) else f'T:{sh}')
      if i == len(specs) // 2 and len(res['samples']) < 2:
        res['samples'].append(dict(api=f'nnx:{form}', nest=ref.levels_text(levels),
                                   inner_names=list(names), inner_shape=list(shape),
                                   sharding_after_init=_js(sh),
                                   shape_after_init=list(ref.expect_shape(shape, levels)),
                                   sharding_inside_body=_js(inside.get(f'p{i}', [[None]])[0][0])))


# ---------------------------------------------------------------------------
# part R


def _run_R(ctx, unit):
  import jax
  import flax.linen as nn
  from flax.linen import spmd
  res = ctx.res
  seed = int(os.environ.get('VERIF_SEED', '0'))
  names_all = ref.l2m_names(3)
  rot = seed % len(names_all)
  names_all = names_all[rot:] + names_all[:rot]
  dup = {n: ref.has_dup(n) for n in names_all}
  valid = [n for n in names_all if not dup[n]]
  P = jax.sharding.PartitionSpec
  spec_tree = {str(i): P(*n) for i, n in enumerate(valid)}
  outcomes = {}
  distinct = set()
  lists = list(ref.rule_lists(unit['first'], unit['max_len']))
  if unit['first'] == 0:
    lists.insert(0, ())

  def check(names, rules_idx, rules, got, how):
    exp = ref_cache.get(names)
    if exp is None:
      exp = ref_cache[names] = ref.ref_logical_to_mesh(names, rules)
    key = f'{list(names)}|{[list(map(_js, r)) for r in rules]}'
    case = dict(names=list(names), rules=_js(rules), via=how)
    if not isinstance(got, P):
      ctx.viol(f'l2m-type|{key}', 'logical_to_mesh_axes did not return a PartitionSpec', case,
               observed=repr(got))
      return
    t = tuple(got)
    if t != exp:
      ctx.viol(f'l2m|{key}', 'logical_to_mesh_axes disagrees with the rule-priority reference '
               f'(via {how})', case, observed=t, expected=exp)
    flat = [a for m in t for a in ref.mesh_axes_of(m)]
    if len(flat) != len(set(flat)):
      ctx.viol(f'l2m-reuse|{key}', 'one mesh axis is used for two dimensions of one array',
               case, observed=t)
    return t

  for rules_idx in lists:
    rules = [ref.RULES[i] for i in rules_idx]
    ref_cache = {}
    # (a) explicit rules=
    for names in names_all:
      res['evals'] += 1
      if dup[names]:
        try:
          got = spmd.logical_to_mesh_axes(names, rules)
        except ValueError:
          outcomes['R:dup-rejected'] = outcomes.get('R:dup-rejected', 0) + 1
          continue
        ctx.viol(f'l2m-dup|{list(names)}|{_js(rules)}',
                 'a names tuple with a repeated logical name was accepted',
                 dict(names=list(names), rules=_js(rules)), observed=repr(got))
        continue
      t = check(names, rules_idx, rules, spmd.logical_to_mesh_axes(names, rules), 'rules=')
      lab = 'R:' + repr(t)
      outcomes[lab] = outcomes.get(lab, 0) + 1
      distinct.add((names, ref.relevant(names, rules_idx)))
    # (b) the same through the logical_axis_rules context, and (c) logical_to_mesh on a tree
    # of PartitionSpecs of logical names (what the legacy get_axis_names produces)
    with nn.logical_axis_rules(tuple(rules)):
      for names in valid:
        res['evals'] += 1
        check(names, rules_idx, rules, spmd.logical_to_mesh_axes(names), 'context')
    res['evals'] += 1
    tree = spmd.logical_to_mesh(spec_tree, rules)
    for i, names in enumerate(valid):
      check(names, rules_idx, rules, tree[str(i)], 'logical_to_mesh(tree)')
    if spmd.logical_to_mesh_axes(None, rules) is not None:
      ctx.viol(f'l2m-none|{_js(rules)}', 'logical_to_mesh_axes(None) must stay None',
               dict(rules=_js(rules)))
  for k, v in outcomes.items():
    core.outcome(res, k, v)
  for names, rel in sorted(distinct, key=repr):
    if rel:
      res['nontrivial'].append(core.h(['R', list(names), list(rel)]))
  res['extra']['rule_lists'] = len(lists)
  mid = lists[len(lists) // 2]
  rules = [ref.RULES[i] for i in mid]
  nm = ('a', 'b', 'c')
  res['samples'].append(dict(names=list(nm), rules=_js(rules),
                             result=_js(tuple(spmd.logical_to_mesh_axes(nm, rules)))))


# ---------------------------------------------------------------------------


def _run_io(res, kind):
  """nn.scan / nn.vmap whose variable_axes use the In / Out markers next to a plain axis: an
  In(ka) collection comes in stacked along ka (and is seen inside without the level's name), a
  plain collection is stacked along kp, an Out(km) collection is created inside and stacked
  along km; each gets the partition name at *its own* axis. Every (ka, kp, km) in {0,1}^3 x
  three orders of the variable_axes mapping."""
  import itertools
  import jax
  import jax.numpy as jnp
  import flax.linen as nn
  from flax.core import lift, meta
  L = 3
  seen = []

  def names_of(b):
    return (tuple(b.names), tuple(b.value.shape)) if isinstance(b, meta.AxisMetadata) else \
        ('unboxed', tuple(np.shape(b)))

  class Body(nn.Module):
    @nn.compact
    def __call__(self, c, x):
      p = self.param('p', nn.with_partitioning(lambda k, sh: jnp.ones(sh), ('a',)), (2,))
      seen.append(('t',) + names_of(self.get_variable('consts', 't')))
      t = self.variable('consts', 't', None).value
      self.variable('memo', 'm', nn.with_partitioning(lambda: x * jnp.ones((2,)), ('b',)))
      seen.append(('m',) + names_of(self.get_variable('memo', 'm')))
      y = x * p.sum() + t.sum()
      return c + y, y

  for ka, kp, km in itertools.product((0, 1), repeat=3):
    for order in (('consts', 'params', 'memo'), ('params', 'consts', 'memo'),
                  ('memo', 'params', 'consts')):
      ax = {'consts': lift.In(ka), 'params': kp, 'memo': lift.Out(km)}
      axes = {k: ax[k] for k in order}
      cfg = dict(kind=kind, consts_in=ka, params=kp, memo_out=km, order=list(order))
      key = f'io|{kind}|{ka}{kp}{km}|{"-".join(order)}'
      mp = {nn.PARTITION_NAME: 'L0'}
      if kind == 'scan':
        T = nn.scan(Body, variable_axes=axes, split_rngs={'params': True}, in_axes=0, out_axes=0,
                    length=L, metadata_params=mp)
        c0 = jnp.zeros(())
      else:
        T = nn.vmap(Body, variable_axes=axes, split_rngs={'params': True}, in_axes=0, out_axes=0,
                    axis_size=L, metadata_params=mp)
        c0 = jnp.zeros((L,))
      tv = jnp.arange(L * 2, dtype=jnp.float32).reshape((L, 2) if ka == 0 else (2, L))
      box = meta.Partitioned(tv, names=ref.insert(('z',), ka, 'L0'))
      del seen[:]
      res['evals'] += 1
      try:
        _, upd = T().apply({'consts': {'t': box}}, c0, jnp.arange(L, dtype=jnp.float32),
                           rngs={'params': jax.random.key(0)}, mutable=['params', 'memo'])
      except Exception as e:  # noqa
        core.violation(res, 'io-raises|' + key, f'{type(e).__name__}: {e}'[:300], cfg)
        continue
      exp = {'p': (ref.insert(('a',), kp, 'L0'), ref.insert((2,), kp, L)),
             'm': (ref.insert(('b',), km, 'L0'), ref.insert((2,), km, L))}
      got = {'p': names_of(upd['params']['p']), 'm': names_of(upd.get('memo', {}).get('m'))}
      for nm in ('p', 'm'):
        if got[nm] != exp[nm]:
          core.violation(res, f'io-names|{key}|{nm}',
                         f'after the transform, names / shape of {nm!r} are {got[nm]} but the level '
                         f'name belongs at the axis declared for its own collection: {exp[nm]}',
                         cfg, observed=jsonable(got[nm]), expected=jsonable(exp[nm]))
      inside_t = {e for e in seen if e[0] == 't'}
      if inside_t != {('t', ('z',), (2,))}:
        core.violation(res, f'io-inside|{key}', 'inside the body an In(...) collection is not seen '
                       'as one slice without the level name', cfg, observed=jsonable(sorted(inside_t)))
      if 'consts' in upd:
        core.violation(res, f'io-in-returned|{key}', 'an In(...) collection was returned', cfg)
      core.outcome(res, f'io:{kind}:ok')
      res['nontrivial'].append(core.h(key))
  res['samples'].append(dict(part='IO', kind=kind))


def run_unit(unit):
  res = core.new_result()
  ctx = _Ctx(res)
  if unit['part'] == 'R':
    _run_R(ctx, unit)
    return res
  if unit['part'] == 'IO':
    _run_io(res, unit['kind'])
    return res
  seed = int(os.environ.get('VERIF_SEED', '0'))
  rank = unit['rank']
  shape = ref.SHAPES[rank]
  specs = ref.all_names(rank) if unit['names'] == 'full' else ref.short_names(rank)
  rot = seed % len(specs)      # the seed only permutes which variable carries which tuple
  specs = specs[rot:] + specs[:rot]
  import gc
  import jax
  for cfg in unit['cfgs']:
    if unit['group'] == 'linen':
      _linen_cfg(ctx, unit, cfg, specs, shape, seed)
    else:
      _nnx_cfg(ctx, unit, cfg, specs, shape, seed)
    # every configuration compiles fresh executables that are never reused: without this a
    # worker grows by ~80 MB per configuration
    jax.clear_caches()
    gc.collect()
  return res
