"""C14 — filter algebras and first-match grouping (DESIGN §4 C14).

Linen: all filter terms up to a nesting depth over a small atom set; every
ordered pair x {union, intersect, subtract}, results fed back as operands once;
membership checked for every name of a universe that is complete by symmetry
({a, b, c} are the only names any term mentions, 'zz' stands for every other
name).  NNX: filter terms over types / tags / paths evaluated against a set
semantics reference on a universe of (path, Variable) items; every tuple of
<= 3 filters through every split API must be a first-match partition.
"""
from __future__ import annotations

import itertools

from mc.engine import core

PROPERTY = 'C14'
LEVEL = 'exploration'
RULE = ('Linen: all filter terms of nesting depth <= d over atoms {True, False, a, b, (), (a,), '
        '(a,b), [b,c], {a,c}} closed under DenyList; all ordered pairs x 3 operations, results '
        'composed once more with every atom; membership compared with or/and/and-not for every '
        'name in {a,b,c,zz}; is_filter_empty vs emptiness over that universe; group_collections '
        'for every list of <= 3 terms x every subset of {a,b,c}. NNX: all filter terms of depth '
        '<= d over type/tag/path atoms vs a set-semantics evaluator on 36 items; every tuple of '
        '<= 3 filters x 5 split APIs x module family. A case is non-trivial when its operands '
        'are not both constants (Linen) / the filter tuple splits the variables into >= 2 '
        'non-empty groups (NNX); distinct by canonical text of the case')
ASSUMPTIONS = [
  "names not mentioned by a filter term are interchangeable ('zz' represents them); 'ab' / 'aba' "
  "cover names related to a mentioned name by containment",
  'nested containers inside a name collection are not filters (in_filter tests membership only)',
]

UNIVERSE = ('a', 'b', 'c', 'zz', 'ab', 'aba')

# ---------------------------------------------------------------- Linen terms
# JSON-able: True | False | 'a' | ['tuple'|'list'|'set', names...] | {'deny': t}
ATOMS = [True, False, 'a', 'b', ['tuple'], ['tuple', 'a'], ['tuple', 'a', 'b'],
         ['list', 'b', 'c'], ['set', 'a', 'c'],
         # a name that contains / is contained in other names of the universe
         'ab', ['tuple', 'ab']]


def terms(depth):
  ts = list(ATOMS)
  cur = list(ATOMS)
  for _ in range(depth):
    cur = [{'deny': t} for t in cur]
    ts += cur
  return ts


def to_flax(t):
  from flax.core.scope import DenyList
  if isinstance(t, dict):
    return DenyList(to_flax(t['deny']))
  if isinstance(t, list):
    kind, names = t[0], t[1:]
    return dict(tuple=tuple, list=list, set=set)[kind](names)
  return t


def ref_in(t, n):
  if t is True:
    return True
  if t is False:
    return False
  if isinstance(t, str):
    return n == t
  if isinstance(t, dict):
    return not ref_in(t['deny'], n)
  return n in t[1:]


def bounds(tier):
  return dict(linen_term_depth=2 if tier == 'quick' else 3,
              linen_compose_depth=2, nnx_term_depth=1 if tier == 'quick' else 2,
              nnx_filters_per_split=3, universe=list(UNIVERSE))


def units(tier, seed):
  d = 2 if tier == 'quick' else 3
  ts = terms(d)
  us = []
  for i in range(len(ts)):
    us.append(dict(kind='linen-alg', i=i, depth=d))
  us.append(dict(kind='linen-group', depth=1 if tier == 'quick' else 2))
  nd = 1 if tier == 'quick' else 2
  nt = len(nnx_terms(nd))
  step = 40
  for lo in range(0, nt, step):
    us.append(dict(kind='nnx-pred', depth=nd, lo=lo, hi=min(nt, lo + step)))
  na = len(NNX_SPLIT_ALPHABET)
  for i in range(na + 1):
    us.append(dict(kind='nnx-split', first=i))
  return us


def run_unit(unit):
  return dict(**{'linen-alg': _linen_alg, 'linen-group': _linen_group,
                 'nnx-pred': _nnx_pred, 'nnx-split': _nnx_split}[unit['kind']](unit))


# ------------------------------------------------------------- Linen algebra

OPS = {
  'union': lambda x, y: x or y,
  'intersect': lambda x, y: x and y,
  'subtract': lambda x, y: x and not y,
}


def _from_flax(r):
  """a filter returned by the algebra -> JSON-able description (for keys)"""
  from flax.core.scope import DenyList
  if isinstance(r, DenyList):
    return {'deny': _from_flax(r.deny)}
  if isinstance(r, (bool, str)):
    return r
  return [type(r).__name__] + sorted(r)


def _linen_alg(unit):
  from flax.core import scope as S
  fns = dict(union=S.union_filters, intersect=S.intersect_filters,
             subtract=S.subtract_filters)
  res = core.new_result()
  ts = terms(unit['depth'])
  s = ts[unit['i']]
  fs = to_flax(s)
  # membership and emptiness of the term itself
  for n in UNIVERSE:
    res['evals'] += 1
    if S.in_filter(fs, n) != ref_in(s, n):
      core.violation(res, f'in_filter|{s!r}|{n}', 'in_filter disagrees with the set semantics',
                     dict(term=s, name=n))
  _check_empty(res, S, fs, [lambda n, s=s: ref_in(s, n)], ('term', s))
  if not isinstance(s, dict) and s is not True:
    res['evals'] += 1
    if S.filter_to_set(fs) != {n for n in UNIVERSE if ref_in(s, n)}:
      core.violation(res, f'filter_to_set|{s!r}', 'filter_to_set differs from the member set',
                     dict(term=s))
  for t in ts:
    ft = to_flax(t)
    for op, bop in OPS.items():
      res['evals'] += 1
      try:
        r = fns[op](fs, ft)
      except Exception as e:  # noqa
        core.violation(res, f'alg-raises|{op}|{s!r}|{t!r}',
                       f'{op}_filters raised {type(e).__name__}: {e}', dict(op=op, s=s, t=t))
        continue
      sem = lambda n, s=s, t=t, bop=bop: bool(bop(ref_in(s, n), ref_in(t, n)))
      bad = [n for n in UNIVERSE if S.in_filter(r, n) != sem(n)]
      if bad:
        core.violation(res, f'alg|{op}|{s!r}|{t!r}',
                       f'{op}_filters result has wrong membership for {bad}',
                       dict(op=op, s=s, t=t, result=_from_flax(r)))
      _check_empty(res, S, r, [sem], (op, s, t))
      core.outcome(res, 'result:' + ('DenyList' if isinstance(r, S.DenyList)
                                     else type(r).__name__))
      if not (isinstance(s, bool) and isinstance(t, bool)):
        res['nontrivial'].append(core.h(['alg', op, s, t]))
      # feed the result back once with every atom, both sides
      for u in ATOMS:
        fu = to_flax(u)
        for op2, bop2 in OPS.items():
          for side in (0, 1):
            res['evals'] += 1
            try:
              r2 = fns[op2](r, fu) if side == 0 else fns[op2](fu, r)
            except Exception as e:  # noqa
              core.violation(res, f'alg2-raises|{op2}|{side}|{op}|{s!r}|{t!r}|{u!r}',
                             f'{op2}_filters on a composed filter raised {type(e).__name__}: {e}',
                             dict(op=op, s=s, t=t, op2=op2, u=u, side=side))
              continue
            if side == 0:
              sem2 = lambda n, sem=sem, u=u, b=bop2: bool(b(sem(n), ref_in(u, n)))
            else:
              sem2 = lambda n, sem=sem, u=u, b=bop2: bool(b(ref_in(u, n), sem(n)))
            bad = [n for n in UNIVERSE if S.in_filter(r2, n) != sem2(n)]
            if bad:
              core.violation(res, f'alg2|{op2}|{side}|{op}|{s!r}|{t!r}|{u!r}',
                             f'composed filter has wrong membership for {bad}',
                             dict(op=op, s=s, t=t, op2=op2, u=u, side=side,
                                  result=_from_flax(r2)))
            _check_empty(res, S, r2, [sem2], (op2, side, op, s, t, u))
  res['samples'].append(dict(s=s, t=ts[len(ts) // 2], ops=list(OPS)))
  return res


def _check_empty(res, S, f, sems, what):
  res['evals'] += 1
  try:
    got = S.is_filter_empty(f)
  except Exception as e:  # noqa
    core.violation(res, f'empty-raises|{_from_flax(f)!r}',
                   f'is_filter_empty raised {type(e).__name__}', dict(filter=_from_flax(f)))
    return
  exp = not any(sems[0](n) for n in UNIVERSE)
  if got != exp:
    core.violation(res, f'is_filter_empty|{_from_flax(f)!r}',
                   f'is_filter_empty returned {got} but the filter matches '
                   f'{[n for n in UNIVERSE if sems[0](n)]}',
                   dict(filter=_from_flax(f), origin=list(map(repr, what))))
  core.outcome(res, f'empty:{got}')


# ------------------------------------------------------- Linen group_collections


def _linen_group(unit):
  import numpy as np
  from flax.core import scope as S
  res = core.new_result()
  ts = terms(unit['depth'])
  cols_all = ('a', 'b', 'c')
  for k in range(0, 4):
    for fl in itertools.product(range(len(ts)), repeat=k):
      filt = [ts[i] for i in fl]
      ffilt = [to_flax(t) for t in filt]
      for r in range(len(cols_all) + 1):
        for cols in itertools.combinations(cols_all, r):
          xs = {c: {'v': np.arange(2.0) + ord(c)} for c in reversed(cols)}
          res['evals'] += 1
          groups = S.group_collections(xs, ffilt)
          exp = [dict() for _ in filt]
          for c in xs:
            for gi, t in enumerate(filt):
              if ref_in(t, c):
                exp[gi][c] = True
                break
          ok = len(groups) == len(filt) and all(
            set(g.keys()) == set(e.keys()) for g, e in zip(groups, exp))
          if ok:
            for g in groups:
              for c, v in g.items():
                if not np.array_equal(v['v'], xs[c]['v']):
                  ok = False
                if v is xs[c]:
                  core.violation(res, f'group-alias|{filt!r}|{cols}',
                                 'group_collections returned the input container itself',
                                 dict(filters=filt, cols=cols))
          if not ok:
            core.violation(res, f'group|{filt!r}|{cols}',
                           'group_collections is not the first-match partition',
                           dict(filters=filt, cols=cols,
                                observed=[sorted(g) for g in groups],
                                expected=[sorted(e) for e in exp]))
          n_nonempty = sum(1 for e in exp if e)
          core.outcome(res, f'groups-nonempty:{n_nonempty}')
          if n_nonempty >= 2:
            res['nontrivial'].append(core.h(['grp', filt, cols]))
  res['samples'].append(dict(filters=[ts[2], ts[-1]], cols=['a', 'b']))
  return res


# --------------------------------------------------------------------- NNX

NNX_TYPES = ('Param', 'BatchStat', 'P2', 'Variable')
NNX_TAGS = (None, 't1', 't2')
NNX_PATHS = (('a', 'w'), ('a', 'b'), ('b', 'w'), ('c',))
NNX_ATOMS = [['type', 'Param'], ['type', 'BatchStat'], ['type', 'P2'], ['type', 'Variable'],
             ['tag', 't1'], ['tag', 't2'], ['pc', 'a'], ['pc', 'w'], ['pc', 'zz'],
             ['pin', [['a', 'w'], ['c']]], ['pin', []], '...', True, False, None]
ITEM_TYPES = ('Param', 'BatchStat', 'P2')


def nnx_terms(depth):
  ts = list(NNX_ATOMS)
  cur = list(NNX_ATOMS)
  for _ in range(depth):
    new = []
    for t in cur:
      new.append(['not', t])
    for t in cur[:9]:
      for u in NNX_ATOMS[:9]:
        new.append(['any', t, u])
        new.append(['all', t, u])
        new.append(['list', t, u])
      new.append(['tuple', t])
    # a sequence is a disjunction wherever it appears, also as the single operand of a combinator
    for t in cur[:6]:
      for u in NNX_ATOMS[:6]:
        new.append(['all', ['tuple', t, u]])
        new.append(['all', ['list', t, u]])
        new.append(['any', ['tuple', t, u]])
        new.append(['not', ['list', t, u]])
    new.append(['any'])
    new.append(['all'])
    new.append(['list'])
    ts += new
    cur = new
  # dedupe
  seen, out = set(), []
  for t in ts:
    k = repr(t)
    if k not in seen:
      seen.add(k)
      out.append(t)
  return out


_TYPES = None


def _types():
  global _TYPES
  if _TYPES is None:
    from flax import nnx

    class P2(nnx.Param):
      pass
    _TYPES = dict(Param=nnx.Param, BatchStat=nnx.BatchStat, P2=P2, Variable=nnx.Variable)
  return _TYPES


def to_nnx(t):
  from flax import nnx
  if t == '...':
    return ...
  if t is None or isinstance(t, bool):
    return t
  k = t[0]
  if k == 'type':
    return _types()[t[1]]
  if k == 'tag':
    return t[1]
  if k == 'pc':
    return nnx.PathContains(t[1])
  if k == 'pin':
    return nnx.filterlib.PathIn(*[tuple(p) for p in t[1]])
  if k == 'any':
    return nnx.Any(*[to_nnx(x) for x in t[1:]])
  if k == 'all':
    return nnx.All(*[to_nnx(x) for x in t[1:]])
  if k == 'not':
    return nnx.Not(to_nnx(t[1]))
  if k == 'list':
    return [to_nnx(x) for x in t[1:]]
  if k == 'tuple':
    return tuple(to_nnx(x) for x in t[1:])
  raise AssertionError(t)


def nnx_ref(t, path, typ, tag):
  if t == '...' or t is True:
    return True
  if t is None or t is False:
    return False
  k = t[0]
  if k == 'type':
    T = _types()
    return issubclass(T[typ], T[t[1]])
  if k == 'tag':
    return tag == t[1]
  if k == 'pc':
    return t[1] in path
  if k == 'pin':
    return tuple(path) in {tuple(p) for p in t[1]}
  if k in ('any', 'list', 'tuple'):
    return any(nnx_ref(x, path, typ, tag) for x in t[1:])
  if k == 'all':
    return all(nnx_ref(x, path, typ, tag) for x in t[1:])
  if k == 'not':
    return not nnx_ref(t[1], path, typ, tag)
  raise AssertionError(t)


def _mkvar(typ, tag, val):
  import jax.numpy as jnp
  T = _types()[typ]
  # a tag built at run time: equal to the filter's string, never the same (interned) object
  kw = {} if tag is None else dict(tag=''.join(list(tag)))
  return T(jnp.full((), float(val)), **kw)


def _nnx_pred(unit):
  from flax import nnx
  res = core.new_result()
  ts = nnx_terms(unit['depth'])[unit['lo']:unit['hi']]
  items = []
  for p in NNX_PATHS:
    for ty in ITEM_TYPES:
      for tg in NNX_TAGS:
        v = _mkvar(ty, tg, 1)
        items.append((p, ty, tg, v, v.to_state()))
  for t in ts:
    pred = nnx.filterlib.to_predicate(to_nnx(t))
    hits = 0
    for p, ty, tg, v, vs in items:
      exp = nnx_ref(t, p, ty, tg)
      for form, obj in (('Variable', v), ('VariableState', vs)):
        res['evals'] += 1
        got = bool(pred(p, obj))
        if got != exp:
          core.violation(res, f'nnx-pred|{t!r}|{p}|{ty}|{tg}|{form}',
                         f'predicate of filter returned {got}, set semantics says {exp}',
                         dict(filter=t, path=p, type=ty, tag=tg, form=form))
      hits += exp
    core.outcome(res, 'matches-some' if 0 < hits < len(items) else
                 ('matches-all' if hits else 'matches-none'))
    if 0 < hits < len(items):
      res['nontrivial'].append(core.h(['pred', t]))
  res['samples'].append(dict(filter=ts[0], items=len(items)))
  return res


NNX_SPLIT_ALPHABET = [['type', 'Param'], ['type', 'BatchStat'], ['type', 'P2'], ['tag', 't1'],
                      ['pc', 'a'], ['pc', 'w'], ['not', ['type', 'Param']],
                      ['all', ['type', 'Param'], ['pc', 'w']],
                      ['list', ['tag', 't2'], ['type', 'BatchStat']],
                      ['pin', [['a', 'w'], ['c']]],
                      ['all', ['tuple', ['type', 'Param'], ['type', 'BatchStat']]],
                      '...', True, False, None]

# variable assignments for the four paths: (type, tag) per path
MODULE_FAMILY = [
  [('Param', None), ('Param', None), ('Param', None), ('Param', None)],
  [('Param', None), ('BatchStat', None), ('P2', 't1'), ('BatchStat', 't2')],
  [('P2', 't2'), ('Param', 't1'), ('BatchStat', 't1'), ('P2', None)],
  [('BatchStat', 't2'), ('P2', 't1'), ('Param', None), ('Param', 't2')],
]


def _mkmodule(assign):
  from flax import nnx

  class Sub(nnx.Module):
    pass

  class M(nnx.Module):
    pass

  m = M()
  m.a = Sub()
  m.b = Sub()
  vals = {}
  for i, (p, (ty, tg)) in enumerate(zip(NNX_PATHS, assign)):
    v = _mkvar(ty, tg, i + 1)
    if len(p) == 2:
      setattr(getattr(m, p[0]), p[1], v)
    else:
      setattr(m, p[0], v)
    vals[p] = (ty, tg, float(i + 1))
  return m, vals


def _flat(state):
  from flax import nnx
  return {tuple(p): float(v.value) for p, v in nnx.to_flat_state(state)}


def _nnx_split(unit):
  from flax import nnx
  res = core.new_result()
  alpha = NNX_SPLIT_ALPHABET
  first = unit['first']
  tuples = []
  if first == len(alpha):
    tuples.append(())
  else:
    tuples.append((first,))
    for j in range(len(alpha)):
      tuples.append((first, j))
      for k in range(len(alpha)):
        tuples.append((first, j, k))
  for mi, assign in enumerate(MODULE_FAMILY):
    m, vals = _mkmodule(assign)
    full = nnx.state(m)
    for tp in tuples:
      filt = [alpha[i] for i in tp]
      ff = [to_nnx(t) for t in filt]
      # expected first-match partition
      exp = [dict() for _ in filt] + [dict()]
      for p, (ty, tg, val) in vals.items():
        for gi, t in enumerate(filt):
          if nnx_ref(t, p, ty, tg):
            exp[gi][p] = val
            break
        else:
          exp[-1][p] = val
      everything_early = any(
        (t == '...' or t is True) and not all(u == '...' or u is True for u in filt[i + 1:])
        for i, t in enumerate(filt[:-1]))
      nonempty = sum(1 for e in exp if e)
      case = dict(module=mi, filters=filt)
      key = f'{mi}|{filt!r}'
      apis = {
        'split_state': lambda: nnx.split_state(full, *ff),
        'State.split': lambda: full.split(*ff),
        'filter_state': lambda: nnx.filter_state(full, *ff),
        'nnx.state': lambda: nnx.state(m, *ff),
        'nnx.split': lambda: nnx.split(m, *ff)[1:],
      }
      for api, call in apis.items():
        if not filt and api in ('split_state', 'State.split', 'filter_state'):
          continue
        res['evals'] += 1
        try:
          out = call()
          err = None
        except Exception as e:  # noqa
          out, err = None, e
        partition_api = api in ('split_state', 'State.split', 'nnx.split')
        # documented errors
        if everything_early:
          if err is None or not isinstance(err, ValueError):
            core.violation(res, f'nnx-early-ellipsis|{api}|{key}',
                           '`...`/True before another filter must raise ValueError',
                           dict(case, api=api))
          core.outcome(res, 'raises-ellipsis-order')
          continue
        if partition_api and filt and exp[-1]:
          # non-exhaustive split must raise, never drop
          if err is None or not isinstance(err, ValueError):
            core.violation(res, f'nnx-nonexhaustive|{api}|{key}',
                           'non-exhaustive split must raise ValueError', dict(case, api=api))
          core.outcome(res, 'raises-nonexhaustive')
          continue
        if err is not None:
          core.violation(res, f'nnx-split-raises|{api}|{key}',
                         f'{api} raised {type(err).__name__}: {str(err)[:200]}',
                         dict(case, api=api))
          continue
        if not isinstance(out, tuple):
          out = (out,)
        got = [_flat(s) for s in out]
        want = exp[:len(filt)] if filt else [dict((p, v[2]) for p, v in vals.items())]
        if got != want:
          core.violation(res, f'nnx-split|{api}|{key}',
                         f'{api} is not the first-match partition',
                         dict(case, api=api, observed=[sorted(map(list, g)) for g in got],
                              expected=[sorted(map(list, g)) for g in want]))
        core.outcome(res, f'groups-nonempty:{nonempty}')
      if nonempty >= 2:
        res['nontrivial'].append(core.h(['split', mi, filt]))
  res['samples'].append(dict(module=MODULE_FAMILY[1], filters=[alpha[i] for i in tuples[-1]]))
  return res
