"""C03 — NNX split/merge round trip, sharing, cycles; update/clone/pop/state
(DESIGN §4 C03).

Bounded-exhaustive enumeration of object graphs (mc/models/c03_graphs.py) and,
on every graph, explicit-state BFS over operation histories executed on the
real flax.nnx implementation.  A state is the canonical form of the graph
reached (types, static attributes, Variable type/value/metadata, identity
partition as first-visit indices); every transition is one nnx operation whose
result and effect are compared with the same operation on a plain-Python
reference model (node table, attribute table, variable table).

Clauses (numbers as in DESIGN): (1) merge(split(g)) ~ g, (2) g untouched by
split/merge/clone/state/graphdef/iter_graph, (3) filter partition first-match +
merge in any argument order, (4) update in place, (5) clone shares nothing
mutable, (6) pop, (7) state: every Variable once, first path, sorted, (8)
iter_graph visits every reachable graph node / container exactly once.
"""
from __future__ import annotations

import itertools
import os

import numpy as np

from mc.engine import core
from mc.models import c03_graphs as G

PROPERTY = 'C03'
LEVEL = 'model_checking'
RULE = ('every object graph of the tier families, one canonical representative per isomorphism '
        'class (all nodes reachable from the root, nodes numbered in first-visit order, root class '
        'fixed): n graph nodes of classes M/N; per node an ordered tuple of slots named a,b,c of '
        'total width <= W, a slot being a node reference (self loops, back edges, diamonds), a '
        'Variable of the pool v0 Param / v1 BatchStat(tag=u) / v2 TParam(tag=t) (sharing by reuse), '
        'a raw np/jax array, a static int/str/None (width 1) or a list/tuple/dict of two '
        'node-ref/Variable entries (width 2); on every graph BFS over histories of the '
        'state-changing operations (4 update variants, 5 pop filter tuples) to the family depth, '
        'and in every expanded state the action set {split+merge, split(F)+merge(every permutation '
        'of the states) for the filter-tuple sweep, clone, state(), state(F), graphdef, iter_graph, '
        'updates, pops} run on the real implementation and compared with the reference model. '
        'States = distinct canonical graphs reached; a state is non-trivial when some graph node or '
        'Variable is reachable along >= 2 paths (sharing, diamond, cycle)')
ASSUMPTIONS = [
  'reference semantics are asserted for graph nodes (nnx.Object subclasses) and Variables only; '
  'list/tuple/dict/None are pytree nodes rebuilt by value (DESIGN 0.3)',
  'pop: a Variable shared between several attributes is removed from the attribute where the '
  'sorted traversal first selects it and stays reachable through its other paths (DESIGN C03 '
  'clause 6 fixes this as the reference); only path-independent filters are popped; a selected '
  'Variable inside a list/tuple/dict is expected to raise ValueError and the state is not explored '
  'further',
  'raw arrays are state leaves (they appear in State, match `...` and Not(type) filters, are '
  'replaced by update) but are never popped; leaf arrays (raw array attributes, Variable '
  'payloads) are treated as immutable values: passing the same array object to the clone / the '
  'merged graph is not counted as sharing (same convention as C01)',
  'iter_graph: graph nodes and containers exactly once at their first path; Variables and '
  'other leaves may be yielded once per path (documented: "repeated nodes are visited once")',
  'data are small integers in float32; update adds small integers, so equality is bitwise',
  'graphs are rooted at an nnx.Module; attribute names per node are the first k of (a,b,c) '
  '(both relative orders occur because slot tuples are ordered; attributes are assigned in '
  'reverse order so insertion order != sorted order); all name subsets only in the single-node '
  'families',
  'the two Module classes are interchangeable empty subclasses, so class vectors are enumerated '
  'up to renaming (root class fixed)',
  'canonical-state merging: two histories reaching the same canonical form are explored once '
  '(every operation only observes what the canonical form records)',
]

# ---------------------------------------------------------------------------
# filter alphabet (terms interpreted by G.real_filter / RefGraph.match)

P, B, TP, VAR = ('type', 'Param'), ('type', 'BatchStat'), ('type', 'TParam'), ('type', 'Variable')
TAG, PB, E = ('tag', 't'), ('path', 'b'), ('...',)
ALPHA = [P, B, TP, TAG, PB, ('not', P), ('any', B, TAG), ('all', P, ('not', TAG))]


def _sweep(alpha, triples):
  out = [(f,) for f in alpha] + [(E,)]
  out += [(f, E) for f in alpha]
  out += [(f, g) for f in alpha for g in alpha if f != g]
  if triples:
    out += [(f, g, E) for f in alpha for g in alpha if f != g]
  return out


ALPHA_Q = ALPHA[:2] + ALPHA[3:7]            # quick: 6 of the 8
SWEEP_Q = _sweep(ALPHA_Q, False)           # 7 + 6 + 30 = 43 tuples
SWEEP_FULL = _sweep(ALPHA, False)          # 9 + 8 + 56 = 73 tuples
SWEEP_FULL3 = _sweep(ALPHA, True)          # + 56 triples (6 permutations each)
SWEEP_SMALL = [(P, E), (TAG, B, E), (('not', P), P), (PB, VAR, E)]
STATE_FILTERS = [(f,) for f in ALPHA] + [(P, B), (TAG, P), (B, E)]
STATE_FILTERS_SMALL = [(P,), (('not', P),), (TAG, P), (B, E)]
POPS = [(P,), (B,), (TAG,), (('not', P),), (B, P)]
UPDATES = [('update', 'all'), ('update', 'part', P), ('update', 'part', B),
           ('update', 'two', TAG)]

# ---------------------------------------------------------------------------
# families (see G.family_graphs); inert = raw arrays / statics

_I2 = [['a', 'np'], ['s', 7]]
_I5 = [['a', 'np'], ['a', 'jax'], ['s', 7], ['s', 'k'], ['s', None]]

FAMILIES = {
  # quick: n <= 2, width <= 2, <= 1 container per graph
  'q1': dict(ns=[1], inert=_I5, cont='LTD', vars=(0, 1, 2), width=2, node_cont=1,
             graph_cont=1, classes='MN', names='subsets', depth=2, sweep0='q', parts=1,
             group=12),
  'q2': dict(ns=[2], inert=_I2, cont='LTD', vars=(0, 1, 2), width=2, node_cont=1,
             graph_cont=1, classes='MN', depth=2, sweep0='q', parts=6),
  # thorough
  't1': dict(ns=[1], inert=_I5, cont='LTD', vars=(0, 1, 2), width=3, node_cont=1,
             graph_cont=1, classes='MN', names='subsets', depth=3, sweep0='full3', parts=1,
             group=20),
  't2': dict(ns=[2], inert=_I2, cont='LTD', vars=(0, 1, 2), width=2, node_cont=1,
             graph_cont=1, classes='MN', depth=3, sweep0='full3', parts=3),
  't3': dict(ns=[3], inert=[['a', 'np']], cont='', vars=(0, 1, 2), width=2, node_cont=0,
             graph_cont=0, classes='MN', depth=1, sweep0='full', parts=8),
  # n = 2 with a node of 3 plain slots (disjoint from t2 by need_width)
  't4': dict(ns=[2], inert=[['a', 'np']], cont='', vars=(0, 1, 2), width=3, node_cont=0,
             graph_cont=0, need_width=3, classes='MN', depth=1, sweep0='q', parts=1),
  # n = 3 with exactly one list container (disjoint from t3 by need_cont), one class
  't5': dict(ns=[3], inert=[], cont='L', vars=(0, 1, 2), width=2, node_cont=1,
             graph_cont=1, need_cont=1, classes='M', depth=1, sweep0='q', parts=3),
}
TIERS = {'quick': ['q1', 'q2'], 'thorough': ['t1', 't2', 't3', 't4', 't5']}
_SWEEPS = {'q': SWEEP_Q, 'full': SWEEP_FULL, 'full3': SWEEP_FULL3}


def bounds(tier):
  fams = {}
  for name in TIERS[tier]:
    f = FAMILIES[name]
    fams[name] = dict(nodes=f['ns'], width_per_node=f['width'], inert=f['inert'],
                      containers=f['cont'], containers_per_graph=f['graph_cont'],
                      classes=f['classes'], names=f.get('names', 'prefix'),
                      at_least_one_node_of_width=f.get('need_width'),
                      containers_at_least=f.get('need_cont', 0),
                      history_depth=f['depth'],
                      filter_alphabet=len(ALPHA_Q) if f['sweep0'] == 'q' else len(ALPHA),
                      filter_tuples_depth0=len(_SWEEPS[f['sweep0']]),
                      filter_tuple_len=3 if f['sweep0'] == 'full3' else 2,
                      filter_tuples_deeper=len(SWEEP_SMALL))
  return dict(families=fams, variable_pool=3, updates=len(UPDATES), pops=len(POPS),
              state_filters_depth0=len(STATE_FILTERS), state_filters_deeper=len(STATE_FILTERS_SMALL))


def units(tier, seed):
  us = []
  for name in TIERS[tier]:
    fam = FAMILIES[name]
    for n in fam['ns']:
      roots = [ri for ri in range(G.n_root_assignments(fam, n))
               if G.root_reaches_all_possible(fam, n, ri)]
      g = fam.get('group', 1)
      for i in range(0, len(roots), g):
        for p in range(fam['parts']):
          us.append(dict(fam=name, n=n, roots=roots[i:i + g], part=p))
  # wide containers: more than ten entries / integer dict keys, where lexicographic and
  # numeric (or structural) order of the paths differ
  for kind in WIDE_KINDS:
    us.append(dict(fam='wide', kind=kind))
  return us


WIDE_KINDS = ['list12', 'tuple11', 'intdict', 'negintdict', 'modlist12', 'mixed', 'pop-path']


def _wide_graph(kind, seed):
  import jax.numpy as jnp
  from flax import nnx

  class Leaf(nnx.Module):
    def __init__(self, i):
      self.w = nnx.Param(jnp.full((2,), float(i + seed % 3)))
      self.c = nnx.BatchStat(jnp.asarray(100 + i))

  class Root(nnx.Module):
    pass

  r = Root()
  mk = lambda i: nnx.Param(jnp.full((), float(i + 1 + seed % 3))) if i % 2 == 0 else \
      nnx.BatchStat(jnp.full((), float(50 + i)))
  if kind == 'list12':
    r.items = [mk(i) for i in range(12)]
  elif kind == 'tuple11':
    r.items = tuple(mk(i) for i in range(11))
  elif kind == 'intdict':
    r.items = {10: mk(0), 2: mk(1), 1: mk(2), 33: mk(3), 4: mk(4)}
  elif kind == 'negintdict':
    r.items = {-1: mk(0), 3: mk(1), -10: mk(2), 0: mk(3)}
  elif kind == 'modlist12':
    r.layers = [Leaf(i) for i in range(12)]
    r.layers[3].w = r.layers[10].w          # a shared Variable across positions 3 and 10
  elif kind == 'mixed':
    r.items = [mk(i) for i in range(11)]
    r.d = {10: Leaf(0), 9: Leaf(1), 100: Leaf(2)}
    r.z = r.items[10]
  return r


def _walk(obj, path=(), seen=None, out=None):
  """plain-Python reading of a graph: {path: (type name, value, identity class)}"""
  from flax import nnx
  if seen is None:
    seen, out = {}, {}
  if isinstance(obj, nnx.Variable):
    ident = seen.setdefault(id(obj), len(seen))
    out[path] = (type(obj).__name__, np.asarray(obj.value).tolist(), ident)
  elif isinstance(obj, nnx.Module):
    if id(obj) in seen:
      out[path] = ('ref', seen[id(obj)])
      return out
    seen[id(obj)] = len(seen)
    for k in sorted(vars(obj)):
      if not k.startswith('_'):
        _walk(getattr(obj, k), path + (k,), seen, out)
  elif isinstance(obj, (list, tuple)):
    out[path + ('#type',)] = type(obj).__name__
    for i, v in enumerate(obj):
      _walk(v, path + (i,), seen, out)
  elif isinstance(obj, dict):
    for k in sorted(obj, key=repr):
      _walk(obj[k], path + (k,), seen, out)
  else:
    out[path] = ('leaf', repr(obj))
  return out


def _run_pop_path(res):
  """pop with path-dependent filters on a Variable shared between two slots: it is removed
  (and returned, once) at the first path in sorted order at which a filter selects it."""
  import itertools
  import jax.numpy as jnp
  from flax import nnx

  class Sub(nnx.Module):
    pass

  def build():
    r = Sub()
    r.a, r.b = Sub(), Sub()
    v = nnx.Param(jnp.asarray(1.0))
    r.a.w, r.b.w = v, v
    r.b.s = nnx.Param(jnp.asarray(2.0))
    r.a.t = nnx.BatchStat(jnp.asarray(3.0))
    return r

  paths = [('a', 't'), ('a', 'w'), ('b', 's'), ('b', 'w')]   # sorted traversal order
  keyset = ['a', 'b', 'w', 's', 't']
  for k1 in keyset:
    for k2 in [None] + keyset:
      filters = [nnx.PathContains(k1)] + ([nnx.PathContains(k2)] if k2 else [])
      ftxt = [k1] + ([k2] if k2 else [])
      # reference: walk the paths in order; a shared Variable already popped is skipped
      exp = [dict() for _ in filters]
      popped_ids = set()
      removed = []
      for p in paths:
        ident = 'shared' if p[1] == 'w' else p
        if ident in popped_ids:
          continue
        for gi, kk in enumerate(ftxt):
          if kk in p:
            exp[gi][p] = True
            popped_ids.add(ident)
            removed.append(p)
            break
      g = build()
      res['evals'] += 1
      res['transitions'] += 1
      key = f'pop-path|{ftxt}'
      try:
        out = nnx.pop(g, *filters)
      except Exception as e:  # noqa
        core.violation(res, f'wide-pop-raises|{key}', f'{type(e).__name__}: {str(e)[:200]}',
                       dict(filters=ftxt))
        continue
      out = out if isinstance(out, tuple) else (out,)
      got = [sorted(tuple(p) for p, _ in nnx.to_flat_state(s)) for s in out]
      if got != [sorted(e) for e in exp]:
        core.violation(res, f'wide-pop-states|{key}',
                       'pop did not return each selected Variable once, in the state of the first '
                       'filter that selects it at its first selecting path', dict(filters=ftxt),
                       observed=[list(map(list, x)) for x in got],
                       expected=[sorted(map(list, e)) for e in exp])
      left = sorted(p for p in paths if hasattr(getattr(g, p[0]), p[1]))
      if left != sorted(p for p in paths if p not in removed):
        core.violation(res, f'wide-pop-graph|{key}', 'pop removed the wrong attributes',
                       dict(filters=ftxt), observed=list(map(list, left)),
                       expected=[list(p) for p in paths if p not in removed])
      core.outcome(res, f'pop-path:{len(removed)}-removed')
      res['nontrivial'].append(core.h(['pop-path', ftxt]))
  res['states'] += 1
  res['samples'].append(dict(fam='wide', kind='pop-path', filters=['a', 'w']))


def _run_wide(res, kind):
  from flax import nnx
  if kind == 'pop-path':
    _run_pop_path(res)
    return
  g = _wide_graph(kind, _seed())
  before = _walk(g)
  case = dict(kind=kind)

  def chk(tag, obj, what):
    res['evals'] += 1
    res['transitions'] += 1
    got = _walk(obj)
    if got != before:
      bad = [p for p in before if got.get(p) != before[p]][:4]
      core.violation(res, f'wide-{tag}|{kind}', f'{what}: paths {bad} differ', case,
                     observed=[repr(got.get(p)) for p in bad],
                     expected=[repr(before[p]) for p in bad])

  gd, st = nnx.split(g)
  chk('roundtrip', nnx.merge(gd, st), 'merge(split(g)) is not isomorphic to g')
  chk('untouched', g, 'split modified g')
  gd, a, b = nnx.split(g, nnx.Param, ...)
  chk('filtered', nnx.merge(gd, a, b), 'merge of filtered states')
  chk('filtered-rev', nnx.merge(gd, b, a), 'merge of filtered states in the other order')
  chk('clone', nnx.clone(g), 'clone is not isomorphic to g')
  # state lists every Variable once under its first path in sorted order
  flat = list(nnx.to_flat_state(nnx.state(g)))
  paths = [tuple(p) for p, _ in flat]
  want = {}
  for p, v in before.items():
    if isinstance(v, tuple) and len(v) == 3 and v[2] not in want:
      want[v[2]] = p
  if sorted(map(repr, paths)) != sorted(map(repr, want.values())):
    core.violation(res, f'wide-state-paths|{kind}', 'state does not list every Variable once '
                   'under its first path', case, observed=list(map(repr, paths)),
                   expected=list(map(repr, want.values())))
  for p, v in flat:
    if np.asarray(v.value).tolist() != before[tuple(p)][1]:
      core.violation(res, f'wide-state-values|{kind}', f'state value at {p} is wrong', case)
  # update with +1 keeps identity and sets exactly the addressed values
  ids = {p: id(o) for p, o in _objs(g).items()}
  st2 = nnx.state(g)
  import jax
  nnx.update(g, jax.tree.map(lambda x: x + 1, st2))
  after = _walk(g)
  for p, v in before.items():
    if isinstance(v, tuple) and len(v) == 3:
      if after[p][1] != (np.asarray(v[1]) + 1).tolist():
        core.violation(res, f'wide-update|{kind}', f'update set a wrong value at {p}', case)
  if {p: id(o) for p, o in _objs(g).items()} != ids:
    core.violation(res, f'wide-update-identity|{kind}', 'update replaced objects', case)
  res['states'] += 1
  res['nontrivial'].append(core.h(['wide', kind]))
  core.outcome(res, 'wide:ok')
  res['samples'].append(dict(fam='wide', kind=kind, variables=len(flat)))


def _objs(obj, path=(), seen=None, out=None):
  from flax import nnx
  if seen is None:
    seen, out = set(), {}
  if isinstance(obj, nnx.Variable):
    out[path] = obj
  elif isinstance(obj, nnx.Module):
    if id(obj) in seen:
      return out
    seen.add(id(obj))
    out[path] = obj
    for k in sorted(vars(obj)):
      if not k.startswith('_'):
        _objs(getattr(obj, k), path + (k,), seen, out)
  elif isinstance(obj, (list, tuple)):
    for i, v in enumerate(obj):
      _objs(v, path + (i,), seen, out)
  elif isinstance(obj, dict):
    for k in obj:
      _objs(obj[k], path + (k,), seen, out)
  return out


def setup_worker():
  G.rt()


# ---------------------------------------------------------------------------


def _seed():
  return int(os.environ.get('VERIF_SEED', '0'))


def run_unit(unit):
  res = core.new_result()
  if unit['fam'] == 'wide':
    _run_wide(res, unit['kind'])
    return res
  fam = FAMILIES[unit['fam']]
  first = True
  for ri in unit['roots']:
    for spec in G.family_graphs(fam, unit['n'], ri, unit['part'], fam['parts']):
      Explorer(res, fam, spec, sample=first).run()
      first = False
  return res


def replay(rec):
  """--replay: re-explore only the graph of the recorded case (one spec, its
  BFS) and print the recorded violation if it shows again."""
  import json
  case = rec['case']
  res = core.new_result()
  Explorer(res, FAMILIES[case['family']], case['spec']).run()
  bad = [v for v in res['violations'] if v['key'] == rec['key']]
  for v in bad:
    print(json.dumps(v, indent=1, default=repr)[:4000])
  return bad


def jax_leaves(tree, VS):
  import jax
  return jax.tree.leaves(tree, is_leaf=lambda x: isinstance(x, VS))


def atext(a):
  if a[0] == 'update':
    return 'update[' + a[1] + (',' + G.ftext(a[2]) if len(a) > 2 else '') + ']'
  if a[0] == 'pop':
    return 'pop[' + ','.join(G.ftext(f) for f in a[1]) + ']'
  return str(a)


class Explorer:
  def __init__(self, res, fam, spec, sample=False):
    self.res = res
    self.fam = fam
    self.fam_name = next(k for k, v in FAMILIES.items() if v is fam)
    self.spec = spec
    self.gtext = G.spec_text(spec)
    self.seed = _seed()
    self.sample = sample
    self.R = G.rt()
    self.nnx = self.R['nnx']

  # -- reporting -------------------------------------------------------------
  def V(self, clause, hist, action, what, observed=None, expected=None):
    h = '>'.join([atext(a) for a in hist] + [action])
    core.violation(self.res, f'{clause}|{self.gtext}|{h}', what,
                   dict(spec=self.spec, history=[atext(a) for a in hist], action=action,
                        seed=self.seed, graph=self.gtext, family=self.fam_name),
                   observed=G.show(observed), expected=G.show(expected))

  def call(self, clause, hist, action, fn, *args, expect=()):
    """Run one API call; an exception the oracle does not predict is a violation."""
    self.res['evals'] += 1
    try:
      return True, fn(*args)
    except expect as e:
      return False, e
    except Exception as e:  # noqa: BLE001 — reported, not swallowed
      self.V(clause + '-raises', hist, action,
             f'{action} raised {type(e).__name__}: {str(e)[:200]}')
      return None, e

  # -- history replay --------------------------------------------------------
  def replay(self, hist):
    model = G.RefGraph.from_spec(self.spec, self.seed)
    live = G.build_real(model)
    for a in hist:
      self.apply(live, model, a)
    return live, model

  def apply(self, live, model, a):
    """Apply a state-changing action to the real graph and to the model
    (unchecked; used for replays).  Returns what the real call returned."""
    nnx = self.nnx
    if a[0] == 'update':
      states = self.update_states(model, a)
      nnx.update(live, *states)
      return None
    if a[0] == 'pop':
      model.pop(a[1])
      return nnx.pop(live, *[G.real_filter(f) for f in a[1]])
    raise ValueError(a)

  def update_states(self, model, a):
    """Builds the State argument(s) of nnx.update from the *model* and applies
    the same change to the model.  Variants: all leaves +1 | leaves matching a
    filter +2 | two states (filter: +3, rest: +4)."""
    VS, jnp = self.R['VariableState'], self.R['jnp']

    def mk(leaf, inc):
      new = np.asarray(model.leaf_value(leaf)) + np.float32(inc)
      model.set_leaf(leaf, new)
      if leaf[0] == 'v':
        t, _, m = model.vars[leaf[1]]
        return VS(self.R[t], G.jarr(new), **m)
      return np.array(new)

    flat = model.flat()
    if a[1] == 'all':
      return [self.nnx.State(G.nested([(p, mk(l, 1)) for p, l in flat]))]
    if a[1] == 'part':
      return [G.nested([(p, mk(l, 2)) for p, l in flat if model.match(a[2], p, l)])]
    if a[1] == 'two':
      s1 = [(p, mk(l, 3)) for p, l in flat if model.match(a[2], p, l)]
      s2 = [(p, mk(l, 4)) for p, l in flat if not model.match(a[2], p, l)]
      return [self.nnx.State(G.nested(s1)), self.nnx.State(G.nested(s2))]
    raise ValueError(a)

  # -- BFS ---------------------------------------------------------------------
  def run(self):
    res = self.res
    model0 = G.RefGraph.from_spec(self.spec, self.seed)
    self.nontriv = model0.sharing()
    seen = {model0.canon()}
    res['states'] += 1
    if self.nontriv:
      res['nontrivial'].append(core.h([self.gtext, '']))
    frontier = [()]
    for level in range(self.fam['depth']):
      nxt = []
      for hist in frontier:
        for a, m2 in self.expand(hist, level):
          c = m2.canon()
          if c not in seen:
            seen.add(c)
            res['states'] += 1
            if self.nontriv:
              res['nontrivial'].append(core.h([self.gtext, [atext(x) for x in hist + (a,)]]))
            nxt.append(hist + (a,))
      frontier = nxt

  def expand(self, hist, level):
    """All actions in the state reached by `hist`; yields (action, model') for
    the state-changing ones that completed."""
    res, nnx = self.res, self.nnx
    live, model = self.replay(hist)
    want = model.canon()
    if G.canon_real(live) != want:
      self.V('replay', hist, 'replay', 'replayed history does not reach the model state',
             G.canon_real(live), want)
      return
    self.live, self.model, self.want, self.hist = live, model, want, hist
    self.snap = G.snapshot(live)

    self.act_roundtrip()
    sweep = _SWEEPS[self.fam['sweep0']] if level == 0 else SWEEP_SMALL
    for F in sweep:
      self.act_split_filters(F)
    self.untouched('split[filters]')
    self.act_clone()
    self.act_state()
    for F in (STATE_FILTERS if level == 0 else STATE_FILTERS_SMALL):
      self.act_state_filters(F)
    self.untouched('state[filters]')
    self.act_graphdef()
    self.act_iter_graph()

    for a in UPDATES:
      m2 = self.act_update(a)
      if m2 is not None:
        yield a, m2
    for F in POPS:
      a = ('pop', F)
      m2 = self.act_pop(a)
      if m2 is not None:
        yield a, m2

  # -- clause (2) ----------------------------------------------------------------
  def untouched(self, action):
    """g itself: same canonical form and the same object at every edge."""
    if G.snapshot(self.live) == self.snap and G.canon_real(self.live) == self.want:
      return True
    self.V('2-untouched', self.hist, action, f'{action} modified the graph it was applied to',
           G.canon_real(self.live), self.want)
    self.live, _ = self.replay(self.hist)
    self.snap = G.snapshot(self.live)
    return False

  def same_graph(self, clause, action, g, what):
    c = G.canon_real(g)
    if c != self.want:
      self.V(clause, self.hist, action, what, c, self.want)
      return False
    return True

  def cmp_state(self, clause, action, state, expected, what, ordered=False):
    got, is_sorted = G.flat_real_state(state)
    ok = (got == expected) if ordered else (sorted(got) == sorted(expected) and
                                             len(got) == len(expected))
    if not ok:
      self.V(clause, self.hist, action, what, got, expected)
      return False
    if ordered and not is_sorted:
      self.V(clause + '-keyorder', self.hist, action, 'State keys do not iterate in sorted order',
             [p for p, _ in got], None)
      return False
    return True

  # -- actions ---------------------------------------------------------------------
  def act_roundtrip(self):
    nnx, m = self.nnx, self.model
    ok, out = self.call('1-roundtrip', self.hist, 'split', nnx.split, self.live)
    if ok:
      gd, st = out
      self.cmp_state('7-split-state', 'split', st, m.descs(m.flat()),
                     'split(g) state differs from the reference (every Variable once, first '
                     'path, traversal order)', ordered=True)
      ok, g2 = self.call('1-roundtrip', self.hist, 'merge', nnx.merge, gd, st)
      if ok:
        if self.same_graph('1-roundtrip', 'split+merge', g2,
                           'merge(split(g)) is not isomorphic to g'):
          core.outcome(self.res, 'roundtrip-ok:' + ('shared' if self.nontriv else 'tree'))
        if self.sample and not self.hist:
          self.res['samples'].append(dict(graph=self.gtext, spec=self.spec, action='split+merge',
                                          state_paths=[list(p) for p, _ in m.flat()],
                                          canon=G.show(self.want)))
    self.res['transitions'] += 1
    self.untouched('split+merge')

  def act_split_filters(self, F):
    nnx, m = self.nnx, self.model
    action = 'split[' + ','.join(G.ftext(f) for f in F) + ']'
    self.res['transitions'] += 1
    groups, rest = m.partition(F)
    ok, out = self.call('3-split', self.hist, action, nnx.split, self.live,
                        *[G.real_filter(f) for f in F], expect=(ValueError,))
    if ok is None:
      return
    if rest:
      if ok:
        self.V('3-nonexhaustive', self.hist, action,
               'filters leave a remainder but split returned', None, m.descs(rest))
      else:
        core.outcome(self.res, 'split-nonexhaustive-raises')
      return
    if not ok:
      self.V('3-split-raises', self.hist, action,
             f'filters are exhaustive but split raised ValueError: {str(out)[:200]}')
      return
    gd, states = out[0], list(out[1:])
    good = len(states) == len(F)
    if not good:
      self.V('3-partition', self.hist, action, 'wrong number of states', len(states), len(F))
    else:
      for i, (st, gr) in enumerate(zip(states, groups)):
        good &= self.cmp_state('3-partition', action, st, m.descs(gr),
                               f'state {i} is not the set of leaves whose first matching '
                               f'filter is {G.ftext(F[i])}')
    if not good:
      return
    core.outcome(self.res, 'partition:' + '/'.join(str(min(len(g), 2)) for g in groups))
    for perm in itertools.permutations(range(len(states))):
      a2 = action + '+merge' + str(list(perm))
      self.res['transitions'] += 1
      ok, g2 = self.call('3-merge', self.hist, a2, nnx.merge, gd, *[states[i] for i in perm])
      if ok:
        self.same_graph('3-merge-order', a2, g2,
                        'merging the filtered states in this argument order does not rebuild g')

  def act_clone(self):
    nnx = self.nnx
    ok, c = self.call('5-clone', self.hist, 'clone', nnx.clone, self.live)
    if ok and self.same_graph('5-clone', 'clone', c, 'clone(g) is not isomorphic to g'):
      n1, v1, c1 = G.objects(self.live)
      n2, v2, c2 = G.objects(c)
      shared = (set(n1) & set(n2)) | (set(v1) & set(v2)) | (set(c1) & set(c2))
      if shared:
        self.V('5-clone-shares', self.hist, 'clone',
               'clone shares a graph node / Variable / mutable container with the original',
               len(shared), 0)
      else:
        # mutate everything mutable in the clone
        for v in v2.values():
          v.value = v.value + 100
          v.scribble = 1
        for nd in n2.values():
          nd.zz = 1
        for ct in c2.values():
          if type(ct) is list:
            ct.append(0)
          else:
            ct['zz'] = 0
        core.outcome(self.res, 'clone-ok')
    self.res['transitions'] += 1
    self.untouched('clone')

  def act_state(self):
    m = self.model
    ok, st = self.call('7-state', self.hist, 'state', self.nnx.state, self.live)
    if ok:
      if self.cmp_state('7-state', 'state()', st, m.descs(m.flat()),
                        'state(g) does not list every Variable once under its first path in '
                        'sorted traversal order', ordered=True):
        core.outcome(self.res, f'state:{min(len(m.flat()), 3)}-leaves')
    self.res['transitions'] += 1
    self.untouched('state()')

  def act_state_filters(self, F):
    m = self.model
    action = 'state[' + ','.join(G.ftext(f) for f in F) + ']'
    self.res['transitions'] += 1
    groups, _ = m.partition(F)
    ok, out = self.call('7-state-filter', self.hist, action, self.nnx.state, self.live,
                        *[G.real_filter(f) for f in F])
    if ok:
      states = list(out) if len(F) > 1 else [out]
      if len(states) != len(F):
        self.V('7-state-filter', self.hist, action, 'wrong number of states', len(states), len(F))
      else:
        for i, (st, gr) in enumerate(zip(states, groups)):
          self.cmp_state('7-state-filter', action, st, m.descs(gr),
                         f'state {i} differs from the first-match selection of the reference',
                         ordered=True)

  def act_graphdef(self):
    nnx = self.nnx
    ok, gd = self.call('1-graphdef', self.hist, 'graphdef', nnx.graphdef, self.live)
    if ok:
      ok2, out = self.call('1-graphdef', self.hist, 'graphdef', nnx.split, self.live)
      if ok2:
        gd2, st = out
        if not (gd == gd2 and hash(gd) == hash(gd2)):
          self.V('1-graphdef', self.hist, 'graphdef', 'graphdef(g) != split(g)[0]')
        else:
          ok3, g2 = self.call('1-graphdef', self.hist, 'graphdef', nnx.merge, gd, st)
          if ok3 and self.same_graph('1-graphdef', 'graphdef', g2,
                                     'merge(graphdef(g), state) is not isomorphic to g'):
            gd3 = nnx.graphdef(g2)
            if gd3 != gd:
              self.V('1-graphdef-iso', self.hist, 'graphdef',
                     'the rebuilt (isomorphic) graph has a different graphdef')
            else:
              # what split returns is a snapshot: editing the graph it was taken from (here the
              # rebuilt copy g2, metadata of every Variable) changes neither the definition nor
              # what merge builds from it
              h3 = hash(gd3)
              Variable = self.R['Variable']
              probed = [n for _, n in nnx.iter_graph(g2) if isinstance(n, Variable)]
              for v in probed:
                v.zz_probe_split = 1
              if probed and (gd3 != gd or hash(gd3) != h3):
                self.V('1-graphdef-snapshot', self.hist, 'graphdef',
                       'a graph definition changed (== / hash) when the graph it was taken from '
                       'was edited afterwards')
              elif probed:
                ok4, g4 = self.call('1-graphdef', self.hist, 'graphdef', nnx.merge, gd3, st)
                if ok4 and any('zz_probe_split' in n.get_metadata()
                               for _, n in nnx.iter_graph(g4) if isinstance(n, Variable)):
                  self.V('1-graphdef-snapshot', self.hist, 'graphdef',
                         'merge built Variables carrying metadata that was added to the source '
                         'graph after the split')
    self.res['transitions'] += 1
    self.untouched('graphdef')

  def act_iter_graph(self):
    m = self.model
    ok, items = self.call('8-iter', self.hist, 'iter_graph',
                          lambda g: list(self.nnx.iter_graph(g)), self.live)
    if ok:
      Variable, Object = self.R['Variable'], self.R['Object']
      first, conts = m.first_paths()
      exp_nodes = sorted([p for (k, _), p in first.items() if k == 'n'] + conts)
      got_nodes, var_paths, bad = [], {}, None
      for path, val in items:
        if path and isinstance(path[-1], str) and path[-1].startswith('_object__'):
          continue
        try:
          at = G.resolve(self.live, path)
        except (KeyError, IndexError, TypeError):
          bad = (path, 'no such path')
          break
        if at is not val:
          bad = (path, 'value is not the object at that path')
          break
        if isinstance(val, Object) or type(val) in (list, tuple, dict):
          got_nodes.append(tuple(path))
        elif isinstance(val, Variable):
          var_paths.setdefault(id(val), []).append(tuple(path))
      if bad:
        self.V('8-iter', self.hist, 'iter_graph', f'iter_graph yielded {bad}')
      elif sorted(got_nodes) != exp_nodes:
        self.V('8-iter', self.hist, 'iter_graph',
               'graph nodes / containers are not visited exactly once at their first path',
               sorted(got_nodes), exp_nodes)
      else:
        exp_v = sorted(p for (k, _), p in first.items() if k == 'v')
        firsts = sorted(ps[0] for ps in var_paths.values())
        if firsts != exp_v:
          self.V('8-iter', self.hist, 'iter_graph',
                 'Variables are not all visited / not first at their first path', firsts, exp_v)
        else:
          core.outcome(self.res, 'iter-ok')
    self.res['transitions'] += 1
    self.untouched('iter_graph')

  def act_update(self, a):
    nnx = self.nnx
    action = atext(a)
    self.res['transitions'] += 1
    live, model = self.replay(self.hist)
    snap = [e for e in G.snapshot(live) if e[1] == 'obj' and e[0][-1:] != ('<meta>',)]
    before = model.canon()
    states = self.update_states(model, a)
    ok, _ = self.call('4-update', self.hist, action, nnx.update, live, *states)
    if not ok:
      return None
    want = model.canon()
    got = G.canon_real(live)
    if got != want:
      self.V('4-update-values', self.hist, action,
             'update did not set exactly the addressed values', got, want)
      return None
    snap2 = [e for e in G.snapshot(live) if e[1] == 'obj' and e[0][-1:] != ('<meta>',)]
    if snap2 != snap:
      self.V('4-update-identity', self.hist, action,
             'update replaced a graph node / Variable / container instead of updating in place')
      return None
    # the State handed to update stays the caller's: no metadata dict is shared between a
    # VariableState of the argument and a Variable of the graph, in either direction
    VS, Variable = self.R['VariableState'], self.R['Variable']
    vss = [l for st in states for l in jax_leaves(st, VS) if isinstance(l, VS)]
    gvars = [n for _, n in nnx.iter_graph(live) if isinstance(n, Variable)]
    if vss and gvars:
      for v in gvars:
        v.zz_probe_graph = 1
      if any('zz_probe_graph' in vs.get_metadata() for vs in vss):
        self.V('4-update-alias', self.hist, action,
               'editing metadata of a graph Variable after update changed the State that was '
               'passed to update (shared metadata dict)')
      for vs in vss:
        vs.zz_probe_state = 1
      if any('zz_probe_state' in v.get_metadata() for v in gvars):
        self.V('4-update-alias', self.hist, action,
               'editing metadata of the State after update changed a graph Variable '
               '(shared metadata dict)')
    core.outcome(self.res, 'update:' + ('changed' if want != before else 'noop'))
    return model

  def act_pop(self, a):
    nnx = self.nnx
    action = atext(a)
    F = a[1]
    self.res['transitions'] += 1
    live, model = self.replay(self.hist)
    n_before = len(model.flat())
    try:
      exp = model.pop(F)
    except G.RefError:
      exp = None
    ok, out = self.call('6-pop', self.hist, action, nnx.pop, live,
                        *[G.real_filter(f) for f in F], expect=(ValueError,))
    if ok is None:
      return None
    if exp is None:
      if ok:
        self.V('6-pop-container', self.hist, action,
               'a selected Variable lives inside a list/tuple/dict; pop returned instead of raising')
      else:
        core.outcome(self.res, 'pop-in-container-raises')
      return None
    if not ok:
      self.V('6-pop-raises', self.hist, action, f'pop raised ValueError: {str(out)[:200]}')
      return None
    states = list(out) if len(F) > 1 else [out]
    if len(states) != len(F):
      self.V('6-pop-returned', self.hist, action, 'wrong number of states', len(states), len(F))
      return None
    good = True
    for i, (st, e) in enumerate(zip(states, exp)):
      got, _ = G.flat_real_state(st)
      if sorted(got) != sorted(e):
        self.V('6-pop-returned', self.hist, action,
               f'returned state {i} is not the selected Variables (each once, first path)', got, e)
        good = False
    want = model.canon()
    got = G.canon_real(live)
    if got != want:
      self.V('6-pop-graph', self.hist, action,
             'the graph after pop differs from the reference (exactly the selected Variables '
             'removed)', got, want)
      good = False
    if not good:
      return None
    core.outcome(self.res, f'pop:{min(sum(len(e) for e in exp), 3)}-of-{min(n_before, 3)}')
    return model
