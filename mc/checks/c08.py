"""C08 — NNX vmap / scan / grad = per-index stack / Python loop / jax.grad (DESIGN §4 C08).

Bounded-exhaustive configuration enumeration on the real nnx.vmap / nnx.scan /
nnx.grad / nnx.value_and_grad / nnx.split_rngs.  Every case is a small JSON
description (variables by id, module structures referencing them, axis prefixes in
a filter mini-language, body kind, length, reverse ...).  The oracle
(mc/models/c08_model.py, c08_grad.py, c08_rng.py) evaluates the filter language
itself (first match wins), builds fresh plain objects per index / per step, calls
the *untransformed* body eagerly and reads `.value`; gradients come from jax.grad
of the loss as a function of a plain dict of values.
"""
from __future__ import annotations

import os

from mc.engine import core
from mc.models import c08_model as M
from mc.models import c08_cases as CS

PROPERTY = 'C08'
LEVEL = 'exploration'
RULE = (
  'families (every family is enumerated in full up to the tier bound; dimensions that a tier '
  'does not multiply out are run through by a mixed-radix decomposition of the case counter, '
  'never by the seed): VT/ST every assignment Param x BatchStat x Count -> {0,1,None} (vmap) / '
  '{0,1,None,Carry} (scan) (+ axis 2 / -1 variants) x body kind {ro,inc,dep,wall} x length '
  '{1,2,3} x reverse x x-axis {0,1,None} x out_axes forms (array, tuple, dict, new-module '
  'output with StateAxes / int, None) x StateAxes encodings (dict, pairs, Not/All/Any/tuple '
  'filters, StateAxes(State), plain int/None prefix, scalar in_axes) x call forms (argument '
  'order, no array, two array arguments on different axes / broadcast, scan: no carry arg, '
  'carry first / last / middle, whole-module Carry; C2: 2-3 Modules plus an array inside one Carry '
  'pytree, 5 shapes x same/different structure x n x reverse); VF/SF every ordered pair of overlapping '
  'filters from an 11-filter alphabet (types, Param subclass, PathContains, Not, Any, All, '
  'tuple) + `...` x axis triples; V2/S2 two modules of equal shape with independent '
  'StateAxes as two arguments / dict / tuple argument; VA/SA aliasing: one Variable shared '
  'across two arguments, inside one module under two path filters, across the two modules of '
  'one dict / tuple argument, the same module passed twice, and under overlapping filters, x '
  'every axis pair (equal -> must agree with the reference sharing semantics, different -> '
  'ValueError and no mutation); GR nnx.grad / value_and_grad: argnums forms {0,1,(0,1),(1,0),'
  '(0,),array argument,DiffState on either / both arguments} x wrt filter {Param, Param '
  'subclass, PathContains, BatchStat, tuple, All/Not} x has_aux x body side effects x '
  'structures (two modules, shared Param, shared Param-subclass, same module twice, dict '
  'argument) incl. inconsistent DiffState aliasing; RN split_rngs(splits=n | (n,), only=9 '
  'patterns) x {context manager, decorator, manual} x {vmap, scan with split streams on axis '
  '0 and the others carried, module creation under vmap} x draws per stream, plus unsplit '
  'streams shared (vmap) / carried (scan). A case is non-trivial when at least two variables '
  'get different axes or a variable is written / aliased / differentiated / split; distinct = '
  'distinct case description.')
ASSUMPTIONS = [
  'data are small integers in float32/int32/uint32 keys, strictly increasing with the index, so '
  '"mapped" implies "values differ between indices"; equality is bitwise (gradients: 1e-6 rel.)',
  'bodies are the generic read-all / write-by-kind programs of c08_model.make_body and the '
  'loss of c08_grad; scan bodies never write a None-axis (broadcast) variable: nnx.scan drops '
  'such writes silently (upstream tests rely on broadcast rng streams repeating keys); the '
  'behaviour is recorded as an outcome, not asserted',
  'for length 1 a None-axis variable written with a mapped value may either raise or keep the '
  'single value (the indices cannot disagree)',
  'StateAxes is only used directly on graph nodes (documented restriction), bare Variable '
  'arguments and nnx.pmap are not enumerated',
  'the reference relies on nnx.Module / Variable construction, attribute access and '
  'Variable.value only; nnx.state() is the observation API',
]

def bounds(tier):
  return CS.bounds(tier)


def units(tier, seed):
  cases = CS.all_cases(tier)
  by_fam = {}
  for c in cases:
    by_fam.setdefault(c['fam'], []).append(c)
  us = []
  for fam in sorted(by_fam):
    cs = by_fam[fam]
    per = CS.chunk_size(tier, fam)
    for i in range(0, len(cs), per):
      us.append(dict(fam=fam, lo=i, hi=min(i + per, len(cs))))
  # heavy (scan) units first so the tail of the run is made of cheap units
  us.sort(key=lambda u: (-CS.weight(u['fam']), u['fam'], u['lo']))
  us.append(dict(fam='C2'))      # several Modules inside one Carry pytree
  return us


_CASES = {}


def setup_worker():
  M.lazy()
  import warnings
  warnings.filterwarnings('ignore', category=DeprecationWarning)


def _cases(tier, fam):
  if (tier, fam) not in _CASES:
    _CASES.clear()
    by = {}
    for c in CS.all_cases(tier):
      by.setdefault(c['fam'], []).append(c)
    for f, cs in by.items():
      _CASES[(tier, f)] = cs
  return _CASES[(tier, fam)]


def _run_c2(res):
  """nnx.scan whose Carry argument is a pytree holding several Modules (and arrays): after the
  scan every ORIGINAL object is in the state the Python loop leaves it in, the returned carry
  holds the same objects at the same positions, and the stacked outputs match. Carry shapes x
  same / different module structure x length x reverse."""
  import numpy as np
  L = M.lazy()
  nnx, jnp = L['nnx'], L['jnp']

  class Acc(nnx.Module):
    def __init__(self, v, extra=False):
      self.total = nnx.Variable(jnp.asarray(float(v)))
      if extra:
        self.aux = nnx.BatchStat(jnp.asarray(float(v) * 10))

  def step(carry_mods, h, x):
    # every module is updated differently (position-dependent)
    for i, m in enumerate(carry_mods):
      m.total.value = m.total.value * (i + 2) + x * (1 if i % 2 == 0 else -1)
      if hasattr(m, 'aux'):
        m.aux.value = m.aux.value + x + i
    h = h + x
    return h, sum(m.total.value for m in carry_mods) + h

  FORMS = {
    'tuple2': (lambda ms, h: (ms[0], ms[1], h), lambda c: ([c[0], c[1]], c[2]), 2),
    'list3': (lambda ms, h: [ms[0], h, ms[1], ms[2]], lambda c: ([c[0], c[2], c[3]], c[1]), 3),
    'dict2': (lambda ms, h: {'a': ms[0], 'h': h, 'b': ms[1]}, lambda c: ([c['a'], c['b']], c['h']), 2),
    'nested': (lambda ms, h: (ms[0], (h, ms[1])), lambda c: ([c[0], c[1][1]], c[1][0]), 2),
    'rev-tuple': (lambda ms, h: (ms[1], h, ms[0]), lambda c: ([c[2], c[0]], c[1]), 2),
  }
  for fname, (pack, unpack, k) in FORMS.items():
    for hetero in (False, True):
      for n in (1, 2, 3):
        for reverse in (False, True):
          key = f'C2|{fname}|hetero={hetero}|n={n}|rev={reverse}'
          case = dict(form=fname, hetero=hetero, n=n, reverse=reverse)
          mk = lambda: [Acc(i + 1, extra=(hetero and i % 2 == 1)) for i in range(k)]
          xs = jnp.arange(1, n + 1, dtype=jnp.float32)
          # eager loop
          ms_ref = mk()
          h = jnp.asarray(0.5)
          ys = []
          for i in (range(n - 1, -1, -1) if reverse else range(n)):
            h, y = step(ms_ref, h, xs[i])
            ys.append((i, y))
          ys_ref = np.asarray([y for _, y in sorted(ys)])
          # scan
          ms = mk()
          c0 = pack(ms, jnp.asarray(0.5))

          def body(c, x):
            mods, hh = unpack(c)
            hh, y = step(mods, hh, x)
            # rebuild the carry in the same shape with the same objects
            return pack(mods, hh), y

          res['evals'] += 1
          res['transitions'] += 1
          try:
            c_out, ys_out = nnx.scan(body, in_axes=(nnx.Carry, 0), out_axes=(nnx.Carry, 0),
                                     reverse=reverse)(c0, xs)
          except Exception as e:  # noqa
            core.violation(res, 'C2-raises|' + key, f'{type(e).__name__}: {e}'[:300], case)
            continue
          mods_out, h_out = unpack(c_out)
          for i, (m, mr) in enumerate(zip(ms, ms_ref)):
            got = {a: float(getattr(m, a).value) for a in ('total', 'aux') if hasattr(m, a)}
            exp = {a: float(getattr(mr, a).value) for a in ('total', 'aux') if hasattr(mr, a)}
            if got != exp:
              core.violation(res, f'C2-state|{key}|m{i}',
                             f'module {i} of the Carry is not in the state the loop leaves it in',
                             case, observed=got, expected=exp)
          if any(a is not b for a, b in zip(mods_out, ms)):
            core.violation(res, 'C2-identity|' + key,
                           'the returned carry does not hold the input objects at their positions',
                           case)
          if float(h_out) != float(h) or not np.array_equal(np.asarray(ys_out), ys_ref):
            core.violation(res, 'C2-out|' + key, 'array part of the carry / stacked outputs differ '
                           'from the loop', case, observed=np.asarray(ys_out).tolist(),
                           expected=ys_ref.tolist())
          core.outcome(res, 'C2:ok')
          res['nontrivial'].append(core.h(key))
  res['samples'].append(dict(fam='C2', forms=sorted(FORMS)))


def run_unit(unit):
  from mc.models import c08_run as R
  res = core.new_result()
  if unit['fam'] == 'C2':
    _run_c2(res)
    M.lazy()['jax'].clear_caches()
    return res
  tier = os.environ.get('VERIF_TIER', 'quick')
  seed = int(os.environ.get('VERIF_SEED', '0'))
  cs = _cases(tier, unit['fam'])[unit['lo']:unit['hi']]
  for j, case in enumerate(cs):
    member = (seed + unit['lo'] + j) % 4
    R.run_case(res, case, member)
    if j == 0:
      res['samples'].append(dict(case=case, outcome=res.get('_last', None)))
  res.pop('_last', None)
  # every nnx.scan compiles a fresh lax.scan: keep the worker's memory flat
  M.lazy()['jax'].clear_caches()
  return res
