"""C10 — serialization round trip and mismatch rejection (DESIGN §4 C10).

Factored bounded-exhaustive enumeration on the real flax.serialization:

 (a) leaf kinds on a fixed two-level tree: dtype x shape x memory layout x
     {numpy, jax, numpy scalar} x MAX_CHUNK_SIZE threshold, plus Python leaves;
 (b) every container tree up to the tier depth over dict / FrozenDict / list /
     tuple / namedtuple / struct.dataclass / TrainState with <= 2 children;
 (c) for every container position of every tree of (b) every single-point edit
     of the saved state dict.

Oracle: a flat structural form (container class, keys, static fields, leaf
dtype / shape / row-major element bytes computed one element at a time) and
jax treedef equality; snapshots for "input unchanged"; ValueError naming the
path for the named mismatch classes.
"""
from __future__ import annotations

import os

import numpy as np

from mc.engine import core
from mc.models import c10_trees as T

PROPERTY = 'C10'
LEVEL = 'exploration'
RULE = ('(a) every registered numeric dtype (numpy built-ins + every ml_dtypes scalar type) x '
        '7 shapes x every memory layout that exists for the rank (C, F, stride-2 first/last axis, '
        'negative stride, stride-0 broadcast, transposed, permuted, unaligned, read-only) as '
        'numpy array, + jax array per shape, + numpy scalar, each on a fixed tree holding the '
        'leaf under dict, list and FrozenDict/tuple, x every MAX_CHUNK_SIZE of the tier; 27 '
        'Python leaves (int/bool/float/complex/None/bytes/str); non-trivial = array with >= 2 '
        'elements that is not C-contiguous or is split into >= 2 chunks; '
        '(b) every container tree of height <= 2 (and, thorough, every height-3 tree made of '
        'one height-2 subtree in either slot of any root, the other slot holding a leaf) over 7 container types, '
        '<= 2 children, 2 leaf kinds; non-trivial = height >= 2; '
        '(c) every container position of every tree of (b) x {drop each key, surplus key / length+1 / surplus field, '
        'rename each key or field, reversed key order, swap the values of equal-shaped '
        'siblings} x {from_state_dict, from_bytes}; non-trivial = every edit; '
        '(d) lists / tuples of 9-13 distinguishable leaves (index keys beyond 9) at the top and inside '
        'dict / FrozenDict / dataclass / namedtuple / nested, both round trips, length +-1 rejected; '
        '(e) non-native byte order x 8 dtypes x shapes x layouts x thresholds; '
        'distinct = distinct (dtype, shape, layout, kind, threshold) / (tree) / (tree, position, edit)')
ASSUMPTIONS = [
  'leaf class is not compared (jax arrays restore as numpy arrays); dtype, shape and row-major bytes are',
  'object / structured dtypes and Python ints beyond 64 bits are outside the alphabet',
  'only the mismatch classes the property names are asserted to raise ValueError; same-length lists with '
  'wrong index keys and leaf-vs-container confusions are not asserted',
  'thorough height-3 trees are the spine family (one height-2 subtree, leaf sibling); the full height-3 space (~1.6e9) is not enumerated',
  'the message "names the path" = contains the path components in order, separated by non-word characters; '
  'the root name is supplied through from_state_dict(name=...) and must occur exactly once',
  'jax_enable_x64 is switched on in the workers so that 64-bit jax leaves exist',
]

MAX_VIOL_PER_UNIT = 12
FIXED = 'dict(p=dict(w=X,k=1),q=list(X,"z"),f=fd(t=tuple(X)))'


def bounds(tier):
  return dict(
    dtypes=len(T.all_dtype_names()), shapes=[list(s) for s in T.SHAPES], layouts=T.LAYOUTS,
    leaf_classes=['numpy', 'jax', 'npscalar', 'python'],
    chunk_thresholds=(T.TH_QUICK if tier == 'quick' else
                      'every integer 1..65, 95..97, 127..129, 191..193, 2**30'),
    python_leaves=len(T.PY_LEAVES),
    tree_height=2 if tier == 'quick' else 3,
    tree_height3_family=None if tier == 'quick' else 'spine: one height-2 subtree in either slot + one leaf sibling',
    max_children=2, container_types=T.TYPES, leaf_kinds=2,
    tree_chunk_thresholds=[3] if tier == 'quick' else [1, 3, 7],
    edits=['drop', 'surplus', 'longer', 'surplus-field', 'rename', 'reorder', 'swap'])


def units(tier, seed):
  us = [dict(part='leaf', dtype=n) for n in T.all_dtype_names()]
  us.append(dict(part='pyleaf'))
  us.append(dict(part='byteorder'))
  us.append(dict(part='wide'))
  n2 = len(T.trees(2))
  step = 200 if tier == 'quick' else 400
  for lo in range(0, n2, step):
    us.append(dict(part='tree2', lo=lo, hi=min(n2, lo + step)))
  if tier == 'thorough':
    nv = len(T.root_variants())
    step3 = 3000
    for v in range(nv):
      for lo in range(0, n2, step3):
        us.append(dict(part='tree3', variant=v, lo=lo, hi=min(n2, lo + step3)))
  # put one unit of every family first so that the evidence samples show each
  head = [i for i, u in enumerate(us) if u == dict(part='leaf', dtype='bfloat16')
          or u.get('part') == 'pyleaf']
  for part in ('tree2', 'tree3'):
    idx = [i for i, u in enumerate(us) if u['part'] == part]
    if idx:
      head.append(idx[len(idx) // 2])
      head.append(idx[-1])
  return [us[i] for i in head] + [u for i, u in enumerate(us) if i not in head]


_S = {}


def setup_worker():
  import jax
  jax.config.update('jax_enable_x64', True)
  import flax  # noqa
  from flax import serialization
  _S['ser'] = serialization
  _S['default_th'] = serialization.MAX_CHUNK_SIZE
  T.classes()


class _Threshold:
  def __init__(self, th):
    self.th = th

  def __enter__(self):
    self.old = _S['ser'].MAX_CHUNK_SIZE
    _S['ser'].MAX_CHUNK_SIZE = self.th

  def __exit__(self, *a):
    _S['ser'].MAX_CHUNK_SIZE = self.old


def run_unit(unit):
  if 'ser' not in _S:
    setup_worker()
  res = core.new_result()
  res['_nviol'] = 0
  seed = int(os.environ.get('VERIF_SEED', '0'))
  tier = os.environ.get('VERIF_TIER', 'quick')
  part = unit['part']
  if part == 'leaf':
    _run_dtype(res, unit['dtype'], seed, tier)
  elif part == 'pyleaf':
    _run_pyleaves(res, seed, tier)
  elif part == 'byteorder':
    _run_byteorder(res, seed)
  elif part == 'wide':
    _run_wide(res, seed)
  elif part == 'tree2':
    specs = _trees2()[unit['lo']:unit['hi']]
    for i, spec in enumerate(specs):
      _run_tree(res, spec, seed, tier, sample=(i == len(specs) // 2))
  elif part == 'tree3':
    var = T.root_variants()[unit['variant']]
    subs = _trees2()[unit['lo']:unit['hi']]
    first = True
    for sub in subs:
      if T.height(sub) != 2:
        continue
      spec = T.spine(var, sub)
      if spec is None:
        continue
      _run_tree(res, spec, seed, tier, sample=first)
      first = False
  else:
    raise KeyError(part)
  res['extra']['violations_found'] = res.pop('_nviol')
  return res


def _trees2():
  if 'trees2' not in _S:
    _S['trees2'] = T.trees(2)
  return _S['trees2']


def _V(res, key, what, case, observed=None, expected=None):
  res['_nviol'] += 1
  if len(res['violations']) < MAX_VIOL_PER_UNIT:
    core.violation(res, key, what, case, observed=observed, expected=expected)


def _call(res, key, case, label, fn, *args, **kw):
  """Run one API call of the implementation.  An exception here is not
  predicted by any oracle: report it as a violation with the case attached
  (never a pass) and return the marker _FAILED."""
  res['evals'] += 1
  try:
    return fn(*args, **kw)
  except Exception as e:  # noqa: reported, not swallowed
    _V(res, f'raises/{label}|{key}', f'{label} raised {type(e).__name__}: {str(e)[:300]}', case)
    return _FAILED


_FAILED = object()


def _compare(res, key, case, label, exp_flat, exp_treedef, got):
  """Oracle (1): flat structural form + treedef."""
  import jax
  if got is _FAILED:
    return False
  gf = T.flat(got)
  d = T.diff_flat(exp_flat, gf)
  if d:
    _V(res, f'roundtrip/{label}|{key}',
       f'{label}: restored tree differs at {d[0][0]}: expected {d[0][1]}, got {d[0][2]}',
       case, observed=[list(x) for x in d])
    return False
  if exp_treedef is not None:
    td = jax.tree_util.tree_structure(got)
    if td != exp_treedef:
      _V(res, f'treedef/{label}|{key}', f'{label}: treedef differs', case,
         observed=str(td), expected=str(exp_treedef))
      return False
  return True


def _unchanged(res, key, case, label, snap, obj):
  """Oracle (3)."""
  now = T.snapshot(obj)
  if now != snap:
    _V(res, f'input-modified/{label}|{key}', f'{label} modified its input', case,
       observed=repr(now)[:600], expected=repr(snap)[:600])
    return False
  return True


# ---------------------------------------------------------------------------
# (a) leaf kinds


def _fixed_tree(leaf):
  c = T.classes()
  return {'p': {'w': leaf, 'k': 1}, 'q': [leaf, 'z'], 'f': c['FrozenDict']({'t': (leaf,)})}


def _thresholds(tier):
  return T.TH_QUICK if tier == 'quick' else T.TH_THOROUGH


def _leaf_case(res, key, case, leaf, thresholds, nontrivial_rule, sample):
  import jax
  ser = _S['ser']
  t = _fixed_tree(leaf)
  snap = T.snapshot(t)
  exp = T.flat(t, elementwise=True)
  td = jax.tree_util.tree_structure(t)
  arr = None if T.is_py_leaf(leaf) else np.asarray(leaf)
  nbytes = 0 if arr is None else arr.size * arr.dtype.itemsize
  is_ndarray_like = arr is not None and not isinstance(leaf, np.generic)

  b0 = _call(res, key, case, 'to_bytes', ser.to_bytes, t)
  _unchanged(res, key, case, 'to_bytes', snap, t)
  if b0 is _FAILED:
    return
  _compare(res, key, case, 'from_bytes', exp, td, _call(res, key, case, 'from_bytes',
                                                          ser.from_bytes, t, b0))
  sd = _call(res, key, case, 'to_state_dict', ser.to_state_dict, t)
  _unchanged(res, key, case, 'to_state_dict', snap, t)
  if sd is not _FAILED:
    _compare(res, key, case, 'from_state_dict', exp, td,
             _call(res, key, case, 'from_state_dict', ser.from_state_dict, t, sd))
    sdsnap = T.snapshot(sd)
    with _Threshold(1):
      bb = _call(res, key, case, 'msgpack_serialize', ser.msgpack_serialize, sd)
    _unchanged(res, key, case, 'msgpack_serialize(in_place=False)', sdsnap, sd)
    _unchanged(res, key, case, 'msgpack_serialize(in_place=False)/tree', snap, t)
    if bb is not _FAILED:
      _compare(res, key, case, 'msgpack_restore', exp, td,
               _call(res, key, case, 'from_bytes', ser.from_bytes, t, bb))

  for th in thresholds:
    k2 = f'{key}|th={th}'
    c2 = dict(case, threshold=th)
    with _Threshold(th):
      b = _call(res, k2, c2, 'to_bytes', ser.to_bytes, t)
      if b is _FAILED:
        continue
      r_same = _call(res, k2, c2, 'from_bytes', ser.from_bytes, t, b)
    r_def = _call(res, k2, c2, 'from_bytes', ser.from_bytes, t, b)
    ok = _compare(res, k2, c2, 'chunked/from_bytes(same threshold)', exp, td, r_same)
    ok = _compare(res, k2, c2, 'chunked/from_bytes(default threshold)', exp, td, r_def) and ok
    _unchanged(res, k2, c2, 'to_bytes(threshold)', snap, t)
    chunked_expected = is_ndarray_like and nbytes > th
    if not chunked_expected and b != b0:
      _V(res, f'chunk-bytes|{k2}',
         'no leaf exceeds the threshold but the bytes differ from the default-threshold bytes',
         c2, observed=len(b), expected=len(b0))
    got_leaf = None if r_same is _FAILED else r_same['p']['w']
    core.outcome(res, '%s|%s|%s' % (type(got_leaf).__name__,
                                    'bytes-differ' if b != b0 else 'bytes-same',
                                    'ok' if ok else 'bad'))
    if nontrivial_rule(th):
      res['nontrivial'].append(core.h([key, th]))
  if sample:
    res['samples'].append(dict(tree=FIXED, leaf=case, thresholds=len(thresholds),
                               bytes_default=len(b0)))


def _run_dtype(res, name, seed, tier):
  import jax.numpy as jnp
  ths = _thresholds(tier)
  dt = T.np_dtype(name)
  n_case = 0
  for si, shape in enumerate(T.SHAPES):
    base = T.base_array(name, shape, (seed + si) % 7)
    if base.size >= 2 and base.reshape(-1)[0].tobytes() == base.reshape(-1)[1].tobytes():
      raise AssertionError(f'data pool for {name}{shape} is constant')  # harness self-check
    size = base.size
    for layout in T.LAYOUTS:
      leaf = T.apply_layout(base, layout)
      if leaf is None:
        continue
      assert leaf.shape == tuple(shape) and leaf.dtype == dt
      contiguous = leaf.flags.c_contiguous and leaf.flags.aligned
      key = f'leaf|numpy|{name}|{list(shape)}|{layout}'
      case = dict(kind='numpy', dtype=name, shape=list(shape), layout=layout,
                  strides=list(leaf.strides), seed=seed)
      nb = size * dt.itemsize
      _leaf_case(res, key, case, leaf, ths,
                 lambda th, c=contiguous, nb=nb, it=dt.itemsize, size=size:
                 size >= 2 and ((not c) or (nb > th and size * it > max(1, int(th / it)) * it)),
                 sample=(shape == (2, 3) and layout == 'F'))
      n_case += 1
    if name not in T.JAX_UNSUPPORTED:
      leaf = jnp.asarray(base)
      assert np.asarray(leaf).dtype == dt, (name, leaf.dtype)
      key = f'leaf|jax|{name}|{list(shape)}'
      case = dict(kind='jax', dtype=name, shape=list(shape), seed=seed)
      nb = size * dt.itemsize
      _leaf_case(res, key, case, leaf, ths,
                 lambda th, nb=nb, size=size: size >= 2 and nb > th, sample=False)
  scalar = T.base_array(name, (), seed % 7)[()]
  assert isinstance(scalar, np.generic) and scalar.dtype == dt
  _leaf_case(res, f'leaf|npscalar|{name}', dict(kind='npscalar', dtype=name, seed=seed),
             scalar, ths, lambda th: False, sample=False)


def _run_pyleaves(res, seed, tier):
  ths = [1, 3, T.TH_DEFAULT]
  for i, leaf in enumerate(T.PY_LEAVES):
    key = f'leaf|python|{type(leaf).__name__}|{leaf!r}'[:120]
    _leaf_case(res, key, dict(kind='python', type=type(leaf).__name__, value=repr(leaf)[:80]),
               leaf, ths, lambda th: False, sample=(i == 18))
  _run_realistic(res, seed)


def _run_realistic(res, seed):
  """One written-out realistic target: TrainState.create with optax.adam
  (opt_state = tuple of namedtuples, one of them without fields), fresh and
  after one apply_gradients, params as dict and as FrozenDict."""
  import jax
  import jax.numpy as jnp
  import optax
  from flax.core import freeze
  from flax.training.train_state import TrainState
  ser = _S['ser']
  c = T.classes()
  params = {'dense': {'kernel': jnp.asarray(np.arange(6, dtype=np.float32).reshape(2, 3) + seed % 3),
                      'bias': jnp.asarray(np.array([1, 2, 3], np.float32))}}
  for frozen in (False, True):
    st = TrainState.create(apply_fn=c['apply_fn'], params=freeze(params) if frozen else params,
                           tx=optax.adam(0.5))
    for stepped in (False, True):
      if stepped:
        st = st.apply_gradients(grads=jax.tree_util.tree_map(jnp.ones_like, st.params))
      key = f'realistic|TrainState.create(adam)|frozen={frozen}|stepped={stepped}'
      case = dict(kind='realistic', frozen=frozen, stepped=stepped, seed=seed)
      snap = T.snapshot(st)
      exp = T.flat(st, elementwise=True)
      td = jax.tree_util.tree_structure(st)
      for th in (3, T.TH_DEFAULT):
        with _Threshold(th):
          b = _call(res, key, case, 'to_bytes', ser.to_bytes, st)
        if b is not _FAILED:
          ok = _compare(res, f'{key}|th={th}', case, 'from_bytes', exp, td,
                        _call(res, key, case, 'from_bytes', ser.from_bytes, st, b))
          core.outcome(res, 'realistic:' + ('ok' if ok else 'bad'))
      sd = _call(res, key, case, 'to_state_dict', ser.to_state_dict, st)
      if sd is not _FAILED:
        _compare(res, key, case, 'from_state_dict', exp, td,
                 _call(res, key, case, 'from_state_dict', ser.from_state_dict, st, sd))
      _unchanged(res, key, case, 'to_bytes/to_state_dict', snap, st)
      res['nontrivial'].append(core.h([key]))


# ---------------------------------------------------------------------------
# (b) container trees and (c) mismatch edits


def _run_tree(res, spec, seed, tier, sample=False):
  import jax
  ser = _S['ser']
  text = T.fmt(spec)
  key = f'tree|{text}'
  case = dict(tree=text, spec=T.tojson(spec), seed=seed,
              leaves='position n: kind A -> array pool[(n+seed)%4], kind B -> scalar pool[(n+seed)%4]')
  t = T.build(spec, seed)
  snap = T.snapshot(t)
  exp = T.flat(t, elementwise=True)
  td = jax.tree_util.tree_structure(t)
  if T.height(spec) >= 2:
    res['nontrivial'].append(core.h(['tree', text]))

  b0 = _call(res, key, case, 'to_bytes', ser.to_bytes, t)
  _unchanged(res, key, case, 'to_bytes', snap, t)
  ok = b0 is not _FAILED
  if ok:
    ok = _compare(res, key, case, 'from_bytes', exp, td,
                  _call(res, key, case, 'from_bytes', ser.from_bytes, t, b0))
  sd = _call(res, key, case, 'to_state_dict', ser.to_state_dict, t)
  _unchanged(res, key, case, 'to_state_dict', snap, t)
  if sd is _FAILED:
    core.outcome(res, 'tree:to_state_dict-failed')
    return
  ok = _compare(res, key, case, 'from_state_dict', exp, td,
                _call(res, key, case, 'from_state_dict', ser.from_state_dict, t, sd)) and ok
  sdsnap = T.snapshot(sd)
  for th in ((3,) if tier == 'quick' else (1, 3, 7)):
    k2 = f'{key}|th={th}'
    c2 = dict(case, threshold=th)
    with _Threshold(th):
      bb = _call(res, k2, c2, 'msgpack_serialize', ser.msgpack_serialize, sd)
      _unchanged(res, k2, c2, 'msgpack_serialize(in_place=False)', sdsnap, sd)
      b = _call(res, k2, c2, 'to_bytes', ser.to_bytes, t)
    _unchanged(res, k2, c2, 'to_bytes(threshold)', snap, t)
    if bb is not _FAILED:
      ok = _compare(res, k2, c2, 'msgpack_serialize+from_bytes', exp, td,
                    _call(res, k2, c2, 'from_bytes', ser.from_bytes, t, bb)) and ok
    if b is not _FAILED:
      ok = _compare(res, k2, c2, 'chunked/from_bytes', exp, td,
                    _call(res, k2, c2, 'from_bytes', ser.from_bytes, t, b)) and ok
  core.outcome(res, f'tree:{spec[0]}:h{T.height(spec)}:{"ok" if ok else "bad"}')

  # ---- (c) single-point edits of the saved state ---------------------------
  n_edits = 0
  for path, node in T.positions(spec):
    rx_root = T.path_regex('ROOT', path)
    rx_bare = T.path_regex(None, path)
    for name, expect, fn in T.edits(node):
      n_edits += 1
      ekey = f'mismatch/{name}@{"/".join(path) or "<root>"}|{text}'
      ecase = dict(case, position=list(path), node=T.fmt(node), edit=name)
      for via in ('from_state_dict', 'from_bytes'):
        edited = T.copy_sd(sd)
        fn(T.sd_at(edited, path))
        res['evals'] += 1
        err = None
        got = None
        try:
          if via == 'from_state_dict':
            got = ser.from_state_dict(t, edited, name='ROOT')
          else:
            got = ser.from_bytes(t, ser.msgpack_serialize(edited, in_place=True))
        except ValueError as e:
          err = e
        except Exception as e:  # noqa: any other class is itself the finding
          _V(res, f'{ekey}|{via}|wrong-exception',
             f'{name} at {"/".join(path) or "<root>"} ({node[0]}): {via} raised '
             f'{type(e).__name__} instead of ValueError: {str(e)[:200]}', ecase)
          core.outcome(res, f'{name.split(":")[0]}:{node[0]}:{type(e).__name__}')
          continue
        if via == 'from_state_dict':
          res['nontrivial'].append(core.h([text, list(path), name]))
        if expect == 'ValueError':
          if err is None:
            _V(res, f'{ekey}|{via}|not-rejected',
               f'{name} at {"/".join(path) or "<root>"} ({node[0]}): {via} returned a tree '
               'instead of raising ValueError (data invented or mis-assigned)', ecase,
               observed=[list(x) for x in T.diff_flat(exp, T.flat(got))])
            core.outcome(res, f'{name.split(":")[0]}:{node[0]}:accepted')
            continue
          msg = str(err)
          if via == 'from_state_dict':
            named = bool(rx_root.search(msg)) and msg.count('ROOT') == 1
          else:
            named = rx_bare is None or bool(rx_bare.search(msg))
          if not named:
            _V(res, f'{ekey}|{via}|path-not-named',
               f'{name}: the ValueError does not name the path {"/".join(path) or "<root>"}',
               ecase, observed=msg[:400])
          core.outcome(res, f'{name.split(":")[0]}:{node[0]}:ValueError'
                       + ('' if named else ':no-path'))
        else:
          if err is not None:
            _V(res, f'{ekey}|{via}|rejected',
               f'{name} at {"/".join(path) or "<root>"} ({node[0]}): {via} raised '
               f'ValueError but the edit keeps every target entry present: {str(err)[:200]}',
               ecase)
            core.outcome(res, f'{name.split(":")[0]}:{node[0]}:rejected')
            continue
          e2 = exp if expect == 'same' else T.swapped_flat(exp, path, expect[1], expect[2])
          good = _compare(res, f'{ekey}|{via}', ecase,
                          'by-key restore' if expect != 'same' else 'restore', e2, td, got)
          core.outcome(res, f'{name.split(":")[0]}:{node[0]}:'
                       + (('by-key' if expect != 'same' else 'same') if good else 'wrong'))
  _unchanged(res, key, case, 'restore calls', snap, t)
  if sample:
    res['samples'].append(dict(tree=text, height=T.height(spec),
                               positions=len(T.positions(spec)), edits=n_edits,
                               edit_list=['%s@%s' % (n, '/'.join(p) or '<root>')
                                          for p, nd in T.positions(spec)
                                          for n, _, _ in T.edits(nd)][:24],
                               bytes=None if b0 is _FAILED else len(b0)))


def _run_wide(res, seed):
  """Sequences with more than ten entries (index keys '10', '11' sort before '2' as strings):
  lists / tuples of 9-13 distinguishable leaves at the top, inside a dict, a FrozenDict, a
  struct dataclass field and a namedtuple field; state-dict and msgpack round trips, plus
  rejection of a state dict with one entry too few or too many."""
  import jax
  import flax
  from flax import struct
  from flax.core import freeze
  import collections
  ser = _S['ser']
  NT = collections.namedtuple('NT', ['items', 'tag'])

  @struct.dataclass
  class DC:
    items: object
    tag: object

  def leaf(i):
    # distinguishable by value and (every third) by shape / dtype
    if i % 3 == 0:
      return np.asarray([i + seed % 2, -i], np.int32)
    if i % 3 == 1:
      return np.float32(i + 0.5)
    return np.asarray([[i]], np.float64)

  wrappers = {
    'top': lambda seq: seq,
    'dict': lambda seq: {'k': seq, 'z': np.float32(1)},
    'fd': lambda seq: freeze({'k': seq}),
    'dc': lambda seq: DC(items=seq, tag=np.int32(7)),
    'nt': lambda seq: NT(items=seq, tag=np.int32(7)),
    'nested': lambda seq: [seq, tuple(seq)],
  }

  def flat(t):
    return [(jax.tree_util.keystr(p), np.asarray(l).dtype.str, np.asarray(l).shape,
             np.asarray(l).tolist()) for p, l in jax.tree_util.tree_leaves_with_path(t)]

  for n in (9, 10, 11, 12, 13):
    for kind in (list, tuple):
      seq = kind(leaf(i) for i in range(n))
      zero = kind(np.zeros_like(leaf(i)) for i in range(n))
      for wn, w in wrappers.items():
        obj, tgt = w(seq), w(zero)
        key = f'wide|{kind.__name__}|n={n}|{wn}'
        res['evals'] += 2
        try:
          sd = ser.to_state_dict(obj)
          r1 = ser.from_state_dict(tgt, sd)
          r2 = ser.from_bytes(tgt, ser.to_bytes(obj))
        except Exception as e:  # noqa
          core.violation(res, 'wide-raises|' + key, f'{type(e).__name__}: {e}'[:300],
                         dict(kind=kind.__name__, n=n, wrapper=wn))
          continue
        for nm, r in (('state_dict', r1), ('bytes', r2)):
          if flat(r) != flat(obj) or jax.tree.structure(r) != jax.tree.structure(obj):
            bad = [a[0] for a, b in zip(flat(r), flat(obj)) if a != b][:4]
            core.violation(res, f'wide-{nm}|' + key,
                           f'round trip through {nm} does not return the original sequence '
                           f'(first differing leaves: {bad})',
                           dict(kind=kind.__name__, n=n, wrapper=wn))
        # wrong length must be rejected, never absorbed positionally
        if wn == 'top':
          for dn in (-1, 1):
            res['evals'] += 1
            short = kind(np.zeros_like(leaf(i)) for i in range(n + dn))
            try:
              ser.from_state_dict(short, sd)
              core.violation(res, f'wide-accepts|{key}|{dn:+d}',
                             f'a state dict of {n} entries was accepted for a target of {n + dn}',
                             dict(kind=kind.__name__, n=n))
            except ValueError:
              core.outcome(res, 'wide:length-mismatch-rejected')
            except Exception as e:  # noqa
              core.outcome(res, 'wide:length-mismatch-' + type(e).__name__)
          # keys that are not the indices must be rejected as well
          res['evals'] += 1
          ren = {('x' + k): v for k, v in sd.items()}
          try:
            ser.from_state_dict(tgt, ren)
            # observed only (see ASSUMPTIONS: wrong index keys are not a named mismatch class)
            core.outcome(res, 'wide:bad-keys-accepted')
          except (ValueError, KeyError):
            core.outcome(res, 'wide:bad-keys-rejected')
          except Exception as e:  # noqa
            core.outcome(res, 'wide:bad-keys-' + type(e).__name__)
        core.outcome(res, 'wide:ok')
        if n > 10:
          res['nontrivial'].append(core.h(key))
  res['samples'].append(dict(part='wide', lengths=[9, 10, 11, 12, 13]))


def _run_byteorder(res, seed):
  """Non-native byte order: the restored array must hold the same values with a dtype of the
  same kind and item size (the byte order of the stored copy is not part of the statement)."""
  ser = _S['ser']
  other = '>' if np.dtype('<i4').isnative else '<'
  for code in ('i2', 'u4', 'i8', 'f2', 'f4', 'f8', 'c8', 'c16'):
    for shape in T.SHAPES:
      for layout in ('C', 'F'):
        n = int(np.prod(shape)) if shape else 1
        base = (np.arange(n) + 3 + seed % 3).astype(code).reshape(shape)
        a = base.astype(np.dtype(other + code))
        if layout == 'F' and a.ndim >= 2:
          a = np.asfortranarray(a)
        for th in (1, 7, _S['default_th']):
          key = f'byteorder|{other}{code}|{list(shape)}|{layout}|th={th}'
          res['evals'] += 1
          try:
            with _Threshold(th):
              r = ser.from_bytes({'a': a}, ser.to_bytes({'a': a}))['a']
          except Exception as e:  # noqa
            core.violation(res, 'byteorder-raises|' + key, f'{type(e).__name__}: {e}',
                           dict(dtype=other + code, shape=list(shape)))
            continue
          r = np.asarray(r)
          ok = (r.shape == a.shape and r.dtype.kind == a.dtype.kind and
                r.dtype.itemsize == a.dtype.itemsize and
                np.array_equal(r.astype(code), base))
          if not ok:
            core.violation(res, 'byteorder|' + key,
                           'an array with non-native byte order does not round-trip: values '
                           'differ after from_bytes(to_bytes(.))',
                           dict(dtype=other + code, shape=list(shape), layout=layout, th=th),
                           observed=r.tolist() if r.size < 8 else None,
                           expected=base.tolist() if base.size < 8 else None)
          core.outcome(res, 'byteorder:' + ('ok' if ok else 'corrupt'))
          if n > 1:
            res['nontrivial'].append(core.h(key))
  res['samples'].append(dict(part='byteorder', dtypes=[other + c for c in ('i2', 'f4', 'c8')]))
