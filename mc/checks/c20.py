"""C20 — host-side data helpers (DESIGN §4 C20).

(a) pure helpers under simulated device counts (subprocess per device count,
    mc/checks/c20_host.py): bounded-exhaustive grids vs direct evaluation.
(b) PrefetchIterator: every interleaving of producer and consumer with at most
    k preemptions (iterative bounding), scheduling points at every
    synchronisation operation and every source line of prefetch_iterator.py,
    on the real class with `threading` replaced by the virtual namespace.
"""
from __future__ import annotations

import json
import os
import subprocess
import sys
import warnings

from mc.engine import core, sched

PROPERTY = 'C20'
LEVEL = 'model_checking'
RULE = ('(b) harness = PrefetchIterator over a source of length n that fails at a chosen '
        'position (or not), buffer_size in {1,2}, consumer calls next n+2 times with an optional '
        'early close at each position; ALL schedules with <= k preemptions are executed '
        '(stateless DFS, k iterated 0..bound); states = complete executions (schedules), '
        'transitions = scheduling points executed. (a) grids over batch size x device count x '
        'min_device_batch, axis tuples, source length x prefetch size x failing position. '
        'A case is non-trivial when the batch needs padding / the schedule contains a '
        'preemption; distinct by configuration + schedule')
ASSUMPTIONS = [
  'scheduling granularity: synchronisation operations and source lines of '
  'flax/training/prefetch_iterator.py; the CPython memory model below a line is not explored',
  'device counts are simulated host (CPU) devices',
  'after the first error/StopIteration the consumer may see either on later calls',
  'early close() is outside the statement: with it only order / each-once / error position are asserted',
]

TRACED = ('flax/training/prefetch_iterator.py',)


def bounds(tier):
  return dict(preemption_bound=2 if tier == 'quick' else 3,
              source_len=[0, 1, 2] if tier == 'quick' else [0, 1, 2, 3],
              buffer_size=[1, 2], devices=[1, 2, 3] if tier == 'quick' else [1, 2, 3, 4])


def _configs(tier):
  out = []
  for n in bounds(tier)['source_len']:
    for buf in (1, 2):
      for fail in [None] + list(range(0, n + 1)):
        for close in [None] + list(range(0, n + 2)):
          out.append(dict(n=n, buf=buf, fail=fail, close=close))
  return out


def units(tier, seed):
  us = [dict(kind='host', d=d, tier=tier) for d in bounds(tier)['devices']]
  for c in _configs(tier):
    us.append(dict(kind='prefetch', bound=bounds(tier)['preemption_bound'], **c))
  return us


def run_unit(unit):
  if unit['kind'] == 'host':
    return _host(unit)
  return _prefetch(unit)


def _host(unit):
  env = dict(os.environ)
  env['PYTHONPATH'] = core.VERIF + os.pathsep + env.get('PYTHONPATH', '')
  env.pop('XLA_FLAGS', None)
  p = subprocess.run([sys.executable, '-m', 'mc.checks.c20_host', str(unit['d']), unit['tier']],
                     capture_output=True, text=True, cwd=core.VERIF, env=env, timeout=1200)
  lines = [l for l in p.stdout.splitlines() if l.startswith('RESULT ')]
  if p.returncode != 0 or not lines:
    raise RuntimeError(f'c20_host failed rc={p.returncode}: {p.stderr[-2000:]}')
  return json.loads(lines[-1][7:])


class Boom(Exception):
  pass


class Source:
  def __init__(self, n, fail):
    self.n, self.fail, self.i = n, fail, 0

  def __iter__(self):
    return self

  def __next__(self):
    i = self.i
    self.i += 1
    if self.fail is not None and i == self.fail:
      raise Boom(i)
    if i >= self.n:
      raise StopIteration
    return 10 * (i + 1)


def make_harness(cfg):
  n, buf, fail, close = cfg['n'], cfg['buf'], cfg['fail'], cfg['close']

  def make_body(ns):
    def body():
      import flax.training.prefetch_iterator as pi
      pi.threading = ns
      src = Source(n, fail)
      with warnings.catch_warnings():
        warnings.simplefilter('ignore')
        it = pi.PrefetchIterator(src, buf)
      obs = []
      ahead = 0
      for k in range(n + 2):
        if close == k:
          it.close()
        try:
          obs.append(next(it))
        except StopIteration:
          obs.append('stop')
        except Boom:
          obs.append('err')
        delivered = sum(1 for o in obs if isinstance(o, int))
        ahead = max(ahead, min(src.i, n if fail is None else fail) - delivered)
      it.close()
      return tuple(obs), ahead
    return body
  return make_body


def judge(cfg, x):
  """Returns None or a (clause, text) pair for one execution."""
  n, buf, fail, close = cfg['n'], cfg['buf'], cfg['fail'], cfg['close']
  if x.deadlock:
    return 'deadlock', f'deadlock: no enabled thread, threads={x.deadlock}'
  if x.exc is not None:
    return 'harness-exc', f'unexpected exception {type(x.exc).__name__}: {x.exc}'
  if x.stuck:
    return 'stuck', f'producer thread still blocked after close(): {x.stuck}'
  obs, ahead = x.result
  k = n if fail is None else fail
  src_items = [10 * (i + 1) for i in range(k)]
  if close is None:
    items = []
    for o in obs:
      if isinstance(o, int):
        items.append(o)
      else:
        break
    tail = obs[len(items):]
    if any(isinstance(o, int) for o in tail):
      return 'item-after-end', f'an item was delivered after the end/error: {obs}'
    if items != src_items:
      return 'lost-items', f'consumer saw {obs}, source yields {src_items}'
    if not tail:
      return 'no-end', f'consumer never saw the end: {obs}'
    want = 'stop' if fail is None else 'err'
    if tail[0] != want:
      return 'wrong-end', (f'after the items the consumer saw {tail[0]!r}, expected {want!r} '
                           f'(source {"raised" if fail is not None else "ended"}): {obs}')
  else:
    # early close() is not described by the property: only what it does state is
    # asserted - delivered items are the source's, in order, each once, and the
    # source's error never surfaces before the items that preceded it
    items = [o for o in obs if isinstance(o, int)]
    if items != src_items[:len(items)]:
      return 'order', f'items {items} are not a prefix of the source items {src_items}'
    if 'err' in obs:
      before = sum(1 for o in obs[:obs.index('err')] if isinstance(o, int))
      if fail is None or before != fail:
        return 'spurious-err', f'error surfaced at the wrong position: {obs}'
    if not any(o in ('stop', 'err') for o in obs):
      return 'no-end', f'consumer never saw the end: {obs}'
  if ahead > buf + 1:
    return 'read-ahead', f'{ahead} items pulled ahead of the consumer (buffer_size={buf})'
  return None


def _prefetch(unit):
  import flax.training.prefetch_iterator  # noqa: import outside the traced region
  res = core.new_result()
  cfg = {k: unit[k] for k in ('n', 'buf', 'fail', 'close')}
  ckey = f"n={cfg['n']},buf={cfg['buf']},fail={cfg['fail']},close={cfg['close']}"
  outs = {}
  first_bad = {}

  def check(x):
    j = judge(cfg, x)
    label = repr(x.result[0]) if x.result else ('deadlock' if x.deadlock else repr(x.exc))
    outs[label] = outs.get(label, 0) + 1
    if x.preemptions() > 0:
      res['nontrivial'].append(core.h([ckey, x.choices]))
    if j is not None and j[0] not in first_bad:
      first_bad[j[0]] = (j[1], list(x.choices), x.preemptions())

  make_body = make_harness(cfg)
  st = sched.explore(make_body, unit['bound'], check, traced_files=TRACED)
  res['evals'] = st['executions']
  res['states'] = st['executions']
  res['transitions'] = st['points']
  res['capped'] = st['capped']
  for label, c in outs.items():
    core.outcome(res, f'{ckey}:{label}', c)
  for clause, (text, choices, pre) in first_bad.items():
    # replay twice: the same schedule must fail every time
    again = [judge(cfg, sched.run_once(make_body, choices, None, TRACED)) for _ in range(2)]
    if not all(a is not None and a[0] == clause for a in again):
      raise RuntimeError(f'non-deterministic replay of {ckey} {choices}: {again}')
    core.violation(res, f'prefetch-iterator|{clause}|{ckey}',
                   f'PrefetchIterator({ckey}): {text} [schedule with {pre} preemption(s)]',
                   dict(cfg, schedule=choices, preemptions=pre))
  res['samples'].append(dict(config=cfg, schedules=st['executions'],
                             outcomes=list(outs)[:4]))
  return res


def replay(rec):
  case = rec['case']
  if 'schedule' not in case:
    r = run_unit(rec['unit'])
    bad = [v for v in r['violations'] if v['key'] == rec['key']]
    for v in bad:
      print(json.dumps(v)[:2000])
    return bad
  cfg = {k: case[k] for k in ('n', 'buf', 'fail', 'close')}
  x = sched.run_once(make_harness(cfg), case['schedule'], None, TRACED)
  j = judge(cfg, x)
  print('config', cfg, 'schedule', case['schedule'])
  print('observed', x.result, 'exc', x.exc, 'deadlock', x.deadlock, 'verdict', j)
  return [j] if j else []
