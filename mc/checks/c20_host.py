"""C20(a): host-side helpers under a simulated device count.  Runs as a
subprocess (the device count must be fixed before jax is imported):

    python -m mc.checks.c20_host <devices> <tier>   -> JSON result on stdout (last line)
"""
from __future__ import annotations

import itertools
import json
import os
import sys


def main(d, tier):
  os.environ['XLA_FLAGS'] = (os.environ.get('XLA_FLAGS', '') +
                             f' --xla_force_host_platform_device_count={d}').strip()
  from mc.engine import core
  core.bind_repo()
  import numpy as np
  import jax
  import jax.numpy as jnp
  from flax import jax_utils
  from flax.training import common_utils
  core.assert_bound()
  assert jax.local_device_count() == d, jax.local_device_count()
  res = core.new_result()

  def V(key, what, **case):
    core.violation(res, key, what, case)

  def guarded(key, fn, **case):
    """run fn; an exception is a violation (these helpers must not raise)"""
    res['evals'] += 1
    try:
      return True, fn()
    except Exception as e:  # noqa
      V(f'{key}|raises:{type(e).__name__}', f'{key} raised {type(e).__name__}: {str(e)[:160]}',
        **case)
      return False, None

  # ---------------------------------------------------------- pad_shard_unpad
  def per_example(x):
    x = np.asarray(x)
    return x * 2.0 + x.sum(axis=-1, keepdims=True)

  ms = [None, 1, 2, 3]
  maxb = (2 * d * 3 + 1) if tier == 'thorough' else (2 * d * 2 + 1)
  for m in ms:
    for b in range(1, maxb + 1):
      x = (np.arange(b * 3, dtype=np.float32).reshape(b, 3) + 1)
      y = {'u': x + 100, 'v': np.arange(b, dtype=np.float32) + 7}
      seen_shapes = []

      def wrapped(params, x, y, *, flag='k', extra=None):
        assert x.shape[0] == d and x.ndim == 3, x.shape
        seen_shapes.append(tuple(x.shape))
        assert y['u'].shape[:2] == x.shape[:2] and y['v'].shape == x.shape[:2]
        assert flag == 'k'
        o = per_example(x) * params
        if extra is not None:
          assert extra.shape[:2] == x.shape[:2]
          o = o + np.asarray(extra)
        return {'o': o, 'w': np.asarray(y['u']) - np.asarray(y['v'])[..., None]}

      f = jax_utils.pad_shard_unpad(wrapped, static_argnums=(0,), static_argnames=('flag',))
      for use_extra in (False, True):
        kw = dict(flag='k')
        if use_extra:
          kw['extra'] = x * 0 + 5
        if m is not None:
          kw['min_device_batch'] = m
        ok, out = guarded('pad_shard_unpad', lambda: f(3.0, x, y, **kw), d=d, b=b, m=m)
        if not ok:
          continue
        exp_o = per_example(x) * 3.0 + (5 if use_extra else 0)
        exp_w = y['u'] - y['v'][:, None]
        good = (np.asarray(out['o']).shape == exp_o.shape and
                np.array_equal(out['o'], exp_o) and np.array_equal(out['w'], exp_w))
        if not good:
          V(f'pad_shard_unpad|d={d}|b={b}|m={m}|extra={use_extra}',
            'pad_shard_unpad result differs from the per-example function on the unpadded batch',
            d=d, b=b, m=m, observed=np.asarray(out['o']).tolist(), expected=exp_o.tolist())
        db = -(-b // d)
        if m:
          db = max(db, m)
        if seen_shapes[-1][:2] != (d, db):
          V(f'pad_shard_unpad-shape|d={d}|b={b}|m={m}',
            f'wrapped function received per-device batch {seen_shapes[-1][:2]}, expected {(d, db)}',
            d=d, b=b, m=m)
        core.outcome(res, f'psu:padded={d * db - b > 0}')
        if d * db != b:
          res['nontrivial'].append(core.h(['psu', d, b, m, use_extra]))
      # static_return
      g = jax_utils.pad_shard_unpad(lambda p, x: np.asarray(x).sum(), static_return=True)
      ok, out = guarded('pad_shard_unpad-static', lambda: g(1.0, x), d=d, b=b, m=m)
      if ok and float(out) != float(x.sum()):
        V(f'pad_shard_unpad-static|d={d}|b={b}', 'static_return value differs (padding is zeros)',
          d=d, b=b)
  res['samples'].append(dict(helper='pad_shard_unpad', devices=d, batch=maxb,
                             min_device_batch=ms))

  # -------------------------------------------------------------- scan_in_dim
  if d == 1:
    shape = (2, 3, 2)
    xs = jnp.arange(np.prod(shape), dtype=jnp.float32).reshape(shape) + 1
    axes_list = []
    for r in (1, 2, 3):
      for perm in itertools.permutations(range(3), r):
        axes_list.append(perm)
        axes_list.append(tuple(a - 3 for a in perm))                  # all negative
        if r > 1:
          axes_list.append((perm[0],) + tuple(a - 3 for a in perm[1:]))   # mixed
    for axis in axes_list:
      r = len(axis)
      if True:
        for keepdims in (False, True):
          for unroll in ((1,), (2,)) if tier == 'thorough' else ((1,),):
            def body(c, x):
              return c * 2 + x.sum(), x * 3 + c

            ok, out = guarded('scan_in_dim', lambda: jax_utils.scan_in_dim(
              body, jnp.float32(1), xs, axis=axis, keepdims=keepdims, unroll=unroll),
              axis=axis, keepdims=keepdims)
            if not ok:
              continue
            c = np.float32(1)
            X = np.asarray(xs)
            ys = np.zeros_like(X)
            for idx in itertools.product(*[range(shape[a]) for a in axis]):
              sl = [slice(None)] * 3
              for a, i in zip(axis, idx):
                sl[a] = slice(i, i + 1) if keepdims else i
              xi = X[tuple(sl)]
              ys[tuple(sl)] = xi * 3 + c
              c = np.float32(c * 2 + xi.sum())
            if not (np.array_equal(np.asarray(out[1]), ys) and float(out[0]) == float(c)):
              V(f'scan_in_dim|axis={axis}|keepdims={keepdims}|unroll={unroll}',
                'scan_in_dim differs from the nested Python loop', axis=axis, keepdims=keepdims)
            core.outcome(res, f'scan_in_dim:r={r}')
            res['nontrivial'].append(core.h(['sid', axis, keepdims, unroll]))
    res['samples'].append(dict(helper='scan_in_dim', shape=shape, axis=[1, 0], keepdims=True))

  # ----------------------------------------- replicate / unreplicate / shard / ...
  tree = {'a': np.arange(6, dtype=np.float32).reshape(2, 3), 'b': (np.float32(4), np.arange(2))}
  ok, rep = guarded('replicate', lambda: jax_utils.replicate(tree), d=d)
  if ok:
    exp = jax.tree.map(lambda x: np.stack([np.asarray(x)] * d), tree)
    if not all(np.array_equal(a, b) and np.shape(a) == np.shape(b)
               for a, b in zip(jax.tree.leaves(rep), jax.tree.leaves(exp))):
      V(f'replicate|d={d}', 'replicate is not a stack of d copies', d=d)
    ok2, un = guarded('unreplicate', lambda: jax_utils.unreplicate(rep), d=d)
    if ok2 and not all(np.array_equal(a, b) for a, b in
                       zip(jax.tree.leaves(un), jax.tree.leaves(tree))):
      V(f'unreplicate|d={d}', 'unreplicate(replicate(t)) != t', d=d)
    res['nontrivial'].append(core.h(['rep', d]))
  for per in (1, 2, 3):
    b = d * per
    t = {'x': np.arange(b * 2, dtype=np.float32).reshape(b, 2), 'y': np.arange(b)}
    ok, sh = guarded('shard', lambda: common_utils.shard(t), d=d, b=b)
    if ok:
      if not (np.array_equal(sh['x'], t['x'].reshape(d, per, 2)) and
              np.array_equal(sh['y'], t['y'].reshape(d, per))):
        V(f'shard|d={d}|b={b}', 'shard is not reshape(d, b/d, ...)', d=d, b=b)
      res['nontrivial'].append(core.h(['shard', d, b]))
  for n in (1, 2, 3):
    forest = [{'a': np.float32(i), 'b': {'c': np.arange(2) + i}} for i in range(n)]
    ok, st = guarded('stack_forest', lambda: common_utils.stack_forest(forest), n=n)
    if ok and not (np.array_equal(st['a'], np.arange(n, dtype=np.float32)) and
                   np.array_equal(st['b']['c'], np.stack([np.arange(2) + i for i in range(n)]))):
      V(f'stack_forest|n={n}', 'stack_forest is not a leafwise stack', n=n)
    # a reshape keeps every value and its dtype: 64-bit host leaves (step counters beyond
    # 2**31, float64 timestamps), bools and Python scalars included
    wide = [{'step': np.int64(3_000_000_000 + i), 't': np.float64(0.1) + i, 'ok': np.bool_(i % 2),
             'py': (float(i) + 0.1, 2 ** 40 + i), 'h': np.arange(3, dtype=np.float16) + i,
             'u': np.array([[i, 255]], np.uint8)} for i in range(n)]
    ok, sw = guarded('stack_forest', lambda: common_utils.stack_forest(wide), n=n)
    if ok:
      expw = jax.tree.map(lambda *xs: np.stack(xs), *wide)
      for (pth, a), b in zip(jax.tree_util.tree_leaves_with_path(sw), jax.tree.leaves(expw)):
        a_ = np.asarray(a)
        if a_.dtype != b.dtype or a_.shape != b.shape or not np.array_equal(a_, b):
          V(f'stack_forest-wide|n={n}|{jax.tree_util.keystr(pth)}',
            f'stack_forest changed a leaf: got {a_.dtype}{list(a_.shape)} {a_.tolist()}, '
            f'np.stack gives {b.dtype}{list(b.shape)} {b.tolist()}', n=n)
      res['nontrivial'].append(core.h(['stack_forest-wide', n]))
    ms_ = [jax.tree.map(lambda x: np.stack([x] * d), f) for f in forest]
    ok, gm = guarded('get_metrics', lambda: common_utils.get_metrics(ms_), n=n, d=d)
    if ok and not np.array_equal(gm['a'], np.arange(n, dtype=np.float32)):
      V(f'get_metrics|n={n}|d={d}', 'get_metrics is not stack of the first replica', n=n, d=d)
  for nc in (1, 2, 4):
    for lab in ([0], [nc - 1, 0], [[0, nc - 1], [nc - 1, 0]]):
      for on, off in ((1.0, 0.0), (0.9, 0.1)):
        L = np.array(lab)
        ok, oh = guarded('onehot', lambda: common_utils.onehot(L, nc, on, off), nc=nc)
        exp = np.where(L[..., None] == np.arange(nc), on, off).astype(np.float32)
        if ok and not (np.asarray(oh).shape == exp.shape and np.allclose(oh, exp, atol=0, rtol=0)):
          V(f'onehot|nc={nc}|{lab}|{on}', 'onehot differs', nc=nc, lab=lab)
        res['nontrivial'].append(core.h(['onehot', nc, lab, on]))
  # narrow label dtypes against class counts on both sides of the dtype's range, the -1
  # "ignore" label (an all-off row) and labels >= num_classes (all-off as well)
  for dt, ncs in (('uint8', (4, 255, 256, 257, 300)), ('int8', (4, 127, 128, 129, 256)),
                  ('int16', (4, 300)), ('uint16', (4, 300)), ('int32', (4, 300)), ('int64', (4, 300))):
    for nc in ncs:
      # jax without x64 truncates int64 inputs to int32: values outside int32 are outside the alphabet
      info = np.iinfo('int32' if dt == 'int64' else dt)
      vals = sorted({v for v in (0, 1, 5, nc - 1, nc, nc - 256, -1, info.max, info.min)
                     if info.min <= v <= info.max})
      L = np.array([vals, vals[::-1]], dtype=dt)
      ok, oh = guarded('onehot', lambda: common_utils.onehot(L, nc), nc=nc, dtype=dt)
      exp = (L.astype(np.int64)[..., None] == np.arange(nc, dtype=np.int64)).astype(np.float32)
      if ok and not (np.asarray(oh).shape == exp.shape and np.array_equal(np.asarray(oh), exp)):
        bad = np.argwhere(np.asarray(oh) != exp)[:3].tolist() if np.asarray(oh).shape == exp.shape else 'shape'
        V(f'onehot-dtype|{dt}|nc={nc}', f'onehot of {dt} labels {vals} with {nc} classes is not '
          f'(label == class index): first differing (row, col, class) {bad}', nc=nc, dtype=dt)
      res['nontrivial'].append(core.h(['onehot-dtype', dt, nc]))

  # -------------------------------------------------------- prefetch_to_device
  class Boom(Exception):
    pass

  def source(n, fail, log):
    for i in range(n + 1):
      if fail is not None and i == fail:
        log.append(('raise', i))
        raise Boom(i)
      if i == n:
        return
      log.append(('pull', i))
      yield {'x': np.full((d, 2), float(i), np.float32)}

  maxn = 4 if tier == 'thorough' else 3
  for n in range(0, maxn + 1):
    for size in (1, 2, 3):
      for fail in [None] + list(range(0, n + 1)):
        log = []
        obs = []
        res['evals'] += 1
        try:
          it = jax_utils.prefetch_to_device(source(n, fail, log), size)
          while True:
            try:
              item = next(it)
            except StopIteration:
              obs.append('stop')
              break
            except Boom:
              obs.append('err')
              break
            a = np.asarray(item['x'])
            if a.shape != (d, 2) or not np.all(a == a.flat[0]):
              obs.append(('bad', a.tolist()))
            else:
              obs.append(int(a.flat[0]))
        except Exception as e:  # noqa
          V(f'prefetch_to_device|raises:{type(e).__name__}',
            f'prefetch_to_device raised {type(e).__name__}: {str(e)[:160]}', n=n, size=size,
            fail=fail, d=d)
          continue
        k = n if fail is None else fail
        # items that precede the failure must be delivered, in order, then the end / error
        exp_items = list(range(k))
        got_items = [o for o in obs if isinstance(o, int)]
        tail = obs[len(got_items):]
        okk = (obs[:len(got_items)] == got_items and got_items == exp_items and
               tail == ['stop' if fail is None else 'err'])
        if not okk:
          V(f'prefetch_to_device|n={n}|size={size}|fail={fail}|d={d}',
            'consumer did not see the source items in order followed by the end / the error',
            n=n, size=size, fail=fail, observed=obs, expected=exp_items)
        core.outcome(res, f'p2d:{"err" if fail is not None else "stop"}')
        res['nontrivial'].append(core.h(['p2d', d, n, size, fail]))
  res['samples'].append(dict(helper='prefetch_to_device', devices=d, n=maxn, size=3))
  return res


if __name__ == '__main__':
  r = main(int(sys.argv[1]), sys.argv[2])
  print('RESULT ' + json.dumps(r, default=repr))
