"""C09 — random keys: deterministic, position-addressed, never reused
(DESIGN §4 C09).  Relational oracle only: the derivation (SHA-1 folding,
separator) is never hard-coded.

Linen (P): module trees over a name set chosen to collide without the separator;
every key handed to user code (make_rng and initialiser keys) is observed.
NNX (S): explicit-state BFS over histories on an Rngs object.
"""
from __future__ import annotations

import itertools
import os

import numpy as np

from mc.engine import core
from mc.models import dsl
from mc.engine.canon import canon_tree, np_tree, jsonable

PROPERTY = 'C09'
LEVEL = 'model_checking'
RULE = ('Linen: every module tree with <= 3 children per node from explicit names {a, ab, b, bc, c} '
        '(so ab/c and a/bc occur), each node drawing 0-2 keys from <= 2 streams and 0-2 key-observing '
        'params, depth <= 2; x every permutation of sibling creation order x extra unrelated '
        'sibling / stream / variable x both values of flax_fix_rng_separator x stream seeds; a stream '
        'seeded at the top but not lifted into {remat, checkpoint, jit}(rngs=params | [params] | '
        'DenyList(dropout)) x 5 bodies x outer draws: same keys as the params twin; 2-3 named '
        'siblings passed as fields into every pair of {plain, jit, remat, checkpoint} callers (and '
        'named child scopes under core lift.jit / remat): pairwise different keys; '
        'NNX: BFS over histories (depth 4 quick / 6 thorough) on Rngs(seed, s1=, s2=) with actions '
        '{draw default/s1/missing, split_rngs (+ vmapped draws) + restore, context manager, only= '
        'filter, reseed, split/merge}; states = canonical per-stream (key, count), transitions = '
        'operations on the real object. Non-trivial: >= 2 draws; distinct by program / history')
ASSUMPTIONS = [
  'distinctness of keys is checked on key data; a hash collision of the derivation itself '
  '(probability ~2^-64) would be reported',
  'without flax_fix_rng_separator two paths whose concatenated names coincide are known to '
  'collide (that is what the flag fixes): only the other pairs are asserted there',
  'NNX: a draw is fold_in(key, count) as the Rngs docstring states; split regions are entered '
  'through nnx.split_rngs and used under nnx.vmap',
]

NAMES = ['a', 'ab', 'b', 'bc', 'c']


def bounds(tier):
  return dict(linen_children=2 if tier == 'quick' else 3, linen_depth=2,
              nnx_history_depth=4 if tier == 'quick' else 5)


# ----------------------------------------------------------------------- Linen

LEAF_BODIES = [
  (),
  (('rng', 'dropout'),),
  (('param', 'p', 'k'), ('rng', 'dropout'), ('rng', 'dropout')),
  (('rng', 'other'), ('param', 'p', 'k'), ('param', 'q', 'k'), ('rng', 'dropout')),
]


def _trees(tier):
  """Top programs: ordered tuples of children (name, body, grandchildren) + own draws."""
  kmax = bounds(tier)['linen_children']
  progs = []
  own = [(), (('rng', 'dropout'),), (('param', 'p', 'k'), ('rng', 'other'))]
  # depth-2 constructions exercising ab/c vs a/bc
  gc_sets = [(), (('c', LEAF_BODIES[1]),), (('bc', LEAF_BODIES[2]),),
             (('c', LEAF_BODIES[2]), ('bc', LEAF_BODIES[1]))]
  for k in range(1, kmax + 1):
    for names in itertools.combinations(NAMES, k):
      for bi in range(len(LEAF_BODIES)):
        for gi, gcs in enumerate(gc_sets):
          for oi, o in enumerate(own):
            if (bi + gi + oi + len(names)) % 2 and tier == 'quick':
              continue
            children = tuple((n, LEAF_BODIES[(bi + j) % len(LEAF_BODIES)], gcs)
                             for j, n in enumerate(names))
            progs.append((o, children))
  return progs


def _to_def(own, children, order=None, extra_sibling=None, extra_var=False):
  idx = list(range(len(children))) if order is None else list(order)
  stmts = []
  if extra_sibling == 'first':
    stmts.append(('child', 'A', LEAF_BODIES[2], 'zz', 1))
  for i in idx:
    n, body, gcs = children[i]
    b = tuple(body) + tuple(('child', 'A', gb, gn, 1) for gn, gb in gcs)
    if extra_var:
      b = (('var', 'stats', 'sv', 'read'),) + b
    stmts.append(('child', 'A', b, n, 1))
  if extra_sibling == 'last':
    stmts.append(('child', 'A', LEAF_BODIES[2], 'zz', 1))
  return tuple(stmts) + tuple(own)


def _observe(d, rngs, fix_sep):
  """{(path, stream, n): key} for make_rng draws and {(path, pname): key} for initialisers."""
  import jax
  import jax.numpy as jnp
  import flax
  dsl.RNGLOG[:] = []
  old = flax.config.flax_fix_rng_separator
  flax.config.update('flax_fix_rng_separator', fix_sep)
  try:
    v = dsl.make('A', d).init(rngs, jnp.ones((2,), jnp.float32))
  finally:
    flax.config.update('flax_fix_rng_separator', old)
  draws = {}
  cnt = {}
  for path, stream, kd in dsl.RNGLOG:
    n = cnt.get((path, stream), 0)
    cnt[(path, stream)] = n + 1
    draws[(path, stream, n)] = kd
  inits = {}

  def walk(t, path):
    for k, val in t.items():
      if isinstance(val, dict):
        walk(val, path + (k,))
      else:
        inits[(path, k)] = tuple(np.asarray(val).tolist())
  walk(v.get('params', {}), ())
  return draws, inits


def units(tier, seed):
  progs = _trees(tier)
  us = []
  step = 12
  for i in range(0, len(progs), step):
    us.append(dict(kind='linen', lo=i, hi=min(len(progs), i + step)))
  us.append(dict(kind='linen-fallback'))
  us.append(dict(kind='linen-filtered'))
  us.append(dict(kind='linen-passed'))
  # determinism and non-reuse under lifted jit / remat (clause shared with C05, family R)
  jb = [[['rng', 'dropout']], [['child', 'B', [['rng', 'dropout']], None, 1]],
        [['param', 'a', 's'], ['rng', 'dropout']]]
  for t in ('jit@A', 'AJ', 'remat@A'):
    us.append(dict(kind='linen-jit', t=t, bodies=jb))
  d = bounds(tier)['nnx_history_depth']
  for first in range(len(NNX_ACTIONS)):
    us.append(dict(kind='nnx', first=first, depth=d))
  return us


def run_unit(unit):
  res = core.new_result()
  if unit['kind'] == 'linen':
    _linen(res, unit)
  elif unit['kind'] == 'linen-fallback':
    _fallback(res)
  elif unit['kind'] == 'linen-filtered':
    _filtered(res)
  elif unit['kind'] == 'linen-passed':
    _passed(res)
  elif unit['kind'] == 'linen-jit':
    from mc.checks import c05
    c05._fam_R(res, unit)
  else:
    _nnx(res, unit)
  return res


def _concat(path):
  return ''.join(path)


def _linen(res, unit):
  import jax
  tier = os.environ.get('VERIF_TIER', 'quick')
  progs = _trees(tier)[unit['lo']:unit['hi']]
  seeds = {'params': jax.random.key(1), 'dropout': jax.random.key(2), 'other': jax.random.key(3)}
  for own, children in progs:
    base = _to_def(own, children)
    pkey = repr(base)
    case = dict(program=dsl.tolist(base))

    def V(tag, what, **kw):
      core.violation(res, f'{tag}|{pkey}|{kw.get("variant", "")}', what, dict(case, **kw))

    for fix in (False, True):
      res['evals'] += 2
      res['transitions'] += 1
      d0, i0 = _observe(base, seeds, fix)
      d1, i1 = _observe(base, seeds, fix)
      if (d0, i0) != (d1, i1):
        V('nondeterministic', 'same program, same seeds, different keys', fix=fix)
      # (3) no key handed out twice within a run
      allk = [(('draw',) + k, v) for k, v in d0.items()] + [(('init',) + k, v)
                                                            for k, v in i0.items()]
      byval = {}
      for k, v in allk:
        byval.setdefault(v, []).append(k)
      for v, ks in byval.items():
        if len(ks) > 1:
          # without the separator fix, paths with equal concatenation are known to collide
          paths = {_concat(k[1]) for k in ks}
          real_paths = {k[1] for k in ks}
          excusable = (not fix) and len(real_paths) > 1 and len(paths) == 1
          if not excusable:
            V('reuse', f'the same key was handed out at {ks}', fix=fix, variant=f'fix={fix}')
          else:
            core.outcome(res, 'known-collision-without-separator')
      # (2) unrelated changes leave every other key unchanged
      variants = []
      n = len(children)
      if n > 1:
        for order in itertools.permutations(range(n)):
          if list(order) != list(range(n)):
            variants.append((f'perm{order}', _to_def(own, children, order=order), seeds))
      variants.append(('extra-sibling-first', _to_def(own, children, extra_sibling='first'), seeds))
      variants.append(('extra-sibling-last', _to_def(own, children, extra_sibling='last'), seeds))
      variants.append(('extra-variable', _to_def(own, children, extra_var=True), seeds))
      variants.append(('extra-stream', base, dict(seeds, unused=jax.random.key(9))))
      for vname, dv, sv in variants:
        res['evals'] += 1
        res['transitions'] += 1
        dd, ii = _observe(dv, sv, fix)
        for k, val in d0.items():
          if k in dd and dd[k] != val:
            V('position', f'{vname}: the key of draw {k} changed although only unrelated '
              'siblings / streams / variables changed', fix=fix, variant=f'{vname},fix={fix}')
            break
        for k, val in i0.items():
          if k in ii and ii[k] != val:
            V('position-init', f'{vname}: the initialiser key of {k} changed', fix=fix,
              variant=f'{vname},fix={fix}')
            break
        if vname.startswith('perm') and (set(dd) != set(d0) or set(ii) != set(i0)):
          V('perm-domain', f'{vname}: the set of draws changed under a permutation', fix=fix,
            variant=f'{vname},fix={fix}')
      # different seed => different keys everywhere
      res['evals'] += 1
      s2 = dict(seeds, dropout=jax.random.key(20))
      dd, ii = _observe(base, s2, fix)
      for k, val in d0.items():
        if k[1] == 'dropout' and dd.get(k) == val:
          V('seed-ignored', f'draw {k} did not change with the stream seed', fix=fix,
            variant=f'seed,fix={fix}')
          break
        if k[1] != 'dropout' and dd.get(k) != val:
          V('seed-leak', f'draw {k} of another stream changed with the dropout seed', fix=fix,
            variant=f'seedleak,fix={fix}')
          break
      res['states'] += 1
    if len(d0) + len(i0) >= 2:
      res['nontrivial'].append(core.h(pkey))
  res['samples'].append(dict(program=dsl.tolist(_to_def(*progs[-1])), keys_observed=len(d0) + len(i0)))


def _fallback(res):
  """A missing stream yields what the params stream yields at that position (and shares its
  counter); with params missing too it raises."""
  import jax
  from flax import errors
  for body in [(('rng', 'missing'),), (('rng', 'missing'), ('rng', 'missing')),
               (('rng', 'params'), ('rng', 'missing')), (('rng', 'missing'), ('rng', 'params')),
               (('param', 'p', 'k'), ('rng', 'missing'), ('param', 'q', 'k'))]:
    for name in ('a', None):
      for fix in (False, True):
        d = (('child', 'A', body, name, 1),) if name else body
        twin = tuple(('rng', 'params') if st == ('rng', 'missing') else st for st in body)
        dt = (('child', 'A', twin, name, 1),) if name else twin
        seeds = {'params': jax.random.key(1), 'dropout': jax.random.key(2)}
        res['evals'] += 2
        res['transitions'] += 1
        a, ia = _observe(d, seeds, fix)
        b, ib = _observe(dt, seeds, fix)
        ka = [v for k, v in sorted(a.items(), key=lambda kv: kv[0][2] + (100 if kv[0][1] == 'params' else 0))]
        seq_a = [kd for _, _, kd in _order(d, seeds, fix)]
        seq_b = [kd for _, _, kd in _order(dt, seeds, fix)]
        key = f'{body!r}|{name}|{fix}'
        if seq_a != seq_b or ia != ib:
          core.violation(res, f'fallback|{key}', 'a missing stream does not yield the keys the '
                         'params stream yields at the same positions', dict(body=dsl.tolist(body)),
                         observed=seq_a, expected=seq_b)
        if len(set(seq_a)) != len(seq_a):
          core.violation(res, f'fallback-reuse|{key}', 'fallback draws reuse a key',
                         dict(body=dsl.tolist(body)))
        res['evals'] += 1
        try:
          _observe(d, {'dropout': jax.random.key(2)}, fix)
          if not dsl.has(d, lambda st: st[0] == 'param'):
            core.violation(res, f'fallback-no-params|{key}',
                           'drawing from a missing stream without a params stream did not raise',
                           dict(body=dsl.tolist(body)))
        except errors.InvalidRngError:
          core.outcome(res, 'fallback:raises-without-params')
        except Exception as e:  # noqa
          core.outcome(res, 'fallback:other-error:' + type(e).__name__)
        core.outcome(res, 'fallback:ok')
        res['nontrivial'].append(core.h(key))
        res['states'] += 1
  res['samples'].append(dict(kind='fallback'))


def _passed(res):
  """Sibling modules with different names that are *passed into* other modules (as dataclass
  fields) still draw different keys, whether the receiving module is plain or wrapped in a lifted
  transform; functional core: two child scopes with different names under lift.jit / lift.remat."""
  import jax
  import jax.numpy as jnp
  import flax.linen as nn
  from flax.core import lift, apply as core_apply

  class Leaf(nn.Module):
    draws: int = 1

    @nn.compact
    def __call__(self, x):
      ks = [jax.random.key_data(self.make_rng('dropout')) for _ in range(self.draws)]
      return jnp.stack(ks)

  class Caller(nn.Module):
    inner: nn.Module = None

    @nn.compact
    def __call__(self, x):
      return self.inner(x)

  wrappers = {'plain': Caller, 'jit': nn.jit(Caller), 'remat': nn.remat(Caller),
              'checkpoint': nn.checkpoint(Caller)}
  x = jnp.ones(())
  names_sets = [('p', 'q'), ('a', 'ab', 'b'), ('q', 'p')]
  for w1, w2 in itertools.product(wrappers, repeat=2):
    for names in names_sets:
      for draws in (1, 2):
        for fix in (False, True):
          J = [wrappers[w1], wrappers[w2]]

          class Top(nn.Module):
            @nn.compact
            def __call__(self, x):
              leaves = [Leaf(draws=draws, name=n) for n in names]
              return [J[i % 2](leaf, name=f'c{i}')(x) for i, leaf in enumerate(leaves)]

          key = f'{w1}|{w2}|{names}|{draws}|{fix}'
          res['evals'] += 2
          res['transitions'] += 1
          import flax
          old = flax.config.flax_fix_rng_separator
          flax.config.update('flax_fix_rng_separator', fix)
          try:
            outs = Top().apply({}, x, rngs={'dropout': jax.random.key(5)})
            outs2 = Top().apply({}, x, rngs={'dropout': jax.random.key(5)})
          except Exception as e:  # noqa
            core.violation(res, f'passed-raises|{key}', f'{type(e).__name__}: {e}'[:300],
                           dict(wrappers=[w1, w2], names=list(names)))
            continue
          finally:
            flax.config.update('flax_fix_rng_separator', old)
          ks = [tuple(np.asarray(k).ravel().tolist()) for o in outs for k in np.asarray(o)]
          ks2 = [tuple(np.asarray(k).ravel().tolist()) for o in outs2 for k in np.asarray(o)]
          if ks != ks2:
            core.violation(res, f'passed-nondet|{key}', 'same program, same seeds, different keys',
                           dict(wrappers=[w1, w2], names=list(names)))
          if len(set(ks)) != len(ks):
            core.violation(res, f'passed-reuse|{key}',
                           'two draws in differently named sibling modules (passed into other '
                           'modules as fields) returned the same key',
                           dict(wrappers=[w1, w2], names=list(names), draws=draws), observed=ks)
          core.outcome(res, f'passed:{w1}:{w2}')
          res['nontrivial'].append(core.h(key))
          res['states'] += 1

  # functional core: child scopes with different names under a lifted transform
  def draw(scope, x):
    return jax.random.key_data(scope.make_rng('dropout'))

  # (core lift.jit takes a hashable trace key as its first argument after the scope and hands
  # it on to the function)
  core_jit = lambda f: (lambda scope, x: lift.jit(lambda sc, hk, x_: f(sc, x_))(scope, 'trace-key', x))
  for tname, tr in (('plain', lambda f: f), ('jit', core_jit), ('remat', lift.remat)):
    def top(scope, x):
      return [scope.child(tr(draw), n)(x) for n in ('p', 'q', 'pq')]
    res['evals'] += 1
    try:
      outs = core_apply(top)({}, x, rngs={'dropout': jax.random.key(5)})
    except Exception as e:  # noqa
      core.violation(res, f'passed-core-raises|{tname}', f'{type(e).__name__}: {e}'[:300], dict(t=tname))
      continue
    ks = [tuple(np.asarray(k).ravel().tolist()) for k in outs]
    if len(set(ks)) != len(ks):
      core.violation(res, f'passed-core-reuse|{tname}',
                     'child scopes with different names drew the same key under a lifted transform',
                     dict(transform=tname), observed=ks)
    core.outcome(res, f'passed-core:{tname}')
  res['samples'].append(dict(kind='passed'))


def _filtered(res):
  """A stream that is seeded at the top level but not lifted into a transform (rng filter
  'params' only) is a missing stream inside it: draws fall back to the params stream there, at
  the positions the params stream would be drawn, and still come from the stream outside."""
  import jax
  import jax.numpy as jnp
  x = jnp.ones((2,), jnp.float32)
  seeds = {'params': jax.random.key(1), 'dropout': jax.random.key(2)}
  bodies = [(('rng', 'dropout'),), (('rng', 'dropout'), ('rng', 'dropout')),
            (('rng', 'params'), ('rng', 'dropout')), (('param', 'p', 'k'), ('rng', 'dropout')),
            (('child', 'B', (('rng', 'dropout'),), None, 1), ('rng', 'dropout'))]
  swap = lambda b: tuple(
    ('rng', 'params') if st == ('rng', 'dropout') else
    (st[:2] + (swap(st[2]),) + st[3:] if st[0] == 'child' else st) for st in b)
  for tname in ('remat', 'checkpoint', 'jit'):
    for filt in ('params', ['params'], {'deny': 'dropout'}):
      tc = dsl.tcls(tname, 'A', rngs=filt)
      for body in bodies:
        for outer_draw in (False, True):
          pre = (('rng', 'dropout'),) if outer_draw else ()
          d = pre + (('child', tc, body, 'a', 1),) + pre
          dt = pre + (('child', tc, swap(body), 'a', 1),) + pre
          key = f'{tname}|{filt!r}|{body!r}|{outer_draw}'
          res['evals'] += 2
          res['transitions'] += 1
          try:
            oa, va = dsl.make('A', d).init_with_output(seeds, x)
          except Exception as e:  # noqa
            core.violation(res, f'filtered-raises|{key}',
                           f'drawing a stream that the transform does not lift raised '
                           f'{type(e).__name__}: {e}'[:300] + ' instead of falling back to params',
                           dict(transform=tname, rngs=jsonable(filt), body=dsl.tolist(body)))
            continue
          ob, vb = dsl.make('A', dt).init_with_output(seeds, x)
          ka = [tuple(np.asarray(k).ravel().tolist()) for k in oa['k']]
          kb = [tuple(np.asarray(k).ravel().tolist()) for k in ob['k']]
          if ka != kb or canon_tree(np_tree(va)) != canon_tree(np_tree(vb)):
            core.violation(res, f'filtered|{key}',
                           'inside a transform that lifts only params, a draw from another stream '
                           'does not yield what the params stream yields at that position',
                           dict(transform=tname, rngs=jsonable(filt), body=dsl.tolist(body)),
                           observed=ka, expected=kb)
          if len(set(ka)) != len(ka):
            core.violation(res, f'filtered-reuse|{key}', 'a key was handed out twice',
                           dict(transform=tname, body=dsl.tolist(body)), observed=ka)
          core.outcome(res, f'filtered:{tname}:ok')
          res['nontrivial'].append(core.h(key))
          res['states'] += 1
  res['samples'].append(dict(kind='filtered'))


def _order(d, seeds, fix):
  _observe(d, seeds, fix)
  return list(dsl.RNGLOG)


# ------------------------------------------------------------------------- NNX

NNX_ACTIONS = ['draw-default', 'draw-s1', 'draw-missing', 'split2', 'split-only-s1', 'with-split',
               'reseed-s1', 'splitmerge', 'draw-s2', 'reseed-s1-key']


def _nnx(res, unit):
  """BFS over histories; a state is the canonical per-stream (key, count)."""
  import jax
  import jax.numpy as jnp
  from flax import nnx
  depth = unit['depth']

  def kd(k):
    return tuple(np.asarray(jax.random.key_data(k)).reshape(-1).tolist())

  def canon(r):
    out = []
    for name in sorted(n for n in ('default', 's1', 's2')):
      st = getattr(r, name)
      out.append((name, kd(st.key.value), tuple(np.asarray(st.count.value).reshape(-1).tolist())))
    return tuple(out)

  def fresh():
    return nnx.Rngs(0, s1=1, s2=2)

  def step(r, a, used, log, origin):
    """Applies action a to r.  `used`: every key handed out so far (set of key data)."""
    def hand(k, what, stream=None):
      k = kd(k)
      log.append((what, k))
      if k in used:
        raise _Reuse(f'{what} returned a key that was already handed out')
      used.add(k)
      origin[k] = stream
      return k

    def draw(name):
      stream = getattr(r, name)
      exp = jax.random.fold_in(stream.key.value, stream.count.value)
      k = stream()
      if kd(k) != kd(exp):
        raise _Bad(f'draw from {name} is not fold_in(key, count) of that stream')
      hand(k, f'draw:{name}', name)

    if a == 'draw-default':
      draw('default')
    elif a == 'draw-s1':
      draw('s1')
    elif a == 'draw-s2':
      draw('s2')
    elif a == 'draw-missing':
      c0 = int(r.default.count.value)
      k = r.missing_stream()
      hand(k, 'draw:missing', 'default')
      if int(r.default.count.value) != c0 + 1:
        raise _Bad('a missing stream must use (and advance) the default stream')
    elif a in ('split2', 'split-only-s1', 'with-split'):
      only = 's1' if a == 'split-only-s1' else ...
      before = canon(r)
      consumed = {}
      for name in ('default', 's1', 's2'):
        st = getattr(r, name)
        consumed[name] = kd(jax.random.fold_in(st.key.value, st.count.value))

      def inner(rr):
        return rr.default(), rr.s1()
      if a == 'with-split':
        with nnx.split_rngs(r, splits=2, only=only):
          ks = nnx.vmap(inner, in_axes=(nnx.StateAxes({...: 0}),))(r)
      else:
        bk = nnx.split_rngs(r, splits=2, only=only)
        axes = nnx.StateAxes({'s1': 0, ...: None}) if a == 'split-only-s1' else \
            nnx.StateAxes({...: 0})
        ks = nnx.vmap(inner, in_axes=(axes,), out_axes=0)(r) if a != 'split-only-s1' else \
            nnx.vmap(lambda rr: rr.s1(), in_axes=(axes,), out_axes=0)(r)
        nnx.restore_rngs(bk)
      flat = jax.tree.leaves(ks)
      src = ['s1'] if a == 'split-only-s1' else ['default', 's1']
      seen_inner = set()
      for arr, name in zip(flat, src):
        for i in range(arr.shape[0]):
          v = kd(arr[i])
          if v in seen_inner:
            raise _Reuse('two indices of a split stream received the same key')
          seen_inner.add(v)
          hand(arr[i], 'inner', name)
      # the key that was split is spent: it must never be handed out later
      split_names = ('s1',) if a == 'split-only-s1' else ('default', 's1', 's2')
      for name in split_names:
        used.add(consumed[name])
        origin[consumed[name]] = name
      after = canon(r)
      for (n0, k0, c0), (n1, k1, c1) in zip(before, after):
        if k0 != k1:
          raise _Bad(f'restore did not bring back the key of stream {n0}')
        if n0 in split_names and c1 == c0:
          raise _Bad(f'stream {n0}: the counter was not advanced past the key consumed by the '
                     'split (the next draw would replay it)')
    elif a in ('reseed-s1', 'reseed-s1-key'):
      # the seed given as an int or as a key array: both restart the stream
      nnx.reseed(r, s1=7 if a == 'reseed-s1' else jax.random.key(7))
      ref = nnx.Rngs(s1=7)
      if kd(r.s1.key.value) != kd(ref.s1.key.value) or int(r.s1.count.value) != 0:
        raise _Bad('reseed did not restart the stream')
      # a reseeded stream legitimately repeats its own sequence: forget its keys
      used.difference_update({k for k, o in origin.items() if o == 's1'})
    elif a == 'splitmerge':
      g, s = nnx.split(r)
      r2 = nnx.merge(g, s)
      if canon(r2) != canon(r):
        raise _Bad('split/merge changed the rng state')
    else:
      raise AssertionError(a)

  seen = set()
  hists = []
  for L in range(1, depth + 1):
    for rest in itertools.product(range(len(NNX_ACTIONS)), repeat=L - 1):
      hists.append((unit['first'],) + rest)
  # BFS with canonical-state pruning is not sound for the "never reused" invariant (it depends
  # on the history), so all histories up to the depth are run; states are counted for evidence
  for hist in hists:
    r = fresh()
    used, log, origin = set(), [], {}
    names = [NNX_ACTIONS[i] for i in hist]
    try:
      for i in hist:
        res['transitions'] += 1
        step(r, NNX_ACTIONS[i], used, log, origin)
        c = canon(r)
        if c not in seen:
          seen.add(c)
          res['states'] += 1
    except (_Reuse, _Bad) as e:
      core.violation(res, f'nnx-{type(e).__name__.strip("_").lower()}|{names}', str(e),
                     dict(history=names))
      continue
    except Exception as e:  # noqa
      core.violation(res, f'nnx-raises|{names}', f'{type(e).__name__}: {str(e)[:200]}',
                     dict(history=names))
      continue
    # determinism: replaying the history gives the same keys
    res['evals'] += 1
    if len(hist) <= 3:
      r2 = fresh()
      u2, log2 = set(), []
      for i in hist:
        step(r2, NNX_ACTIONS[i], u2, log2, {})
      if log2 != log:
        core.violation(res, f'nnx-nondet|{names}', 'replaying the history gave different keys',
                       dict(history=names))
    core.outcome(res, f'nnx:ok:len={len(hist)}')
    if len(log) >= 2:
      res['nontrivial'].append(core.h(['nnx', hist]))
  res['samples'].append(dict(history=[NNX_ACTIONS[i] for i in hists[-1]]))


class _Reuse(Exception):
  pass


class _Bad(Exception):
  pass
