"""C06 — lifted scan / vmap / remat_scan equal the explicit loop / per-example
stack (DESIGN §4 C06).

Oracle: a Python loop over the *plain* body module applied to variables sliced
by the harness along the declared axes (axis collections), passed whole
(broadcast) or threaded (carry).  Integer-valued float32 data => bitwise.
"""
from __future__ import annotations

import itertools
import os

import numpy as np

from mc.engine import core
from mc.engine.canon import canon_tree, np_tree, jsonable
from mc.models import dsl

PROPERTY = 'C06'
LEVEL = 'exploration'
RULE = ('loop-body programs (param, count, acc, read, rng) x every assignment of the collections '
        'in play to {axis 0, axis 1, broadcast, carry} (scan) / {axis 0, axis 1, None} (vmap) x '
        'length/axis_size 1-3 x reverse x unroll x in/out axes {0,1,-1} x xs form {array, dict, '
        'broadcast} x check_constancy_invariants x split_rngs, init and apply; vmap with In(a) / '
        'Out(b) / plain-int collections for every (a, b, c) in {0,1}^3, n in {2,3}; remat_scan '
        'lengths {(2,),(2,2),(1,3)}. Non-trivial: at least one collection is scanned over or '
        'carried and the body updates a variable; distinct by configuration text')
ASSUMPTIONS = [
  'bodies that draw rng fold the key into their output: for them only the variable clauses and '
  'the per-iteration key clause are compared (split keys cannot be reproduced by the loop)',
  'carried collections are passed as mutable (an immutable carried collection is rejected by '
  'jax.lax.scan with a carry-structure error; outside the statement)',
  'writes to a broadcast collection inside the loop and initialisation of broadcast collections '
  'under check_constancy_invariants=False (documented as unsupported) are not asserted',
  'a carried collection cannot be created inside the loop (documented); init is enumerated '
  'over roles {axis, broadcast}, apply over all roles with harness-built variables',
  'None-axis (shared) collections under vmap are read-only in the bodies',
  'data are small integers in float32 (bitwise comparison)',
]

BODIES = [
  (('param', 'a', 's'),),
  (('param', 'a', 'v'), ('var', 'cnt', 'a', 'count')),
  (('var', 'stats', 'a', 'acc'), ('param', 'a', 's')),
  (('var', 'cnt', 'a', 'count'), ('var', 'stats', 'b', 'read'), ('param', 'b', 'v')),
  (('param', 'a', 's'), ('rng', 'dropout'), ('var', 'cnt', 'a', 'count')),
  (('param', 'a', 'm'), ('var', 'cnt', 'a', 'count')),     # rank-2 parameter: rank-3 when stacked
]


def bounds(tier):
  q = tier == 'quick'
  return dict(bodies=len(BODIES), lengths=[1, 2, 3] if not q else [1, 3],
              reverse=[False, True], unroll=[1, 2], axes=[0, 1, -1],
              remat_scan_lengths=[[2], [2, 2], [1, 3]])


def _cols(body):
  cols = []
  for st in body:
    c = 'params' if st[0] == 'param' else st[1] if st[0] == 'var' else None
    if c and c not in cols:
      cols.append(c)
  return cols


def _vector_only(body, col):
  """axis 1 needs rank >= 1 before stacking: only collections of vector params"""
  return col == 'params' and all(st[2] in ('v', 'm') for st in body if st[0] == 'param')


def units(tier, seed):
  us = []
  b = bounds(tier)
  for bi, body in enumerate(BODIES):
    cols = _cols(body)
    for roles in itertools.product(['ax0', 'ax1', 'bc', 'carry'], repeat=len(cols)):
      r = dict(zip(cols, roles))
      if any(v == 'ax1' and not _vector_only(body, c) for c, v in r.items()):
        continue
      us.append(dict(kind='scan', body=bi, roles=r))
    for roles in itertools.product(['ax0', 'ax1', 'none'], repeat=len(cols)):
      r = dict(zip(cols, roles))
      if any(v == 'ax1' and not _vector_only(body, c) for c, v in r.items()):
        continue
      us.append(dict(kind='vmap', body=bi, roles=r))
  for bi in range(len(BODIES)):
    us.append(dict(kind='remat_scan', body=bi))
  for with_st in (False, True):
    us.append(dict(kind='vmap_io', with_st=with_st))
  return us


def run_unit(unit):
  res = core.new_result()
  {'scan': _scan, 'vmap': _vmap, 'remat_scan': _remat_scan, 'vmap_io': _vmap_io}[unit['kind']](res, unit)
  return res


# ---------------------------------------------------------------------------
# body modules


def _mods():
  import flax.linen as nn

  class ScanBody(nn.Module):
    d: tuple = ()
    ki: bool = False

    @nn.compact
    def __call__(self, c, xs):
      if isinstance(xs, dict):
        inp = c + xs['u'] + 2.0 * xs['v']
      elif xs.ndim == 2:        # rank-2 slice (rank-3 operand scanned over a middle / last axis)
        inp = c + xs @ np.array([1.0, 2.0], np.float32)
      else:
        inp = c + xs
      o = dsl._compact_call(self, inp)
      ks = o['k']
      kk = np.zeros((0, 2), np.uint32) if not ks else __import__('jax').numpy.stack(ks)
      z = o['x'][:, None] * np.array([[1.0, 2.0, 3.0]], np.float32)   # rank-2 output per step
      return o['x'], {'y': o['x'] * 2.0 + 1.0, 'z': z, 'k': kk}

  class Chain(nn.Module):
    d: tuple = ()
    ki: bool = False

    @nn.compact
    def __call__(self, x):
      return dsl._compact_call(self, x)['x']

  return ScanBody, Chain


_M = None


def M():
  global _M
  if _M is None:
    _M = _mods()
  return _M


def _kind(e):
  from mc.checks.c01 import _err_kind
  return _err_kind(e)


def _axis(role):
  return {'ax0': 0, 'ax1': 1}.get(role)


def _mk_vars(plain_init, roles, L):
  """Variables for apply: axis collections get one distinct slice per iteration
  stacked along the declared axis; broadcast / carry collections a single copy."""
  out = {}
  per_iter = []
  for i in range(L):
    per_iter.append({c: _shift(v, i) for c, v in plain_init.items()})
  for c, v in plain_init.items():
    ax = _axis(roles.get(c, 'bc'))
    if ax is None:
      out[c] = v
    else:
      out[c] = _stack([p[c] for p in per_iter], ax)
  return out


def _shift(tree, i):
  if isinstance(tree, dict):
    return {k: _shift(v, i) for k, v in tree.items()}
  return np.asarray(tree) + np.float32(i)


def _stack(trees, ax):
  t0 = trees[0]
  if isinstance(t0, dict):
    return {k: _stack([t[k] for t in trees], ax) for k in t0}
  a0 = np.asarray(t0)
  return np.stack([np.asarray(t) for t in trees], axis=min(ax, a0.ndim))


def _slice(tree, ax, i):
  if isinstance(tree, dict):
    return {k: _slice(v, ax, i) for k, v in tree.items()}
  a = np.asarray(tree)
  return np.take(a, i, axis=min(ax, a.ndim - 1))


def _loop(body, variables, roles, c0, xs_list, order, mutable_cols, rngs_for):
  """The reference: Python loop over the plain body."""
  import jax
  import jax.numpy as jnp
  ScanBody, _ = M()
  L = len(xs_list)
  cur = {c: v for c, v in variables.items()}
  new_slices = {c: [None] * L for c in variables if _axis(roles.get(c, 'bc')) is not None}
  ys = [None] * L
  c = c0
  for i in order:
    vi = {}
    for col, v in cur.items():
      ax = _axis(roles.get(col, 'bc'))
      vi[col] = _slice(v, ax, i) if ax is not None else v
    mut = [col for col in mutable_cols if col in vi]
    r = ScanBody(d=body).apply(jax.tree.map(jnp.asarray, vi), c, xs_list[i],
                               rngs=rngs_for(i), mutable=mut if mut else False)
    if mut:
      (c, y), upd = r
    else:
      (c, y), upd = r, {}
    ys[i] = y
    for col in vi:
      ax = _axis(roles.get(col, 'bc'))
      val = np_tree(upd[col]) if col in upd else vi[col]
      if ax is not None:
        new_slices[col][i] = val
      elif col in upd:
        cur[col] = val      # carry (broadcast collections are immutable inside)
  final = {}
  for col, v in cur.items():
    ax = _axis(roles.get(col, 'bc'))
    final[col] = _stack(new_slices[col], ax) if ax is not None else v
  return c, ys, final


def _scan(res, unit):
  import jax
  import jax.numpy as jnp
  import flax.linen as nn
  ScanBody, _ = M()
  tier = os.environ.get('VERIF_TIER', 'quick')
  seed = int(os.environ.get('VERIF_SEED', '0'))
  body = BODIES[unit['body']]
  roles = unit['roles']
  cols = _cols(body)
  has_rng = dsl.has(body, lambda st: st[0] == 'rng')
  writes = {st[1] for st in body if st[0] == 'var' and st[3] in ('count', 'acc')}
  key_rngs = {'params': jax.random.key(1), 'dropout': jax.random.key(2)}
  b = bounds(tier)
  configs = []
  if tier == 'quick':
    lru = [(3, False, 1), (3, True, 1), (3, False, 2), (1, False, 1)]
  else:
    lru = [(L, r, u) for L in b['lengths'] for r in b['reverse']
           for u in (b['unroll'] if L > 1 else [1])]
  for (L, reverse, unroll) in lru:
    if True:
      if True:
        for xform in ('arr0', 'arr1', 'arr-1', 'dict', 'bcast', 'r3ax1', 'r3ax-1'):
          for oax in ((0, 1, -1) if xform == 'arr0' else (0,)):
            for cci in ((True, False) if (xform == 'arr0' and oax == 0) else (True,)):
              for split in ((True, False) if has_rng and xform == 'arr0' and oax == 0 else (True,)):
                configs.append((L, reverse, unroll, xform, oax, cci, split))
  plain_init = np_tree(ScanBody(d=body).init(key_rngs, jnp.zeros((2,)), jnp.zeros((2,))))
  for (L, reverse, unroll, xform, oax, cci, split) in configs:
    # one (L, reverse, unroll) combination per operand form leaves `length` to be inferred from
    # the operands' scan axes (every other combination passes it explicitly)
    infer = xform != 'bcast' and L == 3 and not reverse and unroll == 1
    cfg = dict(body=unit['body'], roles=roles, L=L, reverse=reverse, unroll=unroll, xs=xform,
               out_axis=oax, check_constancy=cci, split=split)
    if infer:
      cfg['length'] = 'inferred'
    key = repr(sorted(cfg.items()))
    xs_arr = (np.arange(L * 2, dtype=np.float32).reshape(L, 2) % 3) + 1 + (seed % 2)
    if xform == 'arr0':
      xs, in_axes, xs_list = xs_arr, 0, [xs_arr[i] for i in range(L)]
    elif xform == 'arr1':
      xs, in_axes, xs_list = xs_arr.T.copy(), 1, [xs_arr[i] for i in range(L)]
    elif xform == 'arr-1':
      xs, in_axes, xs_list = xs_arr.T.copy(), -1, [xs_arr[i] for i in range(L)]
    elif xform in ('r3ax1', 'r3ax-1'):
      x3 = np.stack([xs_arr, xs_arr * 2 + 1], axis=-1)          # (L, 2, 2)
      xs_list = [x3[i] for i in range(L)]
      if xform == 'r3ax1':
        xs, in_axes = np.moveaxis(x3, 0, 1).copy(), 1           # (2, L, 2)
      else:
        xs, in_axes = np.moveaxis(x3, 0, 2).copy(), -1          # (2, 2, L)
    elif xform == 'dict':
      xs = {'u': xs_arr, 'v': (xs_arr.T * 2).copy()}
      in_axes = ({'u': 0, 'v': 1},)
      xs_list = [{'u': xs_arr[i], 'v': xs_arr[i] * 2} for i in range(L)]
    else:
      xs, in_axes, xs_list = np.array([1., 2.], np.float32), nn.broadcast, \
          [np.array([1., 2.], np.float32)] * L
    c0 = np.array([1., 0.], np.float32)
    vaxes = {c: _axis(r) for c, r in roles.items() if _axis(r) is not None}
    vbc = [c for c, r in roles.items() if r == 'bc']
    vcarry = [c for c, r in roles.items() if r == 'carry']
    S = nn.scan(ScanBody, variable_axes=vaxes, variable_broadcast=vbc or False,
                variable_carry=vcarry or False,
                split_rngs={'params': True, 'dropout': bool(split)},
                in_axes=in_axes, out_axes=oax, length=None if infer else L, reverse=reverse,
                unroll=unroll, check_constancy_invariants=cci)
    order = list(range(L))[::-1] if reverse else list(range(L))
    jx = lambda t: jax.tree.map(jnp.asarray, t)

    def V(tag, what, **kw):
      core.violation(res, f'scan-{tag}|{key}', what, dict(cfg, **{k: jsonable(v)
                                                                  for k, v in kw.items()}))

    # ---------------- apply with harness-built variables --------------------------
    variables = _mk_vars(plain_init, roles, L)
    carry_cols = sorted(c for c, r in roles.items() if r == 'carry')
    muts = [sorted(set(writes) | set(carry_cols))]
    if not carry_cols:
      muts.insert(0, [])     # carried collections are always passed as mutable
    # broadcast collections that the body only reads, passed as mutable: first the non-params
    # ones (a broadcast group of mixed mutability), then all of them
    ro_bc = [c for c, r in roles.items() if r == 'bc' and c not in writes]
    for extra in ([c for c in ro_bc if c != 'params'], ro_bc):
      m2 = sorted(set(muts[-1]) | set(extra))
      if extra and m2 not in muts:
        muts.append(m2)
    for mut in muts:
      bc_written = [c for c in mut if roles.get(c) == 'bc' and c in writes]
      res['evals'] += 1
      err = None
      try:
        r = S(d=body).apply(jx(variables), jnp.asarray(c0), jx(xs),
                            rngs={'dropout': key_rngs['dropout']},
                            mutable=mut if mut else False)
      except Exception as e:  # noqa
        err = e
      if bc_written:
        # updating a broadcast collection inside the loop is not described by the
        # statement (flax keeps loop-invariant updates and rejects data-dependent ones)
        core.outcome(res, 'scan:broadcast-write-' + ('raises' if err else 'returned'))
        continue
      if err is not None:
        V('apply-raises', f'scan apply raised {type(err).__name__}: {str(err)[:200]}', mutable=mut)
        continue
      if mut:
        (cT, yT), updT = r
      else:
        (cT, yT), updT = r, {}
      cL, ysL, finalL = _loop(body, variables, roles, c0, xs_list, order, mut,
                              lambda i: {'dropout': key_rngs['dropout']})
      if not has_rng and canon_tree(np.asarray(cT)) != canon_tree(np.asarray(cL)):
        V('carry', 'final carry differs from the Python loop', mutable=mut,
          observed=cT, expected=cL)
      yL = np.stack([np.asarray(y['y']) for y in ysL], axis=oax if oax >= 0 else 1)  # y rank 1
      if not has_rng and canon_tree(np.asarray(yT['y'])) != canon_tree(yL):
        V('ys', 'stacked outputs differ from the Python loop (order / axis)', mutable=mut,
          observed=yT['y'], expected=yL)
      for col in mut:
        if col in updT or col in finalL:
          if canon_tree(np_tree(updT.get(col))) != canon_tree(finalL.get(col)):
            V('vars', f'collection {col} after the scan differs from the loop', mutable=mut,
              observed=np_tree(updT.get(col)), expected=finalL.get(col))
      zL = np.stack([np.asarray(y['z']) for y in ysL], axis=oax if oax >= 0 else 2)
      if not has_rng and canon_tree(np.asarray(yT['z'])) != canon_tree(zL):
        V('zs', 'stacked rank-2 outputs differ from the Python loop (axis placement)',
          mutable=mut, observed=yT['z'], expected=zL)
      if has_rng:
        kk = np.asarray(yT['k'])
        kk = np.moveaxis(kk, oax % kk.ndim, 0) if kk.ndim == 3 else kk
        per_iter = [tuple(map(tuple, kk[i].tolist())) for i in range(L)]
        if split and len(set(per_iter)) != L:
          V('rng-split', 'split rng stream: two iterations received the same key',
            observed=per_iter)
        if not split and len(set(per_iter)) != 1:
          V('rng-unsplit', 'unsplit rng stream: iterations received different keys',
            observed=per_iter)
      core.outcome(res, f'scan:apply-ok:mut={bool(mut)}')
    # ---------------- init (roles axis / broadcast only) ---------------------------
    if 'carry' not in roles.values() and not (not cci and 'bc' in roles.values()):
      # check_constancy_invariants=False documents that broadcast outputs are unsupported:
      # initialising a broadcast collection is only enumerated with the default (True)
      res['evals'] += 1
      try:
        (cI, yI), vI = S(d=body).init_with_output(key_rngs, jnp.asarray(c0), jx(xs))
      except Exception as e:  # noqa
        bcw = any(st[0] == 'var' and roles.get(st[1]) == 'bc' and st[3] in ('acc', 'count')
                  for st in body)
        if not bcw:
          V('init-raises', f'scan init raised {type(e).__name__}: {str(e)[:200]}')
        core.outcome(res, 'scan:init-raises')
        continue
      bcw = any(st[0] == 'var' and roles.get(st[1]) == 'bc' and st[3] in ('acc', 'count')
                for st in body)
      if bcw:
        core.outcome(res, 'scan:init-broadcast-write-returned')
        continue
      # reference: per-iteration plain init, threaded
      zero = {c: None for c in cols}
      c = c0
      slices = {col: [None] * L for col in cols if _axis(roles[col]) is not None}
      shared = {}
      ys = [None] * L
      for i in order:
        vi = dict(shared)
        (c, y), vnew = ScanBody(d=body).apply(jx(vi), c, xs_list[i], rngs=key_rngs,
                                              mutable=True)
        ys[i] = y
        vnew = np_tree(vnew)
        for col in cols:
          if col not in vnew:
            continue
          if _axis(roles[col]) is not None:
            slices[col][i] = vnew[col]
          else:
            shared.setdefault(col, vnew[col])   # broadcast: initialised once
      exp = dict(shared)
      for col, sl in slices.items():
        if all(s is not None for s in sl):
          exp[col] = _stack(sl, _axis(roles[col]))
      if canon_tree(np_tree(vI)) != canon_tree(exp):
        V('init-vars', 'variables initialised under scan differ from the per-iteration '
          'construction (stack along the declared axis, broadcast initialised once)',
          observed=np_tree(vI), expected=exp)
      if not has_rng and canon_tree(np.asarray(cI)) != canon_tree(np.asarray(c)):
        V('init-carry', 'init: final carry differs from the loop')
      core.outcome(res, 'scan:init-ok')
    if any(_axis(r) is not None or r == 'carry' for r in roles.values()) and writes:
      res['nontrivial'].append(core.h(['scan', key]))
  res['samples'].append(dict(kind='scan', body=dsl.tolist(body), roles=roles,
                             configs=len(configs)))


def _vmap(res, unit):
  import jax
  import jax.numpy as jnp
  import flax.linen as nn
  tier = os.environ.get('VERIF_TIER', 'quick')
  seed = int(os.environ.get('VERIF_SEED', '0'))
  body = BODIES[unit['body']]
  roles = unit['roles']
  cols = _cols(body)
  has_rng = dsl.has(body, lambda st: st[0] == 'rng')
  writes = {st[1] for st in body if st[0] == 'var' and st[3] in ('count', 'acc')}
  key_rngs = {'params': jax.random.key(1), 'dropout': jax.random.key(2)}
  plain_init = np_tree(dsl.A(d=body).init(key_rngs, jnp.zeros((2,))))
  jx = lambda t: jax.tree.map(jnp.asarray, t)
  for n in bounds(tier)['lengths']:
    for iax, oax in ((0, 0), (1, 0), (0, 1), (-1, -1)):
      for split in ((True, False) if has_rng else (True,)):
        cfg = dict(body=unit['body'], roles=roles, n=n, in_axis=iax, out_axis=oax, split=split)
        key = repr(sorted(cfg.items()))

        def V(tag, what, **kw):
          core.violation(res, f'vmap-{tag}|{key}', what, dict(cfg, **{k: jsonable(v)
                                                                      for k, v in kw.items()}))
        xs_arr = (np.arange(n * 2, dtype=np.float32).reshape(n, 2) % 3) + 1 + (seed % 2)
        x = xs_arr if iax == 0 else xs_arr.T.copy()
        vaxes = {c: _axis(r) for c, r in roles.items()}
        Vm = nn.vmap(dsl.A, variable_axes=vaxes,
                     split_rngs={'params': True, 'dropout': bool(split)},
                     in_axes=iax, out_axes=oax, axis_size=n)
        rl = {c: ('bc' if r == 'none' else r) for c, r in roles.items()}
        variables = _mk_vars(plain_init, rl, n)
        shared_written = [c for c in writes if roles.get(c) == 'none']
        for mut in ([], sorted(writes)):
          if any(c in shared_written for c in mut):
            continue
          res['evals'] += 1
          try:
            r = Vm(d=body).apply(jx(variables), jnp.asarray(x),
                                 rngs={'dropout': key_rngs['dropout']},
                                 mutable=mut if mut else False)
          except Exception as e:  # noqa
            V('apply-raises', f'vmap apply raised {type(e).__name__}: {str(e)[:200]}', mutable=mut)
            continue
          oT, updT = (r if mut else (r, {}))
          outs, news = [], {c: [] for c in mut}
          for i in range(n):
            vi = {c: (_slice(v, _axis(rl[c]), i) if _axis(rl[c]) is not None else v)
                  for c, v in variables.items()}
            ri = dsl.A(d=body).apply(jx(vi), jnp.asarray(xs_arr[i]),
                                     rngs={'dropout': key_rngs['dropout']},
                                     mutable=mut if mut else False)
            oi, ui = (ri if mut else (ri, {}))
            outs.append(np.asarray(oi['x']))
            for c in mut:
              news[c].append(np_tree(ui[c]))
          exp = np.stack(outs, axis=oax if oax >= 0 else 1)
          if not has_rng and canon_tree(np.asarray(oT['x'])) != canon_tree(exp):
            V('out', 'vmap output differs from the per-index stack', mutable=mut,
              observed=oT['x'], expected=exp)
          for c in mut:
            ec = _stack(news[c], _axis(rl[c]))
            if canon_tree(np_tree(updT.get(c))) != canon_tree(ec):
              V('vars', f'collection {c} after vmap differs from the per-index stack',
                mutable=mut, observed=np_tree(updT.get(c)), expected=ec)
          if has_rng and oT['k']:
            kk = np.asarray(oT['k'][0])
            # key data (2 words) stacked along the out axis: index axis first (the shape alone
            # cannot tell the two axes apart when n == 2)
            kk = np.moveaxis(kk, oax % kk.ndim, 0) if kk.ndim == 2 else kk
            per = [tuple(kk[i].tolist()) for i in range(n)]
            if split and len(set(per)) != n:
              V('rng-split', 'split stream: two indices received the same key', observed=per)
            if not split and len(set(per)) != 1:
              V('rng-unsplit', 'unsplit stream: indices received different keys', observed=per)
          core.outcome(res, f'vmap:apply-ok:mut={bool(mut)}')
        # init: all axis collections stacked, None collections initialised once
        res['evals'] += 1
        try:
          oI, vI = Vm(d=body).init_with_output(key_rngs, jnp.asarray(x))
        except Exception as e:  # noqa
          if not shared_written:
            V('init-raises', f'vmap init raised {type(e).__name__}: {str(e)[:200]}')
          core.outcome(res, 'vmap:init-raises')
          continue
        if shared_written:
          core.outcome(res, 'vmap:init-shared-written')
          continue
        exp = {}
        pin = []
        for i in range(n):
          _, vnew = dsl.A(d=body).init_with_output(key_rngs, jnp.asarray(xs_arr[i]))
          pin.append(np_tree(vnew))
        for c in pin[0]:
          ax = _axis(rl[c])
          exp[c] = _stack([p[c] for p in pin], ax) if ax is not None else pin[0][c]
        if canon_tree(np_tree(vI)) != canon_tree(exp):
          V('init-vars', 'variables initialised under vmap differ from the per-index stack',
            observed=np_tree(vI), expected=exp)
        if any(_axis(r) is not None for r in rl.values()):
          res['nontrivial'].append(core.h(['vmap', key]))
  res['samples'].append(dict(kind='vmap', body=dsl.tolist(body), roles=roles))


def _vmap_io(res, unit):
  """variable_axes with the In / Out markers: an In(a) collection is sliced along a and not
  returned, an Out(b) collection is created inside and stacked along b, a plain-int collection
  is both; every (a, b, c) x n x in/out axis of the argument, against the per-index loop."""
  import jax
  import jax.numpy as jnp
  import flax.linen as nn
  from flax.core import lift
  with_st = unit['with_st']
  seed = int(os.environ.get('VERIF_SEED', '0'))

  class Body(nn.Module):
    @nn.compact
    def __call__(self, x):
      t = self.variable('tab', 't', lambda: jnp.zeros((2,), jnp.float32)).value
      y = x * t + 1.0
      if with_st:
        sv = self.variable('st', 's', lambda: jnp.zeros((2,), jnp.float32))
        if self.is_mutable_collection('st'):
          sv.value = sv.value + y
        y = y + sv.value
      self.variable('memo', 'm', lambda: y * 2.0 + jnp.asarray([0.0, 1.0], jnp.float32))
      return y

  for n in (2, 3):
    base = (np.arange(n * 2, dtype=np.float32).reshape(n, 2) % 3) + 1 + (seed % 2)
    tab = (np.arange(n * 2, dtype=np.float32).reshape(n, 2) % 4) + 2
    st0 = (np.arange(n * 2, dtype=np.float32).reshape(n, 2) % 2) + 1
    for a, b, c in itertools.product((0, 1), (0, 1), (0, 1) if with_st else (None,)):
      for iax, oax in ((0, 0), (1, 0), (0, 1)):
        cfg = dict(n=n, tab_in=a, memo_out=b, st_axis=c, in_axis=iax, out_axis=oax)
        key = repr(sorted(cfg.items()))
        vaxes = {'tab': lift.In(a), 'memo': lift.Out(b)}
        if with_st:
          vaxes['st'] = c
        Vm = nn.vmap(Body, variable_axes=vaxes, split_rngs={'params': False},
                     in_axes=iax, out_axes=oax, axis_size=n)
        variables = {'tab': {'t': jnp.asarray(tab if a == 0 else tab.T.copy())}}
        mut = ['memo']
        if with_st:
          variables['st'] = {'s': jnp.asarray(st0 if c == 0 else st0.T.copy())}
          mut = ['memo', 'st']
        x = base if iax == 0 else base.T.copy()
        res['evals'] += 1 + n
        try:
          oT, updT = Vm().apply(variables, jnp.asarray(x), mutable=mut)
        except Exception as e:  # noqa
          core.violation(res, f'vmap-io-raises|{key}', f'{type(e).__name__}: {str(e)[:200]}', cfg)
          continue
        outs, memos, sts = [], [], []
        for i in range(n):
          vi = {'tab': {'t': jnp.asarray(tab[i])}}
          if with_st:
            vi['st'] = {'s': jnp.asarray(st0[i])}
          oi, ui = Body().apply(vi, jnp.asarray(base[i]), mutable=mut)
          outs.append(np.asarray(oi))
          memos.append(np.asarray(ui['memo']['m']))
          if with_st:
            sts.append(np.asarray(ui['st']['s']))
        if canon_tree(np.asarray(oT)) != canon_tree(np.stack(outs, axis=oax)):
          core.violation(res, f'vmap-io-out|{key}', 'output differs from the per-index stack', cfg,
                         observed=jsonable(oT), expected=jsonable(np.stack(outs, axis=oax)))
        if 'tab' in updT:
          core.violation(res, f'vmap-io-in-returned|{key}', 'an In(...) collection was returned', cfg)
        em = np.stack(memos, axis=b)
        gm = updT.get('memo', {}).get('m')
        if gm is None or canon_tree(np.asarray(gm)) != canon_tree(em):
          core.violation(res, f'vmap-io-memo|{key}',
                         'the Out(b) collection is not the per-index values stacked along b', cfg,
                         observed=jsonable(gm), expected=jsonable(em))
        if with_st:
          es = np.stack(sts, axis=c)
          gs = updT.get('st', {}).get('s')
          if gs is None or canon_tree(np.asarray(gs)) != canon_tree(es):
            core.violation(res, f'vmap-io-st|{key}',
                           'the plain-axis collection is not the per-index updates stacked along c',
                           cfg, observed=jsonable(gs), expected=jsonable(es))
        # second call with the Out collection of the first call present among the inputs: an
        # Out(...) collection is not lifted in, every index starts without it
        res['evals'] += 1 + n
        base2 = base * 2.0 + 1.0
        x2 = base2 if iax == 0 else base2.T.copy()
        v2 = dict(variables, memo=jax.tree.map(jnp.asarray, np_tree(updT.get('memo', {}))))
        try:
          _, upd2 = Vm().apply(v2, jnp.asarray(x2), mutable=mut)
        except Exception as e:  # noqa
          core.violation(res, f'vmap-io-second-raises|{key}', f'{type(e).__name__}: {str(e)[:200]}', cfg)
          continue
        memos2 = []
        for i in range(n):
          vi = {'tab': {'t': jnp.asarray(tab[i])}}
          if with_st:
            vi['st'] = {'s': jnp.asarray(st0[i])}
          _, ui = Body().apply(vi, jnp.asarray(base2[i]), mutable=mut)
          memos2.append(np.asarray(ui['memo']['m']))
        gm2 = upd2.get('memo', {}).get('m')
        if gm2 is None or canon_tree(np.asarray(gm2)) != canon_tree(np.stack(memos2, axis=b)):
          core.violation(res, f'vmap-io-memo-second|{key}',
                         'with the Out(b) collection of an earlier call among the inputs, the '
                         'collection is not what the per-index calls (which never see it) produce',
                         cfg, observed=jsonable(gm2), expected=jsonable(np.stack(memos2, axis=b)))
        core.outcome(res, f'vmap-io:ok:st={with_st}')
        res['nontrivial'].append(core.h(['vmap_io', key]))
  res['samples'].append(dict(kind='vmap_io', with_st=with_st))


def _remat_scan(res, unit):
  import jax
  import jax.numpy as jnp
  import flax.linen as nn
  _, Chain = M()
  body = tuple(st for st in BODIES[unit['body']] if st[0] != 'rng')
  key_rngs = {'params': jax.random.key(1)}
  x = jnp.asarray([1., 2.], jnp.float32)
  jx = lambda t: jax.tree.map(jnp.asarray, t)
  writes = sorted({st[1] for st in body if st[0] == 'var' and st[3] in ('count', 'acc')})
  for lengths in bounds('quick')['remat_scan_lengths']:
    cfg = dict(body=unit['body'], lengths=lengths)
    key = repr(sorted(cfg.items()))
    RS = nn.remat_scan(Chain, lengths=tuple(lengths))
    res['evals'] += 1
    try:
      oT, vT = RS(d=body).init_with_output(key_rngs, x)
    except Exception as e:  # noqa
      core.violation(res, f'remat_scan-init-raises|{key}',
                     f'remat_scan init raised {type(e).__name__}: {str(e)[:200]}', cfg)
      continue
    n = int(np.prod(lengths))
    c = x
    inits = []
    for i in range(n):
      c, vnew = Chain(d=body).init_with_output(key_rngs, c)
      inits.append(np_tree(vnew))
    exp = {}
    for col in inits[0]:
      st = _stack([p[col] for p in inits], 0)
      exp[col] = jax.tree.map(lambda a: a.reshape(tuple(lengths) + a.shape[1:]), st)
    if canon_tree(np_tree(vT)) != canon_tree(exp):
      core.violation(res, f'remat_scan-init-vars|{key}',
                     'remat_scan init variables differ from the chained loop (stack reshaped to '
                     'lengths)', cfg, observed=jsonable(np_tree(vT)), expected=jsonable(exp))
    if canon_tree(np.asarray(oT)) != canon_tree(np.asarray(c)):
      core.violation(res, f'remat_scan-init-out|{key}',
                     'remat_scan output differs from the chained loop', cfg)
    # apply with distinct per-layer values
    variables = jax.tree.map(
      lambda a: (np.asarray(a) + np.arange(n, dtype=np.float32).reshape(
        tuple(lengths) + (1,) * (np.asarray(a).ndim - len(lengths)))), exp)
    for mut in ([], writes):
      res['evals'] += 1
      try:
        r = RS(d=body).apply(jx(variables), x, mutable=mut if mut else False)
      except Exception as e:  # noqa
        core.violation(res, f'remat_scan-apply-raises|{key}|{mut}',
                       f'{type(e).__name__}: {str(e)[:200]}', cfg)
        continue
      oA, updA = (r if mut else (r, {}))
      c = x
      news = {cname: [] for cname in mut}
      for i in range(n):
        idx = np.unravel_index(i, tuple(lengths))
        vi = jax.tree.map(lambda a: np.asarray(a)[idx], variables)
        ri = Chain(d=body).apply(jx(vi), c, mutable=mut if mut else False)
        c, ui = (ri if mut else (ri, {}))
        for cname in mut:
          news[cname].append(np_tree(ui[cname]))
      if canon_tree(np.asarray(oA)) != canon_tree(np.asarray(c)):
        core.violation(res, f'remat_scan-apply-out|{key}|{mut}',
                       'remat_scan apply output differs from the chained loop', cfg)
      for cname in mut:
        st = _stack(news[cname], 0)
        e = jax.tree.map(lambda a: a.reshape(tuple(lengths) + a.shape[1:]), st)
        if canon_tree(np_tree(updA.get(cname))) != canon_tree(e):
          core.violation(res, f'remat_scan-apply-vars|{key}|{cname}',
                         f'collection {cname} after remat_scan differs from the loop', cfg)
      core.outcome(res, 'remat_scan:ok')
    res['nontrivial'].append(core.h(['rs', key]))
    # --- explicit roles: one collection carried or broadcast, the others on axis 0 -----------
    cols = _cols(body)
    single = inits[0]
    for special in cols:
      for role in ('carry', 'bc'):
        if role == 'bc' and special in writes:
          continue       # a written broadcast collection is not described by the statement
        if role == 'carry' and special == 'params' and False:
          continue
        axes_cols = [c for c in cols if c != special]
        vars2 = {}
        for c in cols:
          if c == special:
            vars2[c] = single[c]
          else:
            vars2[c] = jax.tree.map(
              lambda a: (np.stack([np.asarray(a)] * n).reshape(tuple(lengths) + np.shape(a)) +
                         np.arange(n, dtype=np.float32).reshape(
                           tuple(lengths) + (1,) * np.ndim(a))), single[c])
        kw = dict(variable_axes={c: 0 for c in axes_cols} or {'__none__': 0},
                  split_rngs={'params': True})
        if role == 'carry':
          kw['variable_carry'] = special
        else:
          kw['variable_broadcast'] = special
        RS2 = nn.remat_scan(Chain, lengths=tuple(lengths), **kw)
        mut = sorted(set(writes) | ({special} if role == 'carry' else set()))
        k2 = f'{key}|{special}={role}'
        res['evals'] += 1
        try:
          r = RS2(d=body).apply(jx(vars2), x, mutable=mut if mut else False)
        except Exception as e:  # noqa
          core.violation(res, f'remat_scan-roles-raises|{k2}',
                         f'remat_scan({special}={role}) raised {type(e).__name__}: '
                         f'{str(e)[:200]}', dict(cfg, special=special, role=role))
          continue
        oA, updA = (r if mut else (r, {}))
        c = x
        cur = dict(vars2)
        news = {cn: [] for cn in mut if cn != special}
        for i in range(n):
          idx = np.unravel_index(i, tuple(lengths))
          vi = {cn: (cur[cn] if cn == special else jax.tree.map(lambda a: np.asarray(a)[idx],
                                                                cur[cn])) for cn in cols}
          ri = Chain(d=body).apply(jx(vi), c, mutable=mut if mut else False)
          c, ui = (ri if mut else (ri, {}))
          for cn in mut:
            if cn == special:
              cur[cn] = np_tree(ui[cn])
            else:
              news[cn].append(np_tree(ui[cn]))
        if canon_tree(np.asarray(oA)) != canon_tree(np.asarray(c)):
          core.violation(res, f'remat_scan-roles-out|{k2}',
                         f'remat_scan({special}={role}) output differs from the chained loop',
                         dict(cfg, special=special, role=role))
        if role == 'carry' and canon_tree(np_tree(updA.get(special))) != canon_tree(cur[special]):
          core.violation(res, f'remat_scan-roles-carry|{k2}',
                         f'carried collection {special} after remat_scan differs from the loop',
                         dict(cfg, special=special, role=role),
                         observed=jsonable(np_tree(updA.get(special))),
                         expected=jsonable(cur[special]))
        for cn, lst in news.items():
          e = jax.tree.map(lambda a: a.reshape(tuple(lengths) + a.shape[1:]), _stack(lst, 0))
          if canon_tree(np_tree(updA.get(cn))) != canon_tree(e):
            core.violation(res, f'remat_scan-roles-vars|{k2}|{cn}',
                           f'collection {cn} after remat_scan differs from the loop',
                           dict(cfg, special=special, role=role))
        core.outcome(res, f'remat_scan:roles-ok:{role}')
        res['nontrivial'].append(core.h(['rs-roles', k2]))
  res['samples'].append(dict(kind='remat_scan', body=dsl.tolist(body)))
