"""C04 — NNX transforms keep Python reference semantics (DESIGN §4 C04).

Functions are *edit programs* (sequences of ops from mc/models/c04_edits.py)
applied to argument tuples drawn from a family of base graphs.  Each program
is wrapped once per transform (`nnx.jit`, `nnx.remat`,
`nnx.cached_partial(nnx.jit(f), obj)`, and for value-only programs `nnx.cond`,
`nnx.switch`, `nnx.while_loop`, `nnx.fori_loop`) and driven through call
histories: the *same* transformed function is called up to 3 times, with a
between-call action (nothing / value change / static change / new attribute /
structurally different graph) applied to the caller's objects in between, so
trace-cache hits and misses both occur (a Python counter in the body records
traces).  One transformed function is shared by all graphs and histories of a
program: sound, because the oracle never looks at the cache — it is the same
Python body run eagerly on a structurally identical fresh copy after the same
history — and it makes the cache state richer (hits on structures first seen
with *other* objects).

Compared after every call: (1) return value; (2) canonical form of all
argument graphs; (3) the labelled canonical form (every pre-existing node /
Variable of the caller sits where the eager run leaves it, new objects are new,
aliasing holds between the caller's own objects); (4) loops vs the Python
loop; (5) aliased arguments; (6) control flow + structural edit must raise or
agree with eager; cached_partial: a net structure change of the cached node
must raise ValueError, anything else must agree with eager run on the
documented clone model; (7) follows from (1)-(3) on cache hits.
"""
from __future__ import annotations

import os

import numpy as np

from mc.engine import core
from mc.models import c04_edits as E

PROPERTY = 'C04'
LEVEL = 'model_checking'
RULE = ('edit programs = all sequences up to the tier length over the op alphabet '
        '{value update, static set, add Variable, delete, rebind to a node/Variable of any '
        'argument, new sub-object, swap, self-reference} x base argument graphs {one, cyclic, '
        'two disjoint, same object twice, shared sub-node, shared Variable, object + its bare '
        'Variable, ...} x transform x every call history (between-call actions nothing / value '
        '/ static / new attribute / different graph); a state is (canonical structure of the '
        'argument graphs after the call incl. identity partition, set of argument structures '
        'the transformed function has been called with); a transition is one transformed call '
        'compared with the eager run; a history is non-trivial when the eager program changes '
        'the canonical form of the arguments (values or structure) in at least one call; '
        'distinct = distinct (transform, program, family, history)')
ASSUMPTIONS = [
  'programs are those expressible in the op alphabet; data are integer-valued float32 scalars',
  'effects are observed from the argument roots and the returned value: objects a program '
  'detaches from every argument are not observed',
  'Variable metadata edits are not in the alphabet (nnx.jit does not propagate them)',
  'cached_partial is compared with eager execution on the documented clone model (cached '
  'nodes are clones that share the Variables); after an expected error nothing is asserted '
  'about the state',
  'when the eager program is inapplicable to a graph (missing attribute) the case is skipped',
  'a retrace on a structure already seen is not a violation (only results are compared)',
]

ACTIONS = ('nop', 'val', 'static', 'attr', 'graph')
MAX_VIOL_PER_UNIT = 12


def bounds(tier):
  q = tier == 'quick'
  return dict(
    program_length=2 if q else 3,
    alphabet=list(E.ALPHA_QUICK if q else E.ALPHA_FULL),
    alphabet_len3=None if q else list(E.ALPHA_QUICK),
    families=list(E.families(tier)),
    transforms=['jit', 'remat', 'cached_partial', 'cond', 'switch', 'while_loop', 'fori_loop'],
    calls=2 if q else 3,
    between_actions=list(ACTIONS),
    histories_len3_programs=None if q else ['nop', 'graph'],
    loop_trip_counts=[0, 1, 2, 3], cond_predicates=[True, False], switch_indices=[0, 1, 2],
    value_program_length_control_flow=2 if q else 3,
    structural_programs_in_control_flow=('one structural op, optionally preceded or followed '
                                         'by one value op') if q else 'all of length <= 2',
  )


# ---------------------------------------------------------------------------
# units


def _rot(xs, seed):
  xs = list(xs)
  if not xs:
    return xs
  k = seed % len(xs)
  return xs[k:] + xs[:k]


def _chunks(xs, n):
  return [xs[i:i + n] for i in range(0, len(xs), n)]


def units(tier, seed):
  q = tier == 'quick'
  groups = []

  def add(kind, progs, n, **kw):
    groups.append([dict(kind=kind, progs=[list(p) for p in ch], **kw)
                   for ch in _chunks(progs, n)])

  if q:
    progs = _rot(E.programs(E.ALPHA_QUICK, 2), seed)
    vprogs = _rot(E.programs(E.VALUE_OPS, 2), seed)
    # clause 6 in quick: one structural op, optionally preceded or followed by one value op
    add('cf6', [p for p in progs if sum(op not in E.VALUE_OPS for op in p) == 1], 4)
    for T, n in (('jit', 2), ('cp', 4), ('remat', 8)):
      add('hist', progs, n, t=T, hs='h2')
    for T in ('cond', 'switch', 'while', 'fori'):
      add('cf', vprogs, 2, t=T)
  else:
    progs2 = _rot(E.programs(E.ALPHA_FULL, 2), seed)
    progs3 = _rot([p for p in E.programs(E.ALPHA_QUICK, 3) if len(p) == 3], seed)
    vprogs = _rot(E.programs(E.VALUE_OPS, 3), seed)
    for T in ('cond', 'switch', 'while', 'fori'):
      add('cf', vprogs, 2, t=T)
    add('cf6', [p for p in progs2 if not E.is_value_only(p)], 10)
    for T, n in (('jit', 6), ('cp', 10), ('remat', 10)):
      add('hist', progs2, n, t=T, hs='h3')
    for T, n in (('jit', 30), ('cp', 50), ('remat', 100)):
      add('hist', progs3, n, t=T, hs='h2s')
  # interleave the groups (every kind is reached early; deterministic)
  us = []
  for i in range(max(len(g) for g in groups)):
    us.extend(g[i] for g in groups if i < len(g))
  # pytree containers inside the argument graph (dict in unsorted insertion order, lists with
  # more than ten entries): the containers are rebuilt by value, Variables keep their identity
  for cont in CONTAINER_GRAPHS:
    us.append(dict(kind='cont', progs=[], cont=cont))
  # cached_partial over two cached arguments that alias each other
  for g in CP2_GRAPHS:
    us.append(dict(kind='cp2', progs=[], graph=g))
  # Variable metadata the function reads, changed by the caller between calls of one
  # transformed function
  for t in META_TRANSFORMS:
    us.append(dict(kind='meta', progs=[], t=t))
  return us


# (cached_partial is not in this family: it snapshots the graph definition of its cached
# arguments by design, and Variable metadata is part of that definition)
META_TRANSFORMS = ['jit', 'jit-static', 'remat', 'cond']


def _run_meta(res, t):
  """The function branches on a metadata flag of each Variable (`w.frozen`) and scales by a
  numeric metadata field; the caller re-assigns that metadata between calls. Every history of
  three calls over the 4 flag assignments x 2 scale values, on ONE transformed function (so
  every hit / miss pattern of its trace cache), compared with the eager twin after each call."""
  import itertools
  import jax.numpy as jnp
  import numpy as np
  from flax import nnx

  class Layer(nnx.Module):
    def __init__(self, v):
      self.w = nnx.Param(jnp.full((2,), float(v)), frozen=False, scale=1)

  class Model(nnx.Module):
    def __init__(self):
      self.a = Layer(1)
      self.b = Layer(2)
      self.tied = self.a.w
      self.steps = nnx.Variable(jnp.asarray(0))

  def step(m, x):
    for layer in (m.a, m.b):
      if not layer.w.frozen:
        layer.w.value = layer.w.value + x * layer.w.scale
    m.steps.value = m.steps.value + 1
    return m.a.w.value + m.b.w.value + m.tied.value

  def make():
    if t == 'jit':
      return nnx.jit(step)
    if t == 'jit-static':
      f = nnx.jit(lambda m, k, x: step(m, x * k), static_argnums=(1,))
      return lambda m, x: f(m, 1, x)
    if t == 'remat':
      return nnx.remat(step)
    if t == 'cond':
      return lambda m, x: nnx.cond(True, step, lambda mm, xx: xx * 0 + mm.a.w.value * 0, m, x)
    return None

  settings = [(fa, fb, sc) for fa in (False, True) for fb in (False, True) for sc in (1, 3)]
  for hist in itertools.product(range(len(settings)), repeat=3):
    if hist[0] > 1 and hist[0] != 7:
      continue     # first call: both unfrozen (scale 1 / 3) or both frozen with scale 3
    e, m = Model(), Model()
    f = make()
    if t == 'cached_partial':
      g = nnx.cached_partial(nnx.jit(step), m)
      f = lambda mm, x: g(x)
    key = f'{t}|{hist}'
    case = dict(transform=t, history=[list(map(int, settings[i])) for i in hist])
    res['transitions'] += 3
    for call, si in enumerate(hist):
      fa, fb, sc = settings[si]
      for mod in (e, m):
        mod.a.w.frozen, mod.b.w.frozen = fa, fb
        mod.a.w.scale = sc
        mod.b.w.scale = sc
      x = jnp.full((2,), float(call + 1))
      res['evals'] += 2
      re_ = step(e, x)
      try:
        rt = f(m, x)
      except Exception as ex:  # noqa
        core.violation(res, f'meta-raises|{key}|call{call}', f'{type(ex).__name__}: {ex}'[:300], case)
        break
      st_e = [np.asarray(v.value).tolist() for v in (e.a.w, e.b.w, e.steps)]
      st_t = [np.asarray(v.value).tolist() for v in (m.a.w, m.b.w, m.steps)]
      if st_e != st_t or not np.array_equal(np.asarray(re_), np.asarray(rt)):
        core.violation(res, f'meta-stale|{key}|call{call}',
                       'after the caller changed Variable metadata that the function reads, the '
                       'transformed function did not do what the eager function does (stale trace)',
                       dict(case, call=call), observed=dict(state=st_t, ret=np.asarray(rt).tolist()),
                       expected=dict(state=st_e, ret=np.asarray(re_).tolist()))
        break
      if m.tied is not m.a.w or (m.a.w.frozen, m.b.w.frozen, m.a.w.scale) != (fa, fb, sc):
        core.violation(res, f'meta-lost|{key}|call{call}',
                       'aliasing or the caller\'s metadata did not survive the call', case)
        break
    core.outcome(res, f'meta:{t}:ok')
    res['nontrivial'].append(core.h(key))
  res['samples'].append(dict(kind='meta', t=t))


CP2_GRAPHS = ['shared-var', 'shared-var-first', 'shared-node', 'same-object', 'disjoint']
CP2_RETURNS = ['a-var', 'b-var', 'b-late-var', 'value']


def _cp2_build(g):
  import jax.numpy as jnp
  from flax import nnx

  class N(nnx.Module):
    pass
  P = lambda v: nnx.Param(jnp.full((2,), float(v)))
  a, b = N(), N()
  if g == 'shared-var':          # the shared Variable sorts before b's own Variables
    e = P(1)
    a.emb, b.emb, b.scale, b.zz = e, e, P(10), P(100)
  elif g == 'shared-var-first':  # ... and after one of them
    e = P(1)
    a.w, b.aa, b.w, b.zz = e, P(10), e, P(100)
  elif g == 'shared-node':
    sub = N()
    sub.w = P(1)
    a.sub, b.sub, b.zz, a.own = sub, sub, P(100), P(5)
  elif g == 'same-object':
    a.w, a.zz = P(1), P(100)
    b = a
  else:
    a.w, b.w, b.zz = P(1), P(10), P(100)
  return a, b


def _cp2_vars(o, seen=None, path=()):
  from flax import nnx
  out = {}
  seen = seen if seen is not None else set()
  if id(o) in seen:
    return out
  seen.add(id(o))
  for k in sorted(vars(o)):
    if k.startswith('_'):
      continue
    v = getattr(o, k)
    if isinstance(v, nnx.Variable):
      out[path + (k,)] = v
    elif isinstance(v, nnx.Module):
      out.update(_cp2_vars(v, seen, path + (k,)))
  return out


def _cp2_step(ret):
  def step(a, b, x):
    va, vb = _cp2_vars(a), _cp2_vars(b)
    ka, kb = sorted(va), sorted(vb)
    va[ka[0]].value = va[ka[0]].value + x
    vb[kb[-1]].value = vb[kb[-1]].value * 2.0 + vb[kb[0]].value
    if ret == 'a-var':
      return va[ka[-1]]
    if ret == 'b-var':
      return vb[kb[0]]
    if ret == 'b-late-var':
      return vb[kb[-1]]
    return vb[kb[-1]].value.sum() + va[ka[0]].value.sum()
  return step


def _run_cp2(res, g):
  import numpy as np
  import jax.numpy as jnp
  from flax import nnx
  for ret in CP2_RETURNS:
    step = _cp2_step(ret)
    ea, eb = _cp2_build(g)
    ta, tb = _cp2_build(g)
    key = f'{g}|{ret}'
    case = dict(graph=g, ret=ret)
    try:
      cached = nnx.cached_partial(nnx.jit(step), ta, tb)
    except Exception as e:  # noqa
      core.violation(res, f'cp2-raises|{key}|build', f'{type(e).__name__}: {str(e)[:200]}', case)
      continue
    for call in range(3):
      x = jnp.full((2,), float(call + 1))
      res['evals'] += 1
      res['transitions'] += 1
      eo = step(ea, eb, x)
      try:
        to = cached(x)
      except Exception as e:  # noqa
        core.violation(res, f'cp2-raises|{key}|call{call}', f'{type(e).__name__}: {str(e)[:200]}',
                       case)
        break
      ev = {('a',) + p: v for p, v in _cp2_vars(ea).items()}
      ev.update({('b',) + p: v for p, v in _cp2_vars(eb).items()})
      tv = {('a',) + p: v for p, v in _cp2_vars(ta).items()}
      tv.update({('b',) + p: v for p, v in _cp2_vars(tb).items()})
      bad = [p for p in ev if not np.array_equal(np.asarray(ev[p].value), np.asarray(tv[p].value))]
      if bad:
        core.violation(res, f'cp2-state|{key}|call{call}',
                       f'Variables {bad} of the caller\'s objects differ from eager', case)
      if isinstance(eo, nnx.Variable):
        if not isinstance(to, nnx.Variable) or not np.array_equal(np.asarray(eo.value),
                                                                  np.asarray(to.value)):
          core.violation(res, f'cp2-ret|{key}|call{call}',
                         'returned Variable differs from eager (wrong object or value)', case,
                         observed=np.asarray(getattr(to, 'value', to)).tolist(),
                         expected=np.asarray(eo.value).tolist())
        else:
          # the returned Variable must be the one at the same path as in eager
          ep = [p for p, v in ev.items() if v is eo]
          tp = [p for p, v in tv.items() if v is to]
          if sorted(ep) != sorted(tp):
            core.violation(res, f'cp2-ret-identity|{key}|call{call}',
                           f'eager returned the Variable at {ep}, the transformed call the one '
                           f'at {tp}', case)
      elif float(np.asarray(eo)) != float(np.asarray(to)):
        core.violation(res, f'cp2-ret|{key}|call{call}', 'returned value differs from eager', case)
      # aliasing between the caller's objects is preserved
      ealias = sorted((p, q) for p in ev for q in ev if p < q and ev[p] is ev[q])
      talias = sorted((p, q) for p in tv for q in tv if p < q and tv[p] is tv[q])
      if ealias != talias:
        core.violation(res, f'cp2-alias|{key}|call{call}', 'aliasing between the arguments changed',
                       case)
    core.outcome(res, 'cp2:ok')
    res['nontrivial'].append(core.h(['cp2', key]))
  res['states'] += 1
  res['samples'].append(dict(kind='cp2', graph=g, returns=CP2_RETURNS))


CONTAINER_GRAPHS = ['dict-unsorted', 'dict-int', 'list12', 'dict+shared']
CONT_TRANSFORMS = ['jit', 'remat', 'cond', 'switch', 'while', 'fori', 'cached_partial']


def _cont_graph(cont):
  import jax.numpy as jnp
  from flax import nnx

  class M(nnx.Module):
    pass
  m = M()
  P = lambda v: nnx.Param(jnp.asarray(float(v)))
  if cont == 'dict-unsorted':
    m.d = {'w': P(1), 'b': P(10), 'a': nnx.BatchStat(jnp.asarray(100.0))}
  elif cont == 'dict-int':
    m.d = {10: P(1), 2: P(10), 1: nnx.BatchStat(jnp.asarray(100.0))}
  elif cont == 'list12':
    m.d = [P(i + 1) for i in range(12)]
  elif cont == 'dict+shared':
    v = P(1)
    m.d = {'z': v, 'b': P(10), 'y': v}
    m.extra = v
  return m


def _cont_body(m):
  """value-only edit on the container's Variables, order-sensitive result"""
  # address the Variables by key (a dict is a pytree node: it is rebuilt by value inside a
  # transform and its iteration order is not part of the graph)
  vs = [m.d[k] for k in sorted(m.d, key=repr)] if isinstance(m.d, dict) else list(m.d)
  vs[0].value = vs[0].value + 1.0
  vs[1].value = vs[1].value * 2.0
  out = 0.0
  for i, v in enumerate(vs):
    out = out * 3.0 + v.value
  return out


def _cont_ids(m):
  items = m.d.items() if isinstance(m.d, dict) else enumerate(m.d)
  return {repr(k): id(v) for k, v in items}


def _cont_snapshot(m):
  import numpy as np
  items = list(m.d.items()) if isinstance(m.d, dict) else list(enumerate(m.d))
  return (sorted((repr(k), type(v).__name__, float(np.asarray(v.value))) for k, v in items),
          type(m.d).__name__)


def _run_cont(res, cont):
  import jax.numpy as jnp
  from flax import nnx
  ref = _cont_graph(cont)
  exp_out = float(_cont_body(ref))
  exp = _cont_snapshot(ref)
  for t in CONT_TRANSFORMS:
    m = _cont_graph(cont)
    ids = _cont_ids(m)
    res['evals'] += 1
    res['transitions'] += 1
    key = f'{cont}|{t}'
    try:
      if t == 'jit':
        out = nnx.jit(_cont_body)(m)
      elif t == 'remat':
        out = nnx.remat(_cont_body)(m)
      elif t == 'cached_partial':
        out = nnx.cached_partial(nnx.jit(_cont_body), m)()
      elif t == 'cond':
        out = nnx.cond(True, _cont_body, lambda m: jnp.asarray(0.0), m)
      elif t == 'switch':
        out = nnx.switch(1, [lambda m: jnp.asarray(0.0), _cont_body], m)
      elif t == 'while':
        def body(c):
          mm, i, o = c
          return mm, i + 1, _cont_body(mm)
        _, _, out = nnx.while_loop(lambda c: c[1] < 1, body, (m, 0, jnp.asarray(0.0)))
      else:
        def fbody(i, c):
          mm, o = c
          return mm, _cont_body(mm)
        _, out = nnx.fori_loop(0, 1, fbody, (m, jnp.asarray(0.0)))
    except Exception as e:  # noqa
      core.violation(res, f'cont-raises|{key}', f'{type(e).__name__}: {str(e)[:200]}',
                     dict(cont=cont, t=t))
      continue
    got = _cont_snapshot(m)
    if float(out) != exp_out:
      core.violation(res, f'cont-ret|{key}', f'return value {float(out)} differs from eager '
                     f'{exp_out}', dict(cont=cont, t=t))
    if got != exp:
      core.violation(res, f'cont-state|{key}', 'container Variables after the transformed call '
                     'differ from eager', dict(cont=cont, t=t), observed=got[0], expected=exp[0])
    if t != 'cached_partial' and _cont_ids(m) != ids:
      core.violation(res, f'cont-identity|{key}', 'the caller\'s Variables were replaced',
                     dict(cont=cont, t=t))
    core.outcome(res, 'cont:ok')
    res['nontrivial'].append(core.h(['cont', key]))
  res['states'] += 1
  res['samples'].append(dict(kind='cont', cont=cont, transforms=CONT_TRANSFORMS))


def histories(hs):
  if hs == 'h2':
    return [(a,) for a in ACTIONS]
  if hs == 'h2s':
    return [('nop',), ('graph',)]
  if hs == 'h3':
    return [(a, b) for a in ACTIONS for b in ACTIONS]
  raise KeyError(hs)


def setup_worker():
  E.lib()


# ---------------------------------------------------------------------------
# helpers


def _tier():
  return os.environ.get('VERIF_TIER', 'quick')


def _seed():
  return int(os.environ.get('VERIF_SEED', '0') or 0)


def _arr(x):
  a = np.asarray(x)
  return [str(a.dtype), list(a.shape), a.tolist()]


def _ptxt(prog):
  return '+'.join(prog) if prog else 'id'


class _Ctx:
  """Per-unit bookkeeping."""

  def __init__(self, res):
    self.res = res
    self.states = set()
    self.nviol = 0

  def violation(self, clause, case, what, observed=None, expected=None):
    self.nviol += 1
    if self.nviol > MAX_VIOL_PER_UNIT:
      return
    key = '|'.join([clause, case['t'], _ptxt(case['prog']), case['fam'],
                    '>'.join(str(h) for h in case['hist']), f"call{case['call']}"])
    core.violation(self.res, key, what, case, observed=observed, expected=expected)


def _between(name, args):
  """A between-call action applied by the *caller* (outside any transform)."""
  L = E.lib()
  if name == 'nop':
    return
  if name == 'val':
    v = E.first_variable(args)
    if v is not None:
      v.value = v.value + 10
    return
  x = args[0]
  if name == 'static':
    s = vars(x).get('s')
    x.s = (s if isinstance(s, int) else 0) + 10
  elif name == 'attr':
    x.extra = L.nnx.Param(L.jnp.float32(50.))
  else:
    raise KeyError(name)


_CLASS = {}


def _classify(prog, fam):
  """What one eager application of `prog` does to a fresh graph of the family:
  'inapplicable' | 'structure' | 'values' | 'none'.  Structure is compared with
  identity labels: exchanging two look-alike sub-nodes is a structural edit."""
  key = (tuple(prog), fam)
  if key not in _CLASS:
    args = E.build(fam, _seed())
    pre = E.walk(args)
    labels = E.label_map(pre)
    b, bs = E.canon(args), E.canon(args, labels, values=False)
    try:
      E.apply_prog(prog, args)
      _CLASS[key] = _change_kind(b, E.canon(args), bs, E.canon(args, labels, values=False))
    except E.Inapplicable:
      _CLASS[key] = 'inapplicable'
  return _CLASS[key]


def _change_kind(before, after, before_s, after_s):
  if before_s != after_s:
    return 'structure'
  if before != after:
    return 'values'
  return 'none'


def _compare(ctx, case, got_ret, exp_ret, iroots, oroots, labels_i, labels_o):
  """Clauses (1)-(3).  Returns True when everything agrees."""
  if got_ret != exp_ret:
    ctx.violation('ret', case, 'returned value differs from the eager run (clause 1)',
                  observed=got_ret, expected=exp_ret)
    return False
  ci, co = E.canon(iroots, labels_i), E.canon(oroots, labels_o)
  if ci == co:
    return True
  ui, uo = E.canon(iroots), E.canon(oroots)
  if ui != uo:
    ctx.violation('state', case, 'canonical form of the argument graphs after the call '
                  'differs from the eager run (clause 2: types / statics / Variable values / '
                  'metadata / aliasing)', observed=ui, expected=uo)
  else:
    ctx.violation('identity', case, "the caller's own objects do not carry the change "
                  '(clause 3: a pre-existing node / Variable was replaced by a copy, or a '
                  'new object is not new)', observed=ci, expected=co)
  return False


# ---------------------------------------------------------------------------
# jit / remat / cached_partial call histories


def _run_hist_prog(ctx, T, prog, hs):
  L = E.lib()
  res = ctx.res
  tier, seed = _tier(), _seed()
  counter, ocounter = [0], [0]
  body = E.make_body(prog, counter, True)
  obody = E.make_body(prog, ocounter, True)
  F = L.nnx.remat(body) if T == 'remat' else L.nnx.jit(body)
  seen = set()
  sampled = False
  for fam in E.families(tier):
    for hist in histories(hs):
      if T == 'cp' and 'graph' in hist and fam in E.ARITY1:
        core.outcome(res, 'cp|graph-action-n/a-for-one-argument')
        continue
      iargs, oargs = E.build(fam, seed), E.build(fam, seed)
      curfam = fam
      if T == 'cp':
        call = L.nnx.cached_partial(F, iargs[0])
        oclone = E.clone_nodes(oargs[0])
      else:
        call = oclone = None
      changed_any = False
      ended = 'done'
      for k in range(len(hist) + 1):
        case = dict(t=T, prog=list(prog), fam=fam, hist=list(hist[:k]), call=k + 1)
        if k > 0:
          act = hist[k - 1]
          if act == 'graph':
            curfam = E.partner(curfam, tier)
            if T == 'cp':
              try:
                oargs = (oargs[0], E.derive(curfam, oargs[0], seed))
              except E.Inapplicable:  # the program deleted what the family shares
                core.outcome(res, 'cp|graph-action-inapplicable')
                ended = 'inapplicable'
                break
              iargs = (iargs[0], E.derive(curfam, iargs[0], seed))
            else:
              iargs, oargs = E.build(curfam, seed), E.build(curfam, seed)
          else:
            _between(act, oargs)
            try:
              _between(act, iargs)
            except Exception as e:  # the caller's objects must stay usable eagerly
              ctx.violation('unusable', case, "mutating the caller's objects after a "
                            f'transformed call raised {type(e).__name__}: {str(e)[:200]}')
              ended = 'violation'
              break
        # ---- one transition ------------------------------------------------
        pre_i, pre_o = E.walk(iargs), E.walk(oargs)
        labels_i, labels_o = E.label_map(pre_i), E.label_map(pre_o)
        oeff = oargs if T != 'cp' else (oclone,) + tuple(oargs[1:])
        before = E.canon(oeff)
        before_s = E.canon(oeff, labels_o, values=False)
        skey = core.h(E.canon(oeff, values=False))
        if T == 'cp':
          clone_pre = E.walk([oclone])
          clone_sig = E.canon([oclone], E.label_map(clone_pre), values=False)
        try:
          exp = obody(*oeff)
        except E.Inapplicable:
          core.outcome(res, f'{T}|program-inapplicable-to-graph')
          ended = 'inapplicable'
          break
        after = E.canon(oeff)
        after_s = E.canon(oeff, labels_o, values=False)
        kind = _change_kind(before, after, before_s, after_s)
        changed_any = changed_any or kind != 'none'
        expect_error = False
        if T == 'cp':
          expect_error = E.canon([oclone], E.label_map(clone_pre), values=False) != clone_sig
        n0 = counter[0]
        res['evals'] += 1
        res['transitions'] += 1
        err = got = None
        try:
          got = call(*iargs[1:]) if T == 'cp' else F(*iargs)
        except Exception as e:  # the call under test: any exception is judged below
          err = e
        traced = counter[0] > n0
        hm = ('miss' if traced else 'hit') + ('' if traced != (skey in seen) else '*')
        seen.add(skey)
        if expect_error:
          if isinstance(err, ValueError):
            core.outcome(res, f'cp|{hm}|{kind}|structure-change-rejected')
            ended = 'rejected'
          elif err is None:
            ctx.violation('cp-accepts', case, 'cached_partial: the final structure of the '
                          'cached node differs from its structure at caching time but the '
                          'call returned instead of raising (clause 6)')
            ended = 'violation'
          else:
            ctx.violation('cp-error-type', case, 'cached_partial: structure change raised '
                          f'{type(err).__name__} instead of the documented ValueError: '
                          f'{str(err)[:200]}')
            ended = 'violation'
          break
        if err is not None:
          ctx.violation('raises', case, f'transformed call raised {type(err).__name__}: '
                        f'{str(err)[:300]} where the eager run succeeds')
          ended = 'violation'
          break
        if not (isinstance(got, tuple) and len(got) == 3):
          ctx.violation('ret', case, 'returned value has the wrong shape', observed=repr(got))
          ended = 'violation'
          break
        ok = _compare(ctx, case, [_arr(got[0]), _arr(got[1]), got[2] is not None],
                      [_arr(exp[0]), _arr(exp[1]), exp[2] is not None],
                      list(iargs) + [got[2]], list(oargs) + [exp[2]], labels_i, labels_o)
        if not ok:
          ended = 'violation'
          break
        core.outcome(res, f'{T}|{hm}|{kind}')
        ctx.states.add(core.h([T, prog, E.canon(list(iargs), values=False), sorted(seen)]))
        del pre_i, pre_o
      if changed_any and ended != 'violation':
        res['nontrivial'].append(core.h([T, prog, fam, hist]))
      if not sampled and ended == 'done' and changed_any and len(hist) and fam != 'one':
        res['samples'].append(dict(transform=T, program=list(prog), family=fam,
                                   history=list(hist), traces=counter[0],
                                   final_args=E.canon(list(iargs))))
        sampled = True


# ---------------------------------------------------------------------------
# control flow


_Q0, _Q1 = ('mov',), ('inc', 'inc')


def _cf_histories(T, tier):
  q = tier == 'quick'
  if T == 'cond':
    return [(True, False), (False, True)] if q else \
      [(a, b) for a in (True, False) for b in (True, False)]
  if T == 'switch':
    return [(0, 1), (2, 0), (1, 2)] if q else [(a, b) for a in range(3) for b in range(3)]
  return [(0, 2), (1, 3), (3, 0)] if q else [(a, b) for a in range(4) for b in range(4)]


def _cf_call(T, param, bodies, prog_bodies, args):
  """Run one control-flow transform; returns (ret-as-json, output roots)."""
  L = E.lib()
  jnp, nnx = L.jnp, L.nnx
  if T == 'cond':
    out = nnx.cond(jnp.asarray(param), bodies[0], bodies[1], *args)
    return [_arr(out[0]), _arr(out[1])], []
  if T == 'switch':
    out = nnx.switch(jnp.int32(param), list(bodies), *args)
    return [_arr(out[0]), _arr(out[1])], []
  prog, counter = prog_bodies
  if T == 'while':
    def wbody(val):
      a, acc, i, n = val
      counter[0] += 1
      E.apply_prog(prog, a)
      return a, E.fold(acc, E.readout(a)), i + 1, n
    out = nnx.while_loop(lambda val: val[2] < val[3], wbody,
                         (tuple(args), jnp.float32(0.), jnp.int32(0), jnp.int32(param)))
    return [_arr(out[1]), int(out[2])], list(out[0])
  if T == 'fori':
    def fbody(i, val):
      a, acc = val
      counter[0] += 1
      E.apply_prog(prog, a)
      return a, E.fold(acc, E.readout(a)) + i
    out = nnx.fori_loop(0, int(param), fbody, (tuple(args), jnp.float32(0.)))
    return [_arr(out[1])], list(out[0])
  raise KeyError(T)


def _cf_eager(T, param, obodies, prog, args):
  L = E.lib()
  jnp = L.jnp
  if T == 'cond':
    out = (obodies[0] if param else obodies[1])(*args)
    return [_arr(out[0]), _arr(out[1])], []
  if T == 'switch':
    out = obodies[param](*args)
    return [_arr(out[0]), _arr(out[1])], []
  acc = jnp.float32(0.)
  for i in range(param):  # (4) the unrolled Python loop
    E.apply_prog(prog, args)
    acc = E.fold(acc, E.readout(args))
    if T == 'fori':
      acc = acc + i
  if T == 'while':
    return [_arr(acc), int(param)], list(args)
  return [_arr(acc)], list(args)


def _branches(T, prog, qs, counter):
  """Branch bodies for cond / switch: the program first, then partner programs."""
  ps = [prog] + list(qs)
  n = 2 if T == 'cond' else 3
  return [E.make_body(p, counter, False) for p in ps[:n]]


def _run_cf_prog(ctx, T, prog):
  res = ctx.res
  tier, seed = _tier(), _seed()
  if T == 'cond':
    qsets = [[_Q0]] if tier == 'quick' else [[q] for q in E.programs(E.VALUE_OPS, 1)]
  elif T == 'switch':
    qsets = [[_Q0, _Q1]]
  else:
    qsets = [[]]
  sampled = False
  for fam in E.families(tier):
    for qs in qsets:
      if any(_classify(p, fam) == 'inapplicable' for p in [prog] + list(qs)):
        core.outcome(res, f'{T}|program-inapplicable-to-graph')
        continue
      for hist in _cf_histories(T, tier):
        counter, ocounter = [0], [0]
        bodies = _branches(T, prog, qs, counter)
        obodies = _branches(T, prog, qs, ocounter)
        iargs, oargs = E.build(fam, seed), E.build(fam, seed)
        changed_any = False
        ended = 'done'
        for k, param in enumerate(hist):
          case = dict(t=T, prog=list(prog), fam=fam, hist=[str(h) for h in hist[:k + 1]],
                      call=k + 1, partners=[list(q) for q in qs])
          pre_i, pre_o = E.walk(iargs), E.walk(oargs)
          labels_i, labels_o = E.label_map(pre_i), E.label_map(pre_o)
          before = E.canon(oargs)
          try:
            exp_ret, exp_roots = _cf_eager(T, param, obodies, prog, oargs)
          except E.Inapplicable:
            core.outcome(res, f'{T}|program-inapplicable-to-graph')
            ended = 'inapplicable'
            break
          changed = E.canon(oargs) != before
          changed_any = changed_any or changed
          res['evals'] += 1
          res['transitions'] += 1
          try:
            got_ret, got_roots = _cf_call(T, param, bodies, (prog, counter), iargs)
          except Exception as e:  # the call under test
            ctx.violation('raises', case, f'nnx.{T} raised {type(e).__name__}: '
                          f'{str(e)[:300]} where the eager run succeeds')
            ended = 'violation'
            break
          ok = _compare(ctx, case, got_ret, exp_ret, list(iargs) + got_roots,
                        list(oargs) + exp_roots, labels_i, labels_o)
          if not ok:
            ended = 'violation'
            break
          core.outcome(res, f"{T}|{param}|{'values' if changed else 'none'}")
          ctx.states.add(core.h([T, prog, qs, E.canon(list(iargs), values=False), k]))
          del pre_i, pre_o
        if changed_any and ended != 'violation':
          res['nontrivial'].append(core.h([T, prog, fam, qs, hist]))
        if not sampled and ended == 'done' and changed_any and fam == 'same':
          res['samples'].append(dict(transform=T, program=list(prog), family=fam,
                                     history=[str(h) for h in hist],
                                     partners=[list(q) for q in qs],
                                     final_args=E.canon(list(iargs))))
          sampled = True


def _run_cf6_prog(ctx, prog):
  """Clause 6: a structural edit inside control flow raises, or agrees with eager."""
  res = ctx.res
  tier, seed = _tier(), _seed()
  variants = [('cond', True, [_Q0]), ('cond', False, [prog]), ('switch', 2, [prog, prog]),
              ('while', 2, []), ('fori', 1, [])]
  if tier != 'quick':
    variants += [('cond', True, [prog]), ('switch', 0, [_Q0, _Q1]), ('while', 0, []),
                 ('fori', 0, [])]
  for fam in E.families(tier):
    for T, param, qs in variants:
      case = dict(t=T, prog=list(prog), fam=fam, hist=[str(param)], call=1,
                  partners=[list(q) for q in qs])
      kinds = [_classify(p, fam) for p in [prog] + list(qs)]
      if 'inapplicable' in kinds:
        core.outcome(res, f'{T}+structural|program-inapplicable-to-graph')
        continue
      structural = 'structure' in kinds
      counter, ocounter = [0], [0]
      bodies = _branches(T, prog, qs, counter) if T in ('cond', 'switch') else None
      obodies = _branches(T, prog, qs, ocounter) if T in ('cond', 'switch') else None
      iargs, oargs = E.build(fam, seed), E.build(fam, seed)
      pre_i, pre_o = E.walk(iargs), E.walk(oargs)
      labels_i, labels_o = E.label_map(pre_i), E.label_map(pre_o)
      try:
        exp_ret, exp_roots = _cf_eager(T, param, obodies, prog, oargs)
      except E.Inapplicable:  # e.g. the second loop iteration no longer applies
        core.outcome(res, f'{T}+structural|program-inapplicable-to-graph')
        continue
      res['evals'] += 1
      res['transitions'] += 1
      try:
        got_ret, got_roots = _cf_call(T, param, bodies, (prog, counter), iargs)
      except Exception as e:  # the call under test: raising is the permitted outcome
        if not structural:
          ctx.violation('raises', case, f'nnx.{T} raised {type(e).__name__}: {str(e)[:300]} '
                        'although no body changes the structure')
        else:
          core.outcome(res, f'{T}+structural|raises-{type(e).__name__}')
          res['nontrivial'].append(core.h(['cf6', T, param, prog, fam, qs]))
        continue
      ok = _compare(ctx, dict(case, t=T + '+structural'), got_ret, exp_ret,
                    list(iargs) + got_roots, list(oargs) + exp_roots, labels_i, labels_o)
      if ok:
        core.outcome(res, f"{T}+structural|{'propagates' if structural else 'no-net-change'}")
        ctx.states.add(core.h(['cf6', T, param, prog, qs, E.canon(list(iargs), values=False)]))
        if structural:
          res['nontrivial'].append(core.h(['cf6', T, param, prog, fam, qs]))
      del pre_i, pre_o


# ---------------------------------------------------------------------------


def _drop_caches():
  """Every program compiles its own executables; without this a worker grows
  without bound (jit / eager-primitive caches hold every compiled program)."""
  import gc
  E.lib().jax.clear_caches()
  gc.collect()


_NPROG = [0]


def run_unit(unit):
  res = core.new_result()
  if unit['kind'] == 'cont':
    _run_cont(res, unit['cont'])
    return res
  if unit['kind'] == 'cp2':
    _run_cp2(res, unit['graph'])
    return res
  if unit['kind'] == 'meta':
    _run_meta(res, unit['t'])
    _drop_caches()
    return res
  ctx = _Ctx(res)
  for p in unit['progs']:
    prog = tuple(p)
    _NPROG[0] += 1
    if _NPROG[0] % 12 == 0:  # per worker process, across units
      _drop_caches()
    if unit['kind'] == 'hist':
      _run_hist_prog(ctx, unit['t'], prog, unit['hs'])
    elif unit['kind'] == 'cf':
      _run_cf_prog(ctx, unit['t'], prog)
    elif unit['kind'] == 'cf6':
      _run_cf6_prog(ctx, prog)
    else:
      raise KeyError(unit['kind'])
  res['states'] = len(ctx.states)
  res['extra']['violating_transitions'] = ctx.nviol
  return res
