"""C04 — NNX transforms keep reference semantics (first version: jit/remat on a
small family of edit programs; extended later, DESIGN §4 C04)."""
from __future__ import annotations

from mc.engine import core

PROPERTY = 'C04'
LEVEL = 'model_checking'
RULE = 'edit programs x transforms vs eager execution on a fresh copy'
ASSUMPTIONS = []

EDITS = ['inc', 'add_var', 'del_attr', 'static']
TRANSFORMS = ['jit', 'remat']


def units(tier, seed):
  return [dict(edits=[e1, e2], t=t) for t in TRANSFORMS for e1 in EDITS for e2 in EDITS]


def _mk():
  import jax.numpy as jnp
  from flax import nnx

  class M(nnx.Module):
    def __init__(self):
      self.v = nnx.Param(jnp.ones(()))
      self.w = nnx.BatchStat(jnp.zeros(()))
      self.s = 1
  return M()


def _apply(edits, m):
  import jax.numpy as jnp
  from flax import nnx
  for e in edits:
    if e == 'inc':
      m.v.value = m.v.value + 1
    elif e == 'add_var':
      m.n = nnx.Param(jnp.full((), 5.0))
    elif e == 'del_attr':
      if hasattr(m, 'w'):
        del m.w
    elif e == 'static':
      m.s = m.s + 1
  return m.v.value * 2


def run_unit(unit):
  import numpy as np
  from flax import nnx
  res = core.new_result()
  edits = unit['edits']
  T = dict(jit=nnx.jit, remat=nnx.remat)[unit['t']]
  a, b = _mk(), _mk()
  exp = _apply(edits, a)
  res['evals'] += 1
  res['transitions'] += 1
  res['states'] += 1
  key = f"{unit['t']}|{edits}"
  try:
    got = T(lambda m: _apply(edits, m))(b)
  except Exception as e:  # noqa
    core.violation(res, 'raises|' + key,
                   f"nnx.{unit['t']} raised {type(e).__name__}: {str(e)[:200]} where eager "
                   'execution succeeds', unit)
    return res
  sa, sb = nnx.state(a), nnx.state(b)
  if repr(nnx.graphdef(a)) != repr(nnx.graphdef(b)) or \
     [np.asarray(x).tolist() for x in __import__('jax').tree.leaves(sa)] != \
     [np.asarray(x).tolist() for x in __import__('jax').tree.leaves(sb)] or \
     float(exp) != float(got):
    core.violation(res, 'differs|' + key, 'object state after the transformed call differs '
                   'from eager', unit)
  res['nontrivial'].append(core.h(key))
  core.outcome(res, 'ok')
  res['samples'].append(unit)
  return res
