"""C15 — FrozenDict and struct dataclasses: immutable values, faithful pytrees
(DESIGN §4 C15, interpretation of "nested" in §0.3).

Part 'fd'.  For every small nested source dict and every way of constructing a
FrozenDict from it: explicit-state BFS over histories
  construct ; (mutate the source at a path | call an API and mutate whatever it
  returned | hash)*
on live objects (a state is replayed from its history on fresh objects).  A
state is the canonical pair (source dict now, FrozenDict contents) plus the one
bit of hidden state a FrozenDict has (hash cached or not).  In every state and
after every transition: contents read through the public Mapping interface,
the hash (once taken) and every FrozenDict that sat inside the source are what
they were at construction time; the source is what the pure model of the
mutations says; API calls return the modelled value, nothing they return is
(by id) a dict inside `fd._dict`, and scribbling over every returned dict
changes nothing; every mutator raises.

Part 'struct'.  For every field layout: BFS over `replace` histories with a
reference model of the jit cache (retrace iff the tuple of static fields was
not seen before), frozen-ness, leaves = non-static fields in declaration order,
and class / statics preserved by tree_map, jit, vmap, grad.
"""
from __future__ import annotations

import copy as _copy
import dataclasses
import os
import pickle

import numpy as np

from mc.engine import core
from mc.models import c15_fd as M
from mc.models import c15_struct as S

PROPERTY = 'C15'
LEVEL = 'model_checking'
RULE = ('fd: every source dict of depth<=2 with <=2 keys per level from {a,b} and leaves '
        '{int, array, list, tuple, FrozenDict({x:{y:n}}), empty dict} (thorough: plus every '
        'depth-3 dict with <=5 keys in total; both: 18 single-key chains of depth 3..5) x '
        'constructors FrozenDict(src) / freeze / FrozenDict(**src) / FrozenDict(pairs) x BFS over histories '
        '(construct, then src mutations set/del/add at every plain-dict path, ~25 API '
        'actions each followed by scribbling over everything returned, hash); a state is '
        '(canonical src, FrozenDict contents, hash-cached bit); every insertion order of '
        'every source is compared for ==/hash/tree_flatten.  struct: every layout of <=3 '
        'fields (bare / field(True) / field(False) / with user metadata, with and without '
        'default) x struct.dataclass, PyTreeNode, inherited first field, kw_only '
        'x BFS over replace histories against a jit-cache model.  Non-trivial: an expanded '
        'state (full action alphabet executed in it) of a source that has a nested dict / '
        'FrozenDict value, or a struct state of a layout with >=1 static and >=1 data field; '
        'distinct = distinct (source, constructor, state) resp. (class kind, layout, values)')
ASSUMPTIONS = [
  'lists, tuples and arrays are leaves (DESIGN 0.3): in-place edits of a list leaf are outside the claim',
  'private slots (_dict, _hash), re-running __init__, FrozenDict.tree_unflatten/tree_flatten_with_keys '
  'called by hand and tree_flatten(..., is_leaf=<matches dict>) are not "the API": they expose raw storage by design',
  'a FrozenDict has no hidden state besides the cached hash, so merging histories with equal '
  '(src, contents, hash-cached) is sound',
  'the source graph is a tree (no dict object reachable by two paths)',
  'struct: field values are float32 scalars (0-d arrays: one aval) (data) and ints / tuples (static); '
  'jit cache model assumes no cache eviction within 8 entries',
]

# [constructor, history depth (construct included), rich mutation alphabet]
CTORS_Q = [['FrozenDict', 3, False], ['freeze', 2, False], ['kwargs', 2, False],
           ['pairs', 2, False]]
CTORS_T = [['FrozenDict', 4, False], ['freeze', 3, True], ['kwargs', 3, False],
           ['pairs', 3, False]]
VCAP = 25  # violations written out per unit; exploration of the unit stops there


def bounds(tier):
  q = tier == 'quick'
  return dict(
    fd_source_depth=2 if q else 3, fd_keys_per_level=2,
    fd_total_keys='<=6 (all of depth 2)' if q else 'depth 2: all; depth 3: <=5',
    fd_leaf_alphabet=M.LEAVES, fd_sources=len(M.sources(tier)),
    fd_extra_sources='18 single-key chains of depth 3..5 ending in E / F / L',
    fd_constructors_depth_rich=CTORS_Q if q else CTORS_T,
    fd_history_depth=3 if q else 4,
    fd_src_mutations='set->dict, del, add int; rich adds set->int, add dict',
    struct_max_fields=3, struct_cases=len(S.cases(tier)),
    struct_replace_depth=3 if q else 4)


def _perm(xs, seed):
  """Deterministic seed-dependent permutation of the enumeration order."""
  n = len(xs)
  if n < 2:
    return xs
  k = seed % n
  step = 1
  for cand in (7919, 104729, 1299709, 15485863):
    if np.gcd(cand, n) == 1:
      step = cand % n or 1
      break
  return [xs[(k + i * step) % n] for i in range(n)]


def units(tier, seed):
  q = tier == 'quick'
  srcs = M.sources(tier)
  chunk = 24 if q else 36
  us = []
  for i in range(0, len(srcs), chunk):
    us.append(dict(part='fd', specs=srcs[i:i + chunk], ctors=CTORS_Q if q else CTORS_T))
  cs = S.cases(tier)
  chunk = 12 if q else 30
  for i in range(0, len(cs), chunk):
    us.append(dict(part='struct', cases=cs[i:i + chunk], depth=3 if q else 4))
  return _perm(us, seed)


def setup_worker():
  import jax  # noqa
  import flax  # noqa
  from flax import serialization, struct  # noqa
  from flax.core import FrozenDict  # noqa


class _Stop(Exception):
  """violation cap of the unit reached."""


def run_unit(unit):
  res = core.new_result()
  seed = int(os.environ.get('VERIF_SEED', '0') or 0)
  try:
    if unit['part'] == 'fd':
      for spec in unit['specs']:
        for ctor, depth, rich in unit['ctors']:
          _FdExplorer(res, spec, ctor, depth, rich, seed).run()
    else:
      for ckind, layout in unit['cases']:
        _struct_case(res, ckind, layout, unit['depth'], seed)
  except _Stop:
    res['capped'] = True
  return res


def _viol(res, key, what, case, observed=None, expected=None):
  if any(v['key'] == key for v in res['violations']):
    return
  core.violation(res, key, what, case, observed=observed, expected=expected)
  if len(res['violations']) >= VCAP:
    raise _Stop()


# ===========================================================================
# FrozenDict part
# ===========================================================================


def _mstr(m):
  if m == 'hash':
    return 'hash'
  op, path, k, v = m
  return f"{op}@{'.'.join(path) or '/'}:{k}" + (f'={v}' if v else '')


class _World:
  """Live objects of one replayed history."""
  __slots__ = ('src', 'fd', 'spec', 'hashed', 'inner', 'src_canon')


class _FdExplorer:

  def __init__(self, res, spec0, ctor, depth, rich, seed):
    import jax
    import jax.numpy as jnp
    from flax import core as fcore
    from flax import serialization
    from flax.core import FrozenDict
    self.jax, self.fcore, self.ser, self.FD = jax, fcore, serialization, FrozenDict
    self.res, self.spec0, self.ctor, self.depth, self.rich = res, spec0, ctor, depth, rich
    self.mult = (1, 3, 7, 11)[(seed // 2) % 4]
    if seed % 2:
      self.mkarr = lambda n: jnp.asarray([n], jnp.float32)
    else:
      self.mkarr = lambda n: np.asarray([n], np.float32)
    self.sid = f'{ctor}|{M.show(spec0)}'
    self.hashable = M.hashable(spec0)
    self.nontriv = M.has_nested(spec0)
    self.P0 = self.plain(spec0)
    self.exp = M.canon(self.P0, FrozenDict)
    self._cc = {}
    self._cache_model(self.P0)
    self.hist = ()
    self.action = ''
    self.n_states = 0

  # -- models ---------------------------------------------------------------

  def plain(self, spec):
    return M.plain(spec, (), self.mult, self.mkarr)

  def canon(self, x, typed=False, raw=True):
    return M.canon(x, self.FD, typed, raw)

  def cexp(self, exp):
    """canon of a model object; cached for the (long-lived) subtrees of P0."""
    c = self._cc.get(id(exp))
    if c is None:
      c = M.canon(exp, self.FD)
    return c

  def _cache_model(self, p):
    self._cc[id(p)] = M.canon(p, self.FD)
    if isinstance(p, dict):
      for v in p.values():
        self._cache_model(v)

  def construct(self, src, ctor=None):
    ctor = ctor or self.ctor
    self.res['evals'] += 1
    if ctor == 'FrozenDict':
      return self.FD(src)
    if ctor == 'freeze':
      return self.fcore.freeze(src)
    if ctor == 'kwargs':
      return self.FD(**src)
    if ctor == 'pairs':
      return self.FD(list(src.items()))
    raise ValueError(ctor)

  def fresh(self):
    """A FrozenDict with the modelled contents, same insertion order, built
    from an unrelated source object."""
    return self.FD(self.plain(self.spec0))

  # -- reporting ------------------------------------------------------------

  def V(self, clause, what, observed=None, expected=None):
    hs = '>'.join(['C'] + [_mstr(m) for m in self.hist])
    key = f'{clause}|{self.sid}|{hs}|{self.action}'
    case = dict(source=self.spec0, source_text=M.show(self.spec0), constructor=self.ctor,
                history=[list(m) if m != 'hash' else m for m in self.hist],
                action=self.action)
    _viol(self.res, key, what, case, observed=repr(observed)[:1500] if observed is not None else None,
          expected=repr(expected)[:1500] if expected is not None else None)

  # -- replay ---------------------------------------------------------------

  def replay(self, hist):
    w = _World()
    w.src = M.build_src(self.spec0, (), self.mult, self.mkarr)
    w.inner = []
    self._collect_inner(self.spec0, w.src, (), w.inner)
    w.fd = self.construct(w.src)
    w.spec = self.spec0
    w.hashed = False
    for m in hist:
      if m == 'hash':
        try:
          hash(w.fd)
          w.hashed = True
        except TypeError:
          pass
      else:
        M.mutate_live(w.src, m, self.mult, self.mkarr)
        w.spec = M.mutate_spec(w.spec, m)
    w.src_canon = self.canon(M.build_src(w.spec, (), self.mult, self.mkarr), True)
    return w

  def _collect_inner(self, spec, live, path, out):
    for k, v in spec:
      if v == 'F':
        out.append((live[k], self.canon(M.plain('F', path + (k,), self.mult, self.mkarr))))
      elif not isinstance(v, str):
        self._collect_inner(v, live[k], path + (k,), out)

  # -- invariants -----------------------------------------------------------

  def inv(self, w, public=False):
    """The invariant of every state; True when it holds.  public=True (on
    arrival in a state) reads fd through the Mapping interface only."""
    ok = True
    got = self.canon(w.fd, raw=not public)
    if got != self.exp:
      self.V('fd-changed', 'the contents of the FrozenDict differ from the contents it was '
             'constructed with', observed=got, expected=self.exp)
      ok = False
    got = self.canon(w.src, True)
    if got != w.src_canon:
      self.V('src-changed', 'the source dict differs from the model (something other than '
             'the explicit source mutations of the history changed it)',
             observed=got, expected=w.src_canon)
      ok = False
    for obj, expc in w.inner:
      got = self.canon(obj)
      if got != expc:
        self.V('inner-changed', 'a FrozenDict that was a value of the source changed',
               observed=got, expected=expc)
        ok = False
    if w.hashed:
      h1, h2 = hash(w.fd), hash(self.fresh())
      if h1 != h2:
        self.V('hash-changed', 'hash(fd) differs from the hash of a fresh FrozenDict with the '
               'contents fd was built with', observed=h1, expected=h2)
        ok = False
    return ok

  def storage(self, fd):
    """ids of the plain dicts that make up fd's private storage."""
    d = getattr(fd, '_dict', None)
    out = {}
    if isinstance(d, dict):
      for x in M.plain_dicts(d, []):
        out[id(x)] = x
    return out

  def probe(self, w, r, exp, what):
    """r was returned by a read API and should carry the contents `exp` (plain
    model).  Checks value, identity-aliasing with fd's storage, and (by
    scribbling over every dict reachable in r, and over unfreeze() of every
    FrozenDict in r) leaves it to `inv` to see whether fd changed."""
    got = self.canon(r, raw=False)
    expc = self.cexp(exp)
    if got != expc:
      self.V('value:' + what, f'{what} returned contents that differ from the model',
             observed=got, expected=expc)
      return
    st = self.storage(w.fd)
    self._walk(w, r, exp, what, st)
    if isinstance(r, dict):
      M.scribble(r)

  def _walk(self, w, r, exp, what, st):
    FD = self.FD
    if isinstance(r, FD):
      self._derived(w, r, exp, what, st)
    elif isinstance(r, dict):
      if id(r) in st:
        self.V('alias-id:' + what, f'{what} returned a dict that IS a dict inside fd._dict')
      for k, v in r.items():
        self._walk(w, v, exp[k], what, st)

  def _derived(self, w, r, exp, what, st):
    """A FrozenDict handed out by the API is itself immutable and shares no
    mutable dict with what unfreeze gives back."""
    expc = self.cexp(exp)
    for name, fn in (('setitem', lambda: r.__setitem__('__k__', 1)),
                     ('update', lambda: r.update({'__k__': 1}))):
      self.res['evals'] += 1
      try:
        fn()
      except Exception:  # noqa: any refusal is fine, the class is incidental
        pass
      else:
        self.V(f'mutator-no-raise:{what}.{name}', f'{name} on the FrozenDict returned by {what} '
               'did not raise')
    if w.hashed:
      # equal contents hash equal also for FrozenDicts derived from a hashed one
      self.res['evals'] += 1
      try:
        h2 = hash(self.FD(_copy.deepcopy(exp)))
      except TypeError:
        h2 = None
      try:
        h1 = hash(r)
      except TypeError:
        h1 = None
      if h1 != h2:
        self.V('derived-hash:' + what, f'hash of the FrozenDict returned by {what} differs from '
               'the hash of a fresh FrozenDict with the same contents', observed=h1, expected=h2)
    self.res['evals'] += 1
    u = self.fcore.unfreeze(r)
    if self.canon(u) != expc:
      self.V('value:' + what + '.unfreeze', f'unfreeze of the FrozenDict returned by {what} '
             'differs from the model', observed=self.canon(u), expected=expc)
    for d in M.plain_dicts(u, []):
      if id(d) in st:
        self.V('alias-id:' + what + '.unfreeze', f'unfreeze({what}) returned a dict that IS a '
               'dict inside fd._dict')
    M.scribble(u)
    if self.canon(r) != expc:
      self.V('derived-changed:' + what, f'mutating unfreeze() of the FrozenDict returned by '
             f'{what} changed that FrozenDict', observed=self.canon(r), expected=expc)

  # -- API actions ------------------------------------------------------------
  # each returns an outcome label; `inv` runs after each

  def api_actions(self, w):
    P = self.P0
    acts = []
    for p in M.model_paths(P):
      acts.append(('getitem[' + '.'.join(p) + ']', lambda p=p: self.a_getitem(w, p)))
    acts.append(('get', lambda: self.a_get(w)))
    acts.append(('iter', lambda: self.a_iter(w)))
    acts.append(('copy()', lambda: self.a_copy0(w)))
    for var in ('dict', 'frozen', 'module'):
      acts.append((f'copy({var})', lambda var=var: self.a_copyx(w, var)))
    for k in list(P) + ['zz']:
      acts.append((f'pop[{k}]', lambda k=k: self.a_pop(w, k, False)))
    if P:
      k = sorted(P)[0]
      acts.append((f'core.pop[{k}]', lambda k=k: self.a_pop(w, k, True)))
    acts.append(('unfreeze', lambda: self.a_unfreeze(w)))
    acts.append(('freeze', lambda: self.a_freeze(w)))
    acts.append(('repr', lambda: self.a_repr(w)))
    acts.append(('eq', lambda: self.a_eq(w)))
    acts.append(('pickle', lambda: self.a_pickle(w)))
    acts.append(('flatten', lambda: self.a_flatten(w)))
    acts.append(('tree_map', lambda: self.a_tree_map(w)))
    acts.append(('state_dict', lambda: self.a_state_dict(w)))
    acts.append(('mutators', lambda: self.a_mutators(w)))
    return acts

  def a_getitem(self, w, path):
    v = w.fd
    for k in path:
      v = v[k]
    self.res['evals'] += len(path)
    self.probe(w, v, M.at(self.P0, path), 'fd[' + ']['.join(path) + ']')
    return 'getitem:' + type(v).__name__

  def a_get(self, w):
    fd, P = w.fd, self.P0
    sentinel = {'d': 1}
    self.res['evals'] += 4 + 2 * len(P)
    if fd.get('zz', sentinel) is not sentinel or fd.get('zz') is not None or 'zz' in fd:
      self.V('value:get-missing', 'get / in for a missing key')
    if len(fd) != len(P):
      self.V('value:len', 'len(fd)', observed=len(fd), expected=len(P))
    for k in P:
      if k not in fd:
        self.V('value:contains', f'{k!r} in fd is False')
      self.probe(w, fd.get(k), P[k], f'fd.get({k})')
    return 'get'

  def a_iter(self, w):
    fd, P = w.fd, self.P0
    self.res['evals'] += 7
    ks = list(fd)
    if sorted(ks) != sorted(P) or sorted(fd.keys()) != sorted(P) or len(fd.keys()) != len(P):
      self.V('value:keys', 'iteration / keys()', observed=ks, expected=sorted(P))
      return 'iter'
    vals = list(fd.values())
    if len(vals) != len(ks):
      self.V('value:values', 'len(values())', observed=len(vals), expected=len(ks))
      return 'iter'
    for k, v in zip(ks, vals):
      self.probe(w, v, P[k], f'fd.values()[{k}]')
    items = list(fd.items())
    if [k for k, _ in items] != ks:
      self.V('value:items', 'items() keys', observed=[k for k, _ in items], expected=ks)
      return 'iter'
    for k, v in items:
      self.probe(w, v, P[k], f'fd.items()[{k}]')
    self.probe(w, dict(fd), P, 'dict(fd)')
    self.probe(w, {**fd}, P, '{**fd}')
    self.probe(w, dict(fd.items()), P, 'dict(fd.items())')
    return 'iter'

  def a_copy0(self, w):
    self.res['evals'] += 1
    r = w.fd.copy()
    self._type(r, 'fd.copy()')
    self.probe(w, r, self.P0, 'fd.copy()')
    return 'copy'

  def a_copyx(self, w, var):
    P = self.P0
    x = {'c': {'n': {'m': 5}}}
    if P:
      x[sorted(P)[0]] = {'r': {'w': 3}}
    exp = {**P, **_copy.deepcopy(x)}
    self.res['evals'] += 1
    if var == 'dict':
      r = w.fd.copy(x)
    elif var == 'frozen':
      r = w.fd.copy(self.FD(x))
    else:
      r = self.fcore.copy(w.fd, x)
    what = f'fd.copy({var})'
    self._type(r, what)
    if self.canon(r) != self.canon(exp):
      self.V('value:' + what, f'{what}: contents differ from {{**fd, **arg}}',
             observed=self.canon(r), expected=self.canon(exp))
      return 'copy+'
    M.scribble(x)
    if self.canon(r) != self.canon(exp):
      self.V('alias-arg:' + what, f'{what}: mutating the add_or_replace argument afterwards '
             'changed the returned FrozenDict', observed=self.canon(r), expected=self.canon(exp))
      return 'copy+'
    self.probe(w, r, exp, what)
    return 'copy+'

  def a_pop(self, w, k, module):
    P = self.P0
    what = f'core.pop(fd,{k})' if module else f'fd.pop({k})'
    self.res['evals'] += 1
    try:
      new, val = self.fcore.pop(w.fd, k) if module else w.fd.pop(k)
    except KeyError:
      if k in P:
        self.V('value:' + what, f'{what} raised KeyError for a present key')
      return 'pop:KeyError'
    if k not in P:
      self.V('value:' + what, f'{what} returned for a missing key')
      return 'pop:?'
    self._type(new, what)
    self.probe(w, val, P[k], what + '[1]')
    self.probe(w, new, {kk: vv for kk, vv in P.items() if kk != k}, what + '[0]')
    return 'pop:' + type(val).__name__

  def a_unfreeze(self, w):
    P = self.P0
    expt = self.canon(P, True)
    self.res['evals'] += 3
    for what, u in (('unfreeze(fd)', self.fcore.unfreeze(w.fd)),
                    ('fd.unfreeze()', w.fd.unfreeze()),
                    ("unfreeze({'w':fd})['w']", self.fcore.unfreeze({'w': w.fd})['w'])):
      got = self.canon(u, True)
      if got != expt:
        self.V('value:' + what, f'{what} must be plain dicts all the way down with the '
               'contents of fd', observed=got, expected=expt)
        continue
      self.probe(w, u, P, what)
    return 'unfreeze'

  def a_freeze(self, w):
    P = self.P0
    self.res['evals'] += 5
    for what, r in (('freeze(fd)', self.fcore.freeze(w.fd)),
                    ('FrozenDict(fd)', self.FD(w.fd)),
                    ("FrozenDict({'w':fd})['w']", self.FD({'w': w.fd})['w']),
                    ('freeze(unfreeze(fd))', self.fcore.freeze(self.fcore.unfreeze(w.fd)))):
      self._type(r, what)
      self.probe(w, r, P, what)
    return 'freeze'

  def _type(self, r, what):
    if type(r) is not self.FD:
      self.V('type:' + what, f'{what} must return a FrozenDict', observed=type(r).__name__)

  def a_repr(self, w):
    self.res['evals'] += 2
    f2 = self.fresh()
    a = (repr(w.fd), self.fcore.pretty_repr(w.fd))
    b = (repr(f2), f2.pretty_repr())
    if a != b or not all(isinstance(s, str) for s in a):
      self.V('value:repr', 'repr / pretty_repr differ from those of a fresh FrozenDict with the '
             'same contents in the same insertion order', observed=a[0], expected=b[0])
    return 'repr'

  def a_hash(self, w):
    """The only API action that changes the (hidden) state."""
    self.res['evals'] += 1
    try:
      h = hash(w.fd)
    except TypeError:
      if self.hashable:
        self.V('value:hash', 'hash(fd) raised TypeError though every leaf is hashable')
      return 'hash:TypeError'
    if not self.hashable:
      self.V('value:hash', 'hash(fd) returned though a leaf is unhashable (list / array)')
      return 'hash:?'
    w.hashed = True
    h2 = hash(self.fresh())
    if h != h2:
      self.V('value:hash', 'hash(fd) differs from the hash of a fresh FrozenDict with the same '
             'contents', observed=h, expected=h2)
    return 'hash:int'

  def a_eq(self, w):
    fd, P = w.fd, self.P0
    self.res['evals'] += 6
    f2 = self.fresh()
    if not (fd == f2) or not (f2 == fd) or (fd != f2) or not (fd == fd):
      self.V('value:eq', 'fd == a fresh FrozenDict with the same contents is not True')
    variants = [dict(self.plain(self.spec0), q=1)]
    if P:
      k = sorted(P)[0]
      less = self.plain(self.spec0)
      del less[k]
      variants.append(less)
      ch = self.plain(self.spec0)
      ch[k] = -12345
      variants.append(ch)
    for v in variants:
      f3 = self.FD(v)
      if fd == f3 or not (fd != f3):
        self.V('value:neq', 'fd == a FrozenDict with different contents', observed=self.canon(f3))
    return 'eq'

  def a_pickle(self, w):
    fd, P = w.fd, self.P0
    self.res['evals'] += 3
    for what, r in (('pickle', pickle.loads(pickle.dumps(fd, pickle.HIGHEST_PROTOCOL))),
                    ('copy.deepcopy', _copy.deepcopy(fd)),
                    ('copy.copy', _copy.copy(fd))):
      self._type(r, what)
      if self.canon(r) == self.exp and not (r == fd and fd == r):
        self.V('value:' + what + '.eq', f'{what} result has the same contents but is not == fd')
      self.probe(w, r, P, what)
    return 'pickle'

  def _sigs(self, leaves):
    return [M.leaf_sig(x) for x in leaves]

  def a_flatten(self, w):
    tu = self.jax.tree_util
    fd, P = w.fd, self.P0
    self.res['evals'] += 5
    leaves, td = tu.tree_flatten(fd)
    ref_leaves, _ = tu.tree_flatten(self.plain(self.spec0))  # oracle: JAX on the plain dict
    if self._sigs(leaves) != self._sigs(ref_leaves):
      self.V('value:tree_flatten', 'tree_flatten(fd) leaves differ from tree_flatten of the '
             'plain dict with the same contents', observed=self._sigs(leaves),
             expected=self._sigs(ref_leaves))
      return 'flatten'
    if self._sigs(tu.tree_leaves(fd)) != self._sigs(ref_leaves) or tu.tree_structure(fd) != td:
      self.V('value:tree_leaves', 'tree_leaves / tree_structure disagree with tree_flatten')
    kp = [tu.keystr(p) for p, _ in tu.tree_flatten_with_path(fd)[0]]
    kp_ref = [tu.keystr(p) for p, _ in tu.tree_flatten_with_path(self.plain(self.spec0))[0]]
    if kp != kp_ref:
      self.V('value:key-paths', 'tree_flatten_with_path key paths differ from those of the '
             'plain dict', observed=kp, expected=kp_ref)
    for what, r in (('tree_unflatten(tree_flatten(fd))', tu.tree_unflatten(td, leaves)),
                    ('treedef.unflatten', td.unflatten(list(leaves)))):
      self._type(r, what)
      if self.canon(r) == self.exp and not (r == fd):
        self.V('value:' + what + '.eq', f'{what} has the same contents but is not == fd')
      self.probe(w, r, P, what)
    return 'flatten'

  def a_tree_map(self, w):
    tu = self.jax.tree_util
    fd, P = w.fd, self.P0
    self.res['evals'] += 3
    for what, r in (('tree_map(id,fd)', tu.tree_map(lambda x: x, fd)),
                    ('tree_map(first,fd,fd)', tu.tree_map(lambda a, b: a, fd, fd))):
      self._type(r, what)
      self.probe(w, r, P, what)
    r = tu.tree_map(lambda x: x + 1, fd)
    exp = M.map_leaves(lambda x: x + 1, P)
    self._type(r, 'tree_map(+1,fd)')
    self.probe(w, r, exp, 'tree_map(+1,fd)')
    return 'tree_map'

  def a_state_dict(self, w):
    fd, P = w.fd, self.P0
    self.res['evals'] += 2
    sd = self.ser.to_state_dict(fd)
    exp_sd = self.canon(M.state_dict_model(P), True)
    if self.canon(sd, True) != exp_sd:
      self.V('value:to_state_dict', 'to_state_dict(fd) differs from the model (plain dicts, '
             'sequences as index-keyed dicts)', observed=self.canon(sd, True), expected=exp_sd)
      return 'state_dict'
    st = self.storage(fd)
    for d in M.plain_dicts(sd, []):
      if id(d) in st:
        self.V('alias-id:to_state_dict', 'to_state_dict(fd) returned a dict that IS a dict '
               'inside fd._dict')
    r = self.ser.from_state_dict(fd, sd)
    self._type(r, 'from_state_dict')
    M.scribble(sd)
    if self.canon(r) != self.exp:
      self.V('value:from_state_dict', 'from_state_dict(fd, to_state_dict(fd)) differs from fd '
             '(after the state dict was mutated)', observed=self.canon(r), expected=self.exp)
      return 'state_dict'
    self.probe(w, r, P, 'from_state_dict')
    return 'state_dict'

  def a_mutators(self, w):
    fd, P = w.fd, self.P0
    k0 = sorted(P)[0] if P else 'a'
    muts = [
      ('setitem-existing', lambda: fd.__setitem__(k0, 1)),
      ('setitem-new', lambda: fd.__setitem__('q', {'z': 1})),
      ('delitem', lambda: fd.__delitem__(k0)),
      ('update', lambda: fd.update({k0: 1, 'q': 2})),
      ('update-kw', lambda: fd.update(q=2)),
      ('clear', lambda: fd.clear()),
      ('setdefault', lambda: fd.setdefault('q', 1)),
      ('popitem', lambda: fd.popitem()),
      ('setattr', lambda: setattr(fd, 'q', 1)),
    ]
    for p in M.model_paths(P):
      if isinstance(M.at(P, p), dict):
        def nested(p=p):
          v = fd
          for k in p:
            v = v[k]
          v['q'] = 1
        muts.append(('setitem@' + '.'.join(p), nested))
    for name, fn in muts:
      self.res['evals'] += 1
      try:
        fn()
      except Exception as e:  # noqa: the class of the refusal is incidental
        core.outcome(self.res, f'mutator:{name.split("@")[0]}:{type(e).__name__}')
      else:
        self.V('mutator-no-raise:' + name, f'{name} on a FrozenDict did not raise')
      if not self.inv(w):
        return 'mutators'
    # statements rather than calls
    self.res['evals'] += 2
    try:
      del fd[k0]
    except Exception:  # noqa
      pass
    else:
      self.V('mutator-no-raise:del', 'del fd[k] did not raise')
    g = fd
    try:
      g |= {'q': 1}
    except Exception:  # noqa
      pass
    # no claim on whether |= raises: it may rebind g; fd itself must not change (inv)
    return 'mutators'

  # -- state-level checks -----------------------------------------------------

  def order_checks(self, a, b, what):
    """a, b: FrozenDicts with equal contents but different insertion orders."""
    tu = self.jax.tree_util
    self.res['evals'] += 3
    if not (a == b) or not (b == a) or a != b:
      self.V('order-eq:' + what, 'FrozenDicts with the same items inserted in a different '
             'order are not ==')
    if self.hashable:
      if hash(a) != hash(b):
        self.V('order-hash:' + what, 'FrozenDicts with the same items inserted in a different '
               'order have different hashes', observed=hash(b), expected=hash(a))
    la, ta = tu.tree_flatten(a)
    lb, tb = tu.tree_flatten(b)
    if self._sigs(la) != self._sigs(lb) or ta != tb:
      self.V('order-flatten:' + what, 'tree_flatten depends on the insertion order',
             observed=(self._sigs(lb), str(tb)), expected=(self._sigs(la), str(ta)))

  def initial_checks(self, w):
    self.action = 'orderings'
    ords = M.orderings(self.spec0)
    for o in ords[1:]:
      src = M.build_src(o, (), self.mult, self.mkarr)
      self.order_checks(w.fd, self.construct(src), M.show(o))
    if self.P0:
      self.res['evals'] += 2
      a = w.fd.copy({'c': 1})
      b = self.FD({'c': 1, **self.plain(self.spec0)})
      self.order_checks(a, b, 'copy-vs-first')
    core.outcome(self.res, f'orderings:{len(ords)}')

  def state_checks(self, w):
    """On arrival in a new state: freezing the *current* source (whose insertion
    order is a product of the history) gives its modelled contents, and equals
    the FrozenDict of the key-sorted rebuild."""
    self.action = 'refreeze-now'
    now = self.construct(w.src)
    pn = self.plain(w.spec)
    if self.canon(now) != self.canon(pn):
      self.V('value:construct', 'FrozenDict(src) of the mutated source differs from the model',
             observed=self.canon(now), expected=self.canon(pn))
      return
    srt = self.FD(_sorted_plain(pn))
    hashable_now = M.hashable(w.spec)
    old = self.hashable
    self.hashable = hashable_now
    try:
      self.order_checks(now, srt, 'now-vs-sorted')
    finally:
      self.hashable = old

  # -- search -------------------------------------------------------------------

  def run(self):
    res = self.res
    seen = {(M.skey(self.spec0), False)}
    frontier = [((), self.spec0, False)]
    n_states = 1
    sample = None
    for level in range(1, self.depth):
      # frontier: states reached by histories of `level` actions (construct included)
      nxt = []
      for hist, spec, hashed in frontier:
        self.hist, self.action = hist, 'arrive'
        w = self.replay(hist)
        if level == 1:
          if not self.inv(w, True):
            continue
          self.state_checks(w)
          self.initial_checks(w)
        if self.nontriv:
          res['nontrivial'].append(core.h([self.sid, M.skey(spec), hashed]))
        broken = False
        for name, fn in self.api_actions(w):
          self.action = name
          res['transitions'] += 1
          core.outcome(res, fn())
          if not self.inv(w):
            broken = True
            break
        if broken:
          continue
        # hash last: it moves the live world into the hash-cached state
        if not hashed:
          self.action = 'hash'
          res['transitions'] += 1
          core.outcome(res, self.a_hash(w))
          if not self.inv(w):
            continue
          if w.hashed:
            key = (M.skey(spec), True)
            if key not in seen:
              seen.add(key)
              nxt.append((hist + ('hash',), spec, True))
        for m in M.mutations(spec, self.rich):
          h2 = hist + (m,)
          self.hist, self.action = h2, 'arrive'
          res['transitions'] += 1
          w2 = self.replay(h2)
          core.outcome(res, 'mut:' + m[0] + (':' + m[3] if m[3] else ''))
          if not self.inv(w2, True):
            continue
          key = (M.skey(w2.spec), hashed)
          if key not in seen:
            seen.add(key)
            if level + 1 < self.depth:  # states that will be expanded
              self.state_checks(w2)
            nxt.append((h2, w2.spec, hashed))
            if sample is None and level >= 2:
              sample = dict(source=M.show(self.spec0), constructor=self.ctor,
                            history=['construct'] + [_mstr(x) for x in h2],
                            src_now=M.show(w2.spec),
                            fd_contents='unchanged: ' + M.show(self.spec0))
      n_states += len(nxt)
      frontier = nxt
    res['states'] += n_states
    if sample and len(res['samples']) < 2:
      res['samples'].append(sample)


def _sorted_plain(p):
  if isinstance(p, dict):
    return {k: _sorted_plain(p[k]) for k in sorted(p, reverse=True)}
  return p


# ===========================================================================
# struct part
# ===========================================================================


def _struct_case(res, ckind, layout, depth, seed):
  import jax
  import jax.numpy as jnp
  from flax import struct
  tu = jax.tree_util

  cid = f"{ckind}|{','.join(k + ('=d' if d else '') for k, d in layout)}"
  case = dict(class_kind=ckind, layout=layout)

  def V(clause, what, hist='', observed=None, expected=None):
    _viol(res, f'struct-{clause}|{cid}|{hist}', what, dict(case, history=hist),
          observed=repr(observed)[:800] if observed is not None else None,
          expected=repr(expected)[:800] if expected is not None else None)

  rot = seed % 2
  # data: float32 scalars (one aval); the default must be hashable for dataclasses,
  # a NumPy scalar has the same aval as the 0-d jax arrays of the pool
  dpool = [jnp.asarray(1., jnp.float32), jnp.asarray(3., jnp.float32)]
  if rot:
    dpool.reverse()
  ddef = np.float32(7.)
  n = len(layout)
  names = S.NAMES[:n]
  static = [S.is_static(k) for k, _ in layout]

  def value(i, idx):
    if static[i]:
      if idx == 'd':
        return 2
      return 3 + i if idx == 0 else tuple([1, 2 + i])  # a fresh, equal tuple every time
    if idx == 'd':
      return ddef
    return dpool[idx] + i

  defaults = {names[i]: value(i, 'd') for i in range(n)}
  res['evals'] += 1
  try:
    cls, _ = S.make_class(struct, ckind, layout, defaults)
  except Exception as e:  # noqa: every enumerated layout is a legal dataclass
    V('class', f'defining the class raised {type(e).__name__}: {str(e)[:200]}', 'define')
    return
  data_names = [nm for nm, s in zip(names, static) if not s]
  static_names = [nm for nm, s in zip(names, static) if s]
  nontriv = bool(data_names) and bool(static_names)

  # ---- construction ---------------------------------------------------------
  idx0 = tuple('d' if d else 0 for _, d in layout)
  vals0 = {names[i]: value(i, idx0[i]) for i in range(n) if idx0[i] != 'd'}
  res['evals'] += 1
  try:
    if ckind.endswith('k'):
      obj0 = cls(**vals0)
    else:
      obj0 = cls(*[vals0[nm] for nm in names if nm in vals0])
  except Exception as e:  # noqa: the generated __init__ takes the declared fields
    V('construct', f'constructing an instance raised {type(e).__name__}: {str(e)[:200]}',
      'construct')
    return
  held0 = dict(vals0)
  for i in range(n):
    if idx0[i] == 'd':
      got = getattr(obj0, names[i])
      if got is not defaults[names[i]]:
        V('default', f'field {names[i]} did not take its default', 'construct', observed=got)
      held0[names[i]] = got
  if not dataclasses.is_dataclass(obj0) or [f.name for f in dataclasses.fields(obj0)] != names:
    V('fields', 'dataclass fields differ from the declared layout', 'construct',
      observed=[f.name for f in dataclasses.fields(obj0)], expected=names)
    return

  # ---- the traced function and its cache model --------------------------------
  traces = [0]
  bad_static = []

  def f(o):
    traces[0] += 1
    tot = jnp.zeros((), jnp.float32)
    for j, nm in enumerate(names):
      v = getattr(o, nm)
      if static[j]:
        if not isinstance(v, (int, tuple)) or isinstance(v, jax.core.Tracer):
          bad_static.append((nm, type(v).__name__))
          continue
        tot = tot + 100. * (v if isinstance(v, int) else sum(v))
      else:
        if not isinstance(v, jax.core.Tracer):
          bad_static.append((nm, 'data field not traced: ' + type(v).__name__))
        tot = tot + (j + 1) * v
    return tot

  jf = jax.jit(f)
  seen_static = set()

  def f_ref(held):
    tot = np.zeros((), np.float64)
    for j, nm in enumerate(names):
      v = held[nm]
      if static[j]:
        tot = tot + 100. * (v if isinstance(v, int) else sum(v))
      else:
        tot = tot + (j + 1) * np.asarray(v, np.float64)
    return tot

  def statics_of(held):
    return tuple(held[nm] for nm in static_names)

  def call_jit(o, held, hist):
    """One jitted call; the reference model of the cache: a trace happens iff
    this tuple of static field values was not seen before (avals never change)."""
    res['evals'] += 1
    before = traces[0]
    out = jf(o)
    d = traces[0] - before
    sk = statics_of(held)
    expect = 0 if sk in seen_static else 1
    seen_static.add(sk)
    if d != expect:
      V('retrace', f'jitted function traced {d}x on this call, model says {expect} (retrace '
        'iff a static field value not seen before, never for a data-only change)', hist,
        observed=d, expected=expect)
    if bad_static:
      V('static-traced', 'inside jit a static field is not the Python value / a data field is '
        'not a tracer', hist, observed=bad_static[:3])
      del bad_static[:]
    # integer-valued float32 data: exact
    if np.asarray(out, np.float64).tolist() != f_ref(held).tolist():
      V('jit-value', 'jitted function of the instance returned a wrong value', hist,
        observed=np.asarray(out).tolist(), expected=f_ref(held).tolist())
    return 'retrace' if d else 'cache-hit'

  def check_obj(o, held, hist):
    """Pytree view of one instance."""
    res['evals'] += 2
    leaves = tu.tree_leaves(o)
    exp = [held[nm] for nm in data_names]
    if len(leaves) != len(exp) or any(a is not b for a, b in zip(leaves, exp)):
      V('leaves', 'tree_leaves(instance) are not exactly the pytree_node=True fields in '
        'declaration order', hist, observed=leaves, expected=exp)
      return False
    for nm in names:
      if getattr(o, nm) is not held[nm]:
        V('field-value', f'field {nm} does not hold the value it was given', hist)
        return False
    return True

  def frozen_checks(o, held, hist):
    for nm in names + ['brand_new']:
      res['evals'] += 1
      try:
        setattr(o, nm, 99)
      except dataclasses.FrozenInstanceError:
        core.outcome(res, 'frozen:setattr:FrozenInstanceError')
      except Exception as e:  # noqa
        if ckind == 'dcs' and nm == 'brand_new' and isinstance(e, (TypeError, AttributeError)):
          # CPython: a frozen dataclass with __slots__ rejects an unknown attribute with
          # TypeError / AttributeError before reaching FrozenInstanceError; still refused
          core.outcome(res, 'frozen:setattr:slots-' + type(e).__name__)
          continue
        V('frozen-class', f'assignment to {nm} raised {type(e).__name__}, not '
          'FrozenInstanceError', hist)
      else:
        V('frozen', f'assignment to field {nm} succeeded', hist)
    for nm in names[:1]:
      res['evals'] += 1
      try:
        delattr(o, nm)
      except dataclasses.FrozenInstanceError:
        core.outcome(res, 'frozen:delattr:FrozenInstanceError')
      except Exception as e:  # noqa
        V('frozen-class', f'del of {nm} raised {type(e).__name__}, not FrozenInstanceError',
          hist)
      else:
        V('frozen', f'del of field {nm} succeeded', hist)
    res['evals'] += 1
    try:
      o.replace(no_such_field=1)
    except Exception:  # noqa: which class is incidental
      pass
    else:
      V('replace-unknown', 'replace(no_such_field=...) did not raise', hist)
    for nm in names:
      if getattr(o, nm, None) is not held[nm]:
        V('frozen-changed', f'field {nm} changed after refused mutations', hist)

  # ---- BFS over replace histories ----------------------------------------------
  if not check_obj(obj0, held0, 'construct'):
    return
  frozen_checks(obj0, held0, 'construct')
  core.outcome(res, 'jit:' + call_jit(obj0, held0, 'construct'))
  seen = {idx0}
  frontier = [(obj0, held0, idx0, ('construct',))]
  n_states = 1
  sample = None
  for level in range(1, depth):
    nxt = []
    for o, held, idx, hist in frontier:
      edits = []
      for i in range(n):
        for v in (0, 1):
          if idx[i] != v:
            edits.append(((i, v),))
      if depth > 3 and n >= 2:
        for i in range(n - 1):  # two fields at once
          edits.append(((i, 1 if idx[i] != 1 else 0), (i + 1, 1 if idx[i + 1] != 1 else 0)))
      for edit in edits:
        upd = {names[i]: value(i, v) for i, v in edit}
        hs = '>'.join(hist) + '>' + 'replace(' + ','.join(f'{names[i]}={v}' for i, v in edit) + ')'
        res['transitions'] += 1
        res['evals'] += 1
        before = {nm: getattr(o, nm) for nm in names}
        new = o.replace(**upd)
        if new is o:
          V('replace-same', 'replace returned the same object', hs)
        if type(new) is not cls:
          V('replace-type', 'replace returned another class', hs, observed=type(new).__name__)
          continue
        held2 = dict(held)
        held2.update(upd)
        for nm in names:
          if getattr(o, nm) is not before[nm] or before[nm] is not held[nm]:
            V('replace-mutated', f'replace changed field {nm} of the original instance', hs)
          if getattr(new, nm) is not held2[nm]:
            V('replace-fields', f'after replace field {nm} is not '
              + ('the new value' if nm in upd else 'the old object'), hs,
              observed=getattr(new, nm), expected=held2[nm])
        if not check_obj(new, held2, hs):
          continue
        same_static = statics_of(held) == statics_of(held2)
        res['evals'] += 1
        if (tu.tree_structure(o) == tu.tree_structure(new)) != same_static:
          V('treedef', 'treedefs of two instances must be equal iff their static fields are '
            'equal', hs, observed=str(tu.tree_structure(new)))
        lab = call_jit(new, held2, hs)
        core.outcome(res, 'replace:' + ('static' if any(static[i] for i, _ in edit) else 'data')
                     + ':' + lab)
        idx2 = list(idx)
        for i, v in edit:
          idx2[i] = v
        idx2 = tuple(idx2)
        if idx2 not in seen:
          seen.add(idx2)
          n_states += 1
          frozen_checks(new, held2, hs)
          nxt.append((new, held2, idx2, hist + (hs.rsplit('>', 1)[1],)))
          if nontriv:
            res['nontrivial'].append(core.h([cid, idx2]))
          if sample is None and level >= 2:
            sample = dict(class_kind=ckind, layout=layout, history=list(hist) + [hs.rsplit('>', 1)[1]],
                          traces=traces[0], static_tuples_seen=len(seen_static))
    frontier = nxt
  res['states'] += n_states
  if nontriv:
    res['nontrivial'].append(core.h([cid, idx0]))
  if sample and len(res['samples']) < 2:
    res['samples'].append(sample)

  # ---- transformations reconstruct the class with the same statics ---------------
  def same_class(r, held, what, data_expected):
    if type(r) is not cls:
      V('xform-type:' + what, f'{what} returned {type(r).__name__}, not the class', what)
      return
    for nm in static_names:
      if getattr(r, nm) is not held[nm] and getattr(r, nm) != held[nm]:
        V('xform-static:' + what, f'{what}: static field {nm} changed', what,
          observed=getattr(r, nm), expected=held[nm])
      if isinstance(getattr(r, nm), (jax.Array, np.ndarray)):
        V('xform-static:' + what, f'{what}: static field {nm} came back as an array', what)
    for nm in data_names:
      got = np.asarray(getattr(r, nm), np.float64).tolist()
      if got != np.asarray(data_expected[nm], np.float64).tolist():
        V('xform-data:' + what, f'{what}: data field {nm} wrong', what, observed=got,
          expected=np.asarray(data_expected[nm]).tolist())

  # every field set explicitly, statics = tuple value for odd positions
  heldx = {names[i]: value(i, i % 2) for i in range(n)}
  objx = cls(**heldx)
  dx = {nm: np.asarray(heldx[nm]) for nm in data_names}
  res['evals'] += 6
  same_class(tu.tree_map(lambda x: x * 2, objx), heldx, 'tree_map',
             {nm: dx[nm] * 2 for nm in data_names})
  lv, td = tu.tree_flatten(objx)
  same_class(tu.tree_unflatten(td, lv), heldx, 'unflatten', dx)
  same_class(jax.jit(lambda o: o)(objx), heldx, 'jit-identity', dx)
  if data_names:
    same_class(jax.jit(lambda o: o.replace(**{data_names[0]: getattr(o, data_names[0]) + 1}))(objx),
               heldx, 'jit-replace',
               dict(dx, **{data_names[0]: dx[data_names[0]] + 1}))

  def loss(o):
    tot = jnp.float32(0.)
    for j, nm in enumerate(names):
      if not static[j]:
        tot = tot + (j + 1) * jnp.sum(getattr(o, nm))
    return tot

  g = jax.grad(loss)(objx)
  same_class(g, heldx, 'grad',
             {nm: np.float64(names.index(nm) + 1.0) for nm in data_names})
  if data_names:
    heldb = dict(heldx)
    for nm in data_names:
      heldb[nm] = jnp.stack([heldx[nm], heldx[nm] + 10, heldx[nm] + 20])
    objb = cls(**heldb)
    inner_bad = []

    def body(o):
      for nm in data_names:
        if getattr(o, nm).shape != ():
          inner_bad.append(nm)
      for nm in static_names:
        if getattr(o, nm) != heldx[nm]:
          inner_bad.append(nm)
      return o.replace(**{nm: getattr(o, nm) * 2 for nm in data_names})

    res['evals'] += 1
    r = jax.vmap(body)(objb)
    same_class(r, heldb, 'vmap', {nm: np.asarray(heldb[nm]) * 2 for nm in data_names})
    if inner_bad:
      V('xform-vmap-inner', 'inside vmap the instance did not have per-example data / the '
        'same statics', 'vmap', observed=inner_bad)
    core.outcome(res, 'xform:with-data')
  else:
    core.outcome(res, 'xform:no-data(vmap skipped: nothing to map)')
