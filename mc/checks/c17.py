"""C17 — optimizer wrappers = optax by hand; metrics ignore batching (DESIGN §4 C17).

Part 1 (optimizers).  Explicit-state exploration over gradient-step histories
on the three real wrappers.  A state is the canonical (params, opt_state, step);
a transition is one `apply_gradients` / `update` call on the real object,
compared bitwise with one step of the hand-written optax loop
(`mc.models.c17_opt.hand_step`).  The functional train states are explored as a
tree (every reached instance is kept and branched three ways, which also shows
that old instances stay intact); the mutable `nnx.Optimizer` is rebuilt and the
history replayed for every maximal history, checking after each step.

Part 2 (metrics).  Explicit-state BFS over update/reset histories of a real
metric object.  A state is (graphdef + every Variable of the metric, exact
integer summary of the values since the last reset, values consumed, resets
used); states with the same key have the same futures, so each is expanded once
(with every batch that still fits in the stream bound, and reset).  Since every
path from the root is a (stream, composition, reset position) triple and every
such triple is a path, all compositions are covered.  Live objects cannot be
copied, so a state is restored by replaying the shortest history on a fresh
metric.
"""
from __future__ import annotations

import itertools
import math
import os
from collections import deque

import numpy as np

from mc.engine import core
from mc.models import c17_metrics as MM
from mc.models import c17_opt as MO

PROPERTY = 'C17'
LEVEL = 'model_checking'
RULE = ('optimizers: {TrainState.apply_gradients, nnx.Optimizer.update, '
        'nnx.TrainState.apply_gradients} x parameter trees x wrt filters x optax '
        'transformations x {eager, jit} x ALL gradient histories up to the depth bound over '
        'a 3-element integer-valued gradient pool; every call is compared bitwise with the '
        'hand-written optax loop. metrics: BFS over update/reset histories: every stream over a '
        '3-value pool up to the length bound x every composition into consecutive batches x '
        'reset at every position, states merged on (all metric Variables + static attributes, '
        'exact summary of the stream since reset, consumed, resets). '
        'non-trivial = optimizer state whose params differ from the initial ones / metric '
        'state with >= 2 update calls or a reset after data; distinct = distinct canonical state')
ASSUMPTIONS = [
  'gradients, parameters and metric values are small integers stored in float32 (int32 labels)',
  'under jit the oracle is the hand-written loop under jax.jit (same primitives, same '
  'order); eager is compared with the eager loop',
  'reading nnx objects back uses nnx.state / nnx.split (their correctness is C03)',
  'optax itself is trusted (it is both sides of the comparison)',
  'extra keyword arguments to tx.update (GradientTransformationExtraArgs) are not exercised',
]

MAX_VIOL_PER_UNIT = 12


def bounds(tier):
  q = tier == 'quick'
  return dict(
    history_depth=3 if q else 4, history_depth_multisteps_eager=2 if q else 3,
    gradient_pool=3,
    optax=MO.TX_QUICK if q else MO.TX_THOROUGH,
    linen_trees=MO.LINEN_TREES_QUICK if q else MO.LINEN_TREES_THOROUGH,
    nnx_tree_wrt=[list(c) for c in (MO.NNX_CONFIGS_QUICK if q else MO.NNX_CONFIGS_THOROUGH)],
    modes=['eager', 'jit'],
    metric_stream_len=5 if q else 6, metric_pool=3, metric_resets=1 if q else 2,
    metric_variants=MM.VARIANTS_QUICK if q else MM.VARIANTS_THOROUGH)


def units(tier, seed):
  b = bounds(tier)
  us = []
  for tx in b['optax']:
    for tree in b['linen_trees']:
      us.append(dict(part='opt', wrapper='TrainState', tree=tree, wrt='-', tx=tx))
    for tree, wrt in b['nnx_tree_wrt']:  # 'nnx' = nnx.Optimizer and nnx.TrainState
      us.append(dict(part='opt', wrapper='nnx', tree=tree, wrt=wrt, tx=tx))
  # mixed precision: low-precision parameters with float32 optimizer state / updates
  for txn in MIXED_TX:
    us.append(dict(part='mixed', tx=txn))
  n = b['metric_stream_len']
  for variant in b['metric_variants']:
    for v0 in range(3):
      for l1 in range(1, n + 1):
        us.append(dict(part='metric', variant=variant, v0=v0, l1=l1))
  # longest first (better packing over the workers); the seed does not touch the
  # unit list, it permutes the pool enumeration order inside the units
  def cost(u):
    if u['part'] == 'opt':
      return (40 if u['wrapper'] == 'nnx' else 15) if u['tx'].startswith('multisteps') else 2
    if u['part'] == 'mixed':
      return 5
    return {1: 20, 2: 8}.get(u['l1'], 2) * (2 if u['variant'] == 'multi' else 1)
  us = sorted(us, key=lambda u: -cost(u))
  # interleave the optimizer and the metric units (both stay longest-first) so
  # that the written-out samples in the evidence come from both parts
  a = [u for u in us if u['part'] == 'opt']
  b = [u for u in us if u['part'] == 'metric']
  out = []
  for i in range(max(len(a), len(b))):
    out += a[i:i + 1] + b[i:i + 1]
  return out + [u for u in us if u['part'] == 'mixed']


def setup_worker():
  import jax  # noqa
  import optax  # noqa
  import flax  # noqa
  from flax import nnx  # noqa
  MO.nnx_classes()


def _seed():
  return int(os.environ.get('VERIF_SEED', '0') or 0)


def _tier():
  return os.environ.get('VERIF_TIER', 'quick')


def _pool_order():
  return list(list(itertools.permutations(range(3)))[_seed() % 6])


_UNITS_RUN = [0]


def run_unit(unit):
  res = core.new_result()
  _UNITS_RUN[0] += 1
  if _UNITS_RUN[0] % 4 == 0:  # keep a worker's compilation caches (memory) bounded
    import jax
    jax.clear_caches()
    _KW.clear()
  if unit['part'] == 'mixed':
    _mixed(res, unit)
    return res
  if unit['part'] == 'opt':
    for mode in ('eager', 'jit'):
      if unit['wrapper'] == 'TrainState':
        _linen(res, unit, mode)
      else:
        _nnx_opt(res, dict(unit, wrapper='nnx.Optimizer'), mode)
        _nnx_ts(res, dict(unit, wrapper='nnx.TrainState'), mode)
  else:
    _metric(res, unit)
  return res


# ==========================================================================
# Part 1: optimizers

class _Ctx:
  """Violation / bookkeeping helper of one (unit, mode)."""

  def __init__(self, res, unit, mode):
    self.res, self.unit, self.mode = res, unit, mode
    self.cfg = f"{unit['wrapper']}|{unit['tree']}|{unit['wrt']}|{unit['tx']}|{mode}"
    self.keys = set()
    self.sampled = False

  def V(self, clause, what, hist, observed=None, expected=None):
    if len(self.res['violations']) >= MAX_VIOL_PER_UNIT:
      return
    hs = ','.join(map(str, hist))
    key = f'{clause}|{self.cfg}|hist={hs}'
    if any(v['key'] == key for v in self.res['violations']):
      return  # the mutable optimizer re-executes shared prefixes
    core.violation(self.res, key, what,
                   dict(self.unit, mode=self.mode, history=list(hist),
                        gradient_pool='mc.models.c17_opt.grad_value(k, leaf_index, shape)'),
                   observed=observed, expected=expected)

  def record_state(self, hist, psig, osig, step, init_psig):
    k = MO.state_key(psig, osig, step)
    if k not in self.keys:
      self.keys.add(k)
      self.res['states'] += 1
      if hist and [s[-1] for s in psig] != [s[-1] for s in init_psig]:
        self.res['nontrivial'].append(core.h([self.cfg, k]))
    nchanged = sum(1 for a, b in zip(psig, init_psig) if a[-1] != b[-1])
    core.outcome(self.res, f"{self.unit['wrapper']}:{self.mode}:step={step}:"
                 f"params_changed={nchanged}/{len(psig)}:opt_leaves={len(osig)}")
    if not self.sampled and len(hist) >= 2:
      self.sampled = True
      self.res['samples'].append(dict(
        self.unit, mode=self.mode, history=list(hist), step=int(step),
        first_param_leaf=np.frombuffer(psig[0][-1], dtype=psig[0][1]).tolist(),
        opt_state_leaves=len(osig)))


def _histories(depth):
  order = _pool_order()
  return [h for h in itertools.product(order, repeat=depth)]


def _depth(unit, mode):
  b = bounds(_tier())
  # optax.MultiSteps runs a lax.cond that is re-traced on every eager call
  # (~0.1 s per step): eager histories are one step shorter there, the jit
  # histories have the full depth
  if unit['tx'].startswith('multisteps') and mode == 'eager':
    return b['history_depth_multisteps_eager']
  return b['history_depth']


def _compare(ctx, hist, what, obs, exp, clause):
  d = MO.diff_sigs(obs, exp)
  if d is not None:
    ctx.V(clause, f'{what} differ from the hand-written optax loop after history '
          f'{list(hist)}: {d}', hist, observed=d)
    return False
  return True


def _strip_value(sigs):
  """Key paths of nnx States end in the VariableState field; the reference is a
  plain dict.  Normalise both to the dict path."""
  out = []
  for s in sigs:
    k = s[0]
    for suf in ('.value', '.raw_value'):
      if k.endswith(suf):
        k = k[:-len(suf)]
    out.append((k,) + tuple(s[1:]))
  return out


# ---- flax.training.train_state.TrainState ---------------------------------

def _linen(res, unit, mode):
  import jax
  import jax.numpy as jnp
  from typing import Any
  from flax import struct
  from flax.linen.fp8_ops import OVERWRITE_WITH_GRADIENT as OWG
  from flax.training.train_state import TrainState

  class TS(TrainState):
    batch_stats: Any = None
    tag: str = struct.field(pytree_node=False, default='t')

  ctx = _Ctx(res, unit, mode)
  tree, owg = unit['tree'], MO.is_owg(unit['tree'])
  tx = MO.make_tx(unit['tx'])
  mk = lambda: MO.linen_tree(tree, lambda i, shape: jnp.asarray(MO.init_value(i, shape)))
  grads = [(MO.linen_tree(tree, lambda i, shape, k=k: jnp.asarray(MO.grad_value(k, i, shape))),
            MO.linen_tree(tree, lambda i, shape, k=k: jnp.asarray(MO.grad_value(k, i, shape))))
           for k in range(3)]
  apply_fn = lambda *a, **k: None
  bs = {'mean': jnp.asarray([1., 2.], jnp.float32)}
  use_sub = tree != 'single'  # the base class for the single-array tree, a subclass elsewhere

  def create():
    if use_sub:
      return TS.create(apply_fn=apply_fn, params=mk(), tx=tx, batch_stats=bs, tag='t')
    return TrainState.create(apply_fn=apply_fn, params=mk(), tx=tx)

  # reference
  p0 = mk()
  s0 = tx.init(p0['params'] if owg else p0)
  hand = (lambda p, s, g: MO.hand_step(tx, p, s, g))
  if mode == 'jit':
    hand = jax.jit(hand)

  def ref_step(ref, g):
    p, s, n = ref
    if owg:
      pp, s = hand(p['params'], s, g['params'])
      return ({'params': pp, OWG: g[OWG]}, s, n + 1)
    p, s = hand(p, s, g)
    return (p, s, n + 1)

  if mode == 'jit':
    impl_step = jax.jit(lambda st, g: st.apply_gradients(grads=g))
  else:
    impl_step = lambda st, g: st.apply_gradients(grads=g)

  def observe(st):
    return dict(p=MO.leaves_sig(st.params), o=MO.leaves_sig(st.opt_state),
                pt=str(jax.tree.structure(st.params)), ot=str(jax.tree.structure(st.opt_state)),
                step=int(np.asarray(st.step)),
                extra=(st.apply_fn is apply_fn, st.tx == tx, type(st).__name__,
                       getattr(st, 'tag', None),
                       MO.leaves_sig(getattr(st, 'batch_stats', None))))

  def expect(ref):
    p, s, n = ref
    return dict(p=MO.leaves_sig(p), o=MO.leaves_sig(s), pt=str(jax.tree.structure(p)),
                ot=str(jax.tree.structure(s)), step=n)

  res['evals'] += 1
  try:
    st0 = create()
  except Exception as e:  # noqa: the reference constructs fine
    ctx.V('create-raises', f'TrainState.create raised {type(e).__name__}: {e}', ())
    return
  _explore_functional(ctx, st0, (p0, s0, 0), impl_step, ref_step, observe, expect, grads,
                      structure=not owg)


def _explore_functional(ctx, st0, ref0, impl_step, ref_step, observe, expect, grads,
                        structure=True):
  res = ctx.res

  def check(hist, st, ref, old_extra):
    o, e = observe(st), expect(ref)
    ok = _compare(ctx, hist, 'params', o['p'], e['p'], 'params')
    ok &= _compare(ctx, hist, 'opt_state leaves', o['o'], e['o'], 'opt_state')
    if structure and (o['pt'] != e['pt'] or o['ot'] != e['ot']):
      ctx.V('structure', 'pytree structure of params / opt_state differs from the hand loop',
            hist, observed=[o['pt'], o['ot']], expected=[e['pt'], e['ot']])
      ok = False
    if o['step'] != e['step']:
      ctx.V('step', f'step is {o["step"]} after {len(hist)} calls (expected {e["step"]})', hist,
            observed=o['step'], expected=e['step'])
      ok = False
    if old_extra is not None and o['extra'] != old_extra:
      ctx.V('other-fields', 'a field other than params/opt_state/step changed', hist,
            observed=repr(o['extra'])[:500], expected=repr(old_extra)[:500])
      ok = False
    return o, ok

  o0, ok = check((), st0, ref0, None)
  if not ok:
    return
  init_p = o0['p']
  ctx.record_state((), o0['p'], o0['o'], o0['step'], init_p)
  level = [((), st0, ref0, o0)]
  for _ in range(_depth(ctx.unit, ctx.mode)):
    nxt = []
    for hist, st, ref, o_old in level:
      for k in _pool_order():
        g_impl, g_ref = grads[k]
        h2 = hist + (k,)
        res['evals'] += 1
        res['transitions'] += 1
        try:
          new = impl_step(st, g_impl)
        except Exception as e:  # noqa: the hand loop below runs on the same input
          ref_step(ref, g_ref)
          ctx.V('raises', f'the call raised {type(e).__name__}: {str(e)[:300]} '
                '(the hand-written loop runs)', h2)
          continue
        refn = ref_step(ref, g_ref)
        if new is st:
          ctx.V('same-instance', 'the call returned the same instance', h2)
        if type(new) is not type(st):
          ctx.V('type', f'returned {type(new).__name__}, not {type(st).__name__}', h2)
        o_again = observe(st)
        if o_again != o_old:
          ctx.V('old-instance-changed', 'the old train state changed during the call', h2)
        o_new, ok = check(h2, new, refn, o_old['extra'])
        if not ok:
          continue  # do not explore below a wrong state
        ctx.record_state(h2, o_new['p'], o_new['o'], o_new['step'], init_p)
        nxt.append((h2, new, refn, o_new))
    level = nxt


# ---- nnx helpers ----------------------------------------------------------

def _flat_model(model):
  """{path: (type name, sig)} of every Variable of an nnx object."""
  from flax import nnx
  out = {}
  for path, vs in nnx.state(model).flat_state():
    out[tuple(path)] = (vs.type.__name__, MO.leaf_sig(vs.value))
  return out


def _nnx_grads(tree, wrt, template_state):
  """Gradient pool as nnx.State (what nnx.grad returns) and as nested dicts."""
  import jax
  import jax.numpy as jnp
  G = MO.nnx_grads(tree, wrt)
  paths = [tuple(p) for p in template_state.flat_state().paths]
  treedef = jax.tree.structure(template_state)
  out = []
  for k in range(3):
    impl = jax.tree.unflatten(treedef, [jnp.asarray(G[k][p]) for p in paths])
    ref = MO.nest({p: jnp.asarray(v) for p, v in G[k].items()})
    out.append((impl, ref))
  return out


def _sel_sigs_from_flat(flat, sel):
  return [(str(p),) + flat[p][1] for p in sel if p in flat]


def _ref_param_sigs(p_nested, sel):
  def get(d, path):
    for k in path:
      d = d[k]
    return d
  return [(str(p),) + MO.leaf_sig(get(p_nested, p)) for p in sel]


def _check_selection(ctx, tree, wrt, template_state):
  sel = MO.selected_paths(tree, wrt)
  got = sorted((tuple(p) for p in template_state.flat_state().paths), key=repr)
  if got != sel:
    ctx.V('wrt-selection', f'nnx.state(model, wrt) selects {got}, the filter means {sel}', ())
    return None
  return sel


# ---- nnx.TrainState --------------------------------------------------------

def _nnx_ts(res, unit, mode):
  import jax
  from flax import nnx, struct

  class TS(nnx.TrainState):
    other: nnx.State
    tag: str = struct.field(pytree_node=False, default='t')

  ctx = _Ctx(res, unit, mode)
  tree, wrt = unit['tree'], unit['wrt']
  tx = MO.make_tx(unit['tx'])
  filt = MO.wrt_filter(wrt)
  model = MO.build_nnx(tree)
  graphdef, params, other = nnx.split(model, filt, ...)
  sel = _check_selection(ctx, tree, wrt, params)
  if sel is None:
    return
  types0 = {tuple(p): vs.type.__name__ for p, vs in params.flat_state()}
  grads = _nnx_grads(tree, wrt, params)

  p0 = MO.nnx_ref_params(tree, wrt)
  s0 = tx.init(p0)
  hand = (lambda p, s, g: MO.hand_step(tx, p, s, g))
  if mode == 'jit':
    hand = jax.jit(hand)
    impl_step = jax.jit(lambda st, g: st.apply_gradients(g))
  else:
    impl_step = lambda st, g: st.apply_gradients(g)

  def ref_step(ref, g):
    p, s, n = ref
    p, s = hand(p, s, g)
    return (p, s, n + 1)

  def observe(st):
    flat = {tuple(p): (vs.type.__name__, MO.leaf_sig(vs.value))
            for p, vs in st.params.flat_state()}
    psig = [(str(p),) + flat[p][1] for p in sorted(flat, key=repr)]
    return dict(p=psig, o=_strip_value(MO.leaves_sig(st.opt_state)), pt='', ot='',
                step=int(np.asarray(st.step)),
                extra=(st.graphdef == graphdef, st.tx == tx, st.tag, type(st).__name__,
                       {p: t for p, (t, _) in flat.items()} == types0,
                       MO.leaves_sig(st.other)))

  def expect(ref):
    p, s, n = ref
    return dict(p=_ref_param_sigs(p, sel), o=MO.leaves_sig(s), pt='', ot='', step=n)

  res['evals'] += 1
  try:
    st0 = TS.create(graphdef, params=params, tx=tx, other=other, tag='t')
  except Exception as e:  # noqa
    ctx.V('create-raises', f'nnx.TrainState.create raised {type(e).__name__}: {e}', ())
    return
  _explore_functional(ctx, st0, (p0, s0, 0), impl_step, ref_step, observe, expect, grads)


# ---- nnx.Optimizer ---------------------------------------------------------

def _nnx_opt(res, unit, mode):
  import jax
  from flax import nnx

  ctx = _Ctx(res, unit, mode)
  tree, wrt = unit['tree'], unit['wrt']
  tx = MO.make_tx(unit['tx'])
  filt = MO.wrt_filter(wrt)
  template = nnx.state(MO.build_nnx(tree), filt)
  sel = _check_selection(ctx, tree, wrt, template)
  if sel is None:
    return
  grads = _nnx_grads(tree, wrt, template)
  table, static = MO.spec_table(MO.NNX_TREES[tree])
  init_flat = {p: (kind, MO.leaf_sig(v)) for p, (kind, v) in table.items()}
  outside = [p for p in sorted(table, key=repr) if p not in sel]

  p0 = MO.nnx_ref_params(tree, wrt)
  s0 = tx.init(p0)
  hand = (lambda p, s, g: MO.hand_step(tx, p, s, g))
  if mode == 'jit':
    hand = jax.jit(hand)

    @nnx.jit
    def impl_step(opt, g):
      opt.update(g)
  else:
    def impl_step(opt, g):
      opt.update(g)

  is_var = lambda x: isinstance(x, nnx.Variable)

  def opt_sigs(opt):
    flat, _ = jax.tree_util.tree_flatten_with_path(opt.opt_state, is_leaf=is_var)
    out, bad = [], []
    for kp, v in flat:
      if not is_var(v):
        bad.append(jax.tree_util.keystr(kp))
        continue
      out.append((jax.tree_util.keystr(kp),) + MO.leaf_sig(v.value))
    return out, bad

  init_psig = _ref_param_sigs(p0, sel)
  ref_memo = {(): (p0, s0, 0)}
  seen_prefix = set()

  all_hist = _histories(_depth(unit, mode))
  for hist in all_hist:
    res['evals'] += 1
    try:
      model = MO.build_nnx(tree)
      gd0 = nnx.graphdef(model)
      var_ids = {p: id(_get(model, p)) for p in outside}
      opt = nnx.Optimizer(model, tx, wrt=filt)
    except Exception as e:  # noqa
      ctx.V('create-raises', f'nnx.Optimizer(...) raised {type(e).__name__}: {e}', ())
      return
    if hist == all_hist[0]:
      if not _check_nnx_opt(ctx, (), opt, model, tx, ref_memo[()], sel, outside, init_flat, gd0,
                            var_ids, opt_sigs, init_psig, static, mode):
        return
    ok = True
    for i, k in enumerate(hist):
      h2 = hist[:i + 1]
      g_impl, g_ref = grads[k]
      if h2 not in ref_memo:
        p, s, n = ref_memo[h2[:-1]]
        p, s = hand(p, s, g_ref)
        ref_memo[h2] = (p, s, n + 1)
      res['evals'] += 1
      try:
        r = impl_step(opt, g_impl)
      except Exception as e:  # noqa: the hand loop ran on the same input
        ctx.V('raises', f'update raised {type(e).__name__}: {str(e)[:300]} '
              '(the hand-written loop runs)', h2)
        ok = False
        break
      if r is not None:
        ctx.V('return', f'update returned {type(r).__name__}, documented as in-place', h2)
      first = h2 not in seen_prefix
      seen_prefix.add(h2)
      res['transitions'] += 1
      if not _check_nnx_opt(ctx, h2, opt, model, tx, ref_memo[h2], sel, outside, init_flat, gd0,
                            var_ids, opt_sigs, init_psig, static, mode, record=first):
        ok = False
        break
    if not ok and len(res['violations']) >= MAX_VIOL_PER_UNIT:
      return


def _get(obj, path):
  for k in path:
    obj = obj[k] if isinstance(obj, (list, tuple, dict)) else getattr(obj, k)
  return obj


def _check_nnx_opt(ctx, hist, opt, model, tx, ref, sel, outside, init_flat, gd0, var_ids,
                   opt_sigs, init_psig, static, mode, record=True):
  from flax import nnx
  p, s, n = ref
  ok = True
  flat = _flat_model(model)
  if sorted(flat, key=repr) != sorted(init_flat, key=repr):
    ctx.V('model-variables', 'the set of Variables of the model changed', hist,
          observed=sorted(map(str, flat)), expected=sorted(map(str, init_flat)))
    return False
  psig = _sel_sigs_from_flat(flat, sel)
  ok &= _compare(ctx, hist, 'Variables selected by wrt', psig, _ref_param_sigs(p, sel), 'params')
  for q in outside:
    if flat[q][1] != init_flat[q][1]:
      ctx.V('outside-wrt', f'Variable {q} ({flat[q][0]}) is not selected by wrt but changed',
            hist, observed=np.frombuffer(flat[q][1][2], dtype=flat[q][1][0]).tolist(),
            expected=np.frombuffer(init_flat[q][1][2], dtype=init_flat[q][1][0]).tolist())
      ok = False
    if mode == 'eager' and id(_get(model, q)) != var_ids[q]:
      ctx.V('outside-wrt-identity', f'Variable object at {q} (outside wrt) was replaced', hist)
      ok = False
  for q in flat:
    if flat[q][0] != init_flat[q][0]:
      ctx.V('variable-type', f'Variable {q} changed type {init_flat[q][0]} -> {flat[q][0]}', hist)
      ok = False
  if nnx.graphdef(model) != gd0:
    ctx.V('graphdef', 'graphdef (static attributes / structure) of the model changed', hist)
    ok = False
  for q, v in static.items():
    if _get(model, q) != v:
      ctx.V('static-attr', f'non-Variable attribute {q} changed', hist,
            observed=repr(_get(model, q)), expected=repr(v))
      ok = False
  if opt.model is not model or not (opt.tx == tx):
    ctx.V('optimizer-fields', 'Optimizer.model is no longer the object passed in / Optimizer.tx changed',
          hist)
    ok = False
  osig, bad = opt_sigs(opt)
  if bad:
    ctx.V('opt_state-wrapping', f'opt_state leaves not held in Variables: {bad}', hist)
    ok = False
  ok &= _compare(ctx, hist, 'opt_state leaves', osig, MO.leaves_sig(s), 'opt_state')
  step = int(np.asarray(opt.step.value))
  if step != n:
    ctx.V('step', f'step is {step} after {len(hist)} update calls (expected {n})', hist,
          observed=step, expected=n)
    ok = False
  if ok and record:
    ctx.record_state(hist, psig, osig, step, init_psig)
  return ok


# ==========================================================================
# Part 2: metrics

def _metric_state(m):
  """(hashable key, sig list) of everything a metric object holds."""
  from flax import nnx
  gd, st = nnx.split(m)
  sig = tuple((str(tuple(p)),) + MO.leaf_sig(vs.value) for p, vs in st.flat_state())
  return (gd, sig)


_KW = {}


def _apply(m, variant, op):
  if op == 'R':
    return m.reset()
  kw = _KW.get((variant, op))
  if kw is None:  # jax arrays are immutable: the same batch arrays can be fed again
    kw = _KW[(variant, op)] = MM.update_kwargs(variant, op)
  return m.update(**kw)


def _flatten_compute(variant, c):
  """compute() result -> {name: float or (mean, sem, std)}"""
  def wf(x):
    return (float(np.asarray(x.mean)), float(np.asarray(x.standard_error_of_mean)),
            float(np.asarray(x.standard_deviation)))
  if variant == 'multi':
    return {'accuracy': np.asarray(c['accuracy']), 'loss': np.asarray(c['loss']),
            'stats': wf(c['stats']), '__keys__': sorted(c.keys())}
  if variant.startswith('welford'):
    return {'': wf(c)}
  return {'': np.asarray(c)}


def _metric(res, unit):
  variant, v0, l1 = unit['variant'], unit['v0'], unit['l1']
  b = bounds(_tier())
  N, R = b['metric_stream_len'], b['metric_resets']
  order = _pool_order()
  cfg = f'metric|{variant}'
  nviol = [0]

  def V(clause, what, hist, observed=None, expected=None):
    if nviol[0] >= MAX_VIOL_PER_UNIT:
      return
    nviol[0] += 1
    hs = ' '.join('R' if op == 'R' else '[' + ''.join(map(str, op)) + ']' for op in hist)
    core.violation(res, f'{clause}|{cfg}|ops={hs}', what,
                   dict(unit, ops=[op if op == 'R' else list(op) for op in hist],
                        pool='mc.models.c17_metrics (VALUES / MC_* / BIN_*)'),
                   observed=observed, expected=expected)

  def build(hist):
    m = MM.make_metric(variant)
    for op in hist:
      res['evals'] += 1
      _apply(m, variant, op)
    return m

  def summarize(hist):
    used = resets = 0
    since = ()
    for op in hist:
      if op == 'R':
        resets += 1
        since = ()
      else:
        used += len(op)
        since = since + tuple(op)
    return used, resets, since

  def check_compute(m, hist, since):
    """compute() vs NumPy; returns (flattened observation, metric state) or None."""
    before = _metric_state(m)
    res['evals'] += 1
    try:
      c = _flatten_compute(variant, m.compute())
    except Exception as e:  # noqa
      V('compute-raises', f'compute() raised {type(e).__name__}: {str(e)[:200]}', hist)
      return None
    after = _metric_state(m)
    if after != before:
      V('compute-mutates', 'compute() changed the metric state', hist)
    exp = MM.expected(variant, since)
    if variant == 'multi' and c['__keys__'] != sorted(exp):
      V('multi-keys', 'MultiMetric.compute() keys differ from the constructor names', hist,
        observed=c['__keys__'], expected=sorted(exp))
      return None
    good = True
    for name, (kind, ref) in exp.items():
      obs = c[name]
      if kind == 'exact':
        o32 = np.asarray(obs)
        same = (o32.dtype == np.float32 and o32.shape == () and
                (o32.tobytes() == np.float32(ref).tobytes() or
                 (math.isnan(float(o32)) and math.isnan(float(ref)))))
        if not same:
          V('value', f'compute(){"[" + name + "]" if name else ""} = {o32.tolist()} but the '
            f'statistic of the {len(since)} values since the last reset is {float(ref)}',
            hist, observed=o32.tolist(), expected=float(ref))
          good = False
      else:
        mean, sem, std = ref
        om, osem, ostd = obs
        okm = (om == 0.0 or math.isnan(om)) if mean is None else MM.close(om, mean)
        if not (okm and MM.close(osem, sem) and MM.close(ostd, std)):
          V('value', f'Welford compute(){"[" + name + "]" if name else ""} = (mean {om}, sem '
            f'{osem}, std {ostd}); NumPy on the {len(since)} values since the last reset: '
            f'({mean}, {sem}, {std})', hist, observed=[om, osem, ostd],
            expected=[mean, sem, std])
          good = False
    return (c, after) if good else None

  # ---- BFS -----------------------------------------------------------------
  root = MM.make_metric(variant)
  res['evals'] += 1
  c0 = check_compute(root, (), ())
  if c0 is None:
    return
  static0 = c0[1][0]
  key0 = (c0[1], MM.ref_summary(variant, ()), 0, 0)
  seen = {key0}
  res['states'] += 1
  queue = deque([()])
  by_stream = {}   # values since reset (ordered) -> first observation: across compositions
  sampled = False
  while queue:
    hist = queue.popleft()
    used, resets, since = summarize(hist)
    if used == 0:
      ops = MM.batches(order, N, first=v0, length=l1)
    else:
      ops = MM.batches(order, N - used)
    if resets < R:  # reset at every position, including before the first batch
      ops = ops + ['R']
    for op in ops:
      h2 = hist + (op,)
      m = build(hist)
      res['evals'] += 1
      res['transitions'] += 1
      try:
        r = _apply(m, variant, op)
      except Exception as e:  # noqa: every op is a documented call
        V('raises', f'{"reset" if op == "R" else "update"} raised {type(e).__name__}: '
          f'{str(e)[:200]}', h2)
        continue
      if r is not None:
        V('return', 'update/reset are documented as in-place (return None)', h2)
      u2, r2, since2 = summarize(h2)
      c = check_compute(m, h2, since2)
      if c is None:
        continue
      c, ms = c
      if ms[0] != static0:
        V('static-changed', 'non-Variable attributes / structure of the metric changed', h2)
        continue
      # independence of the split: same stream since reset => same compute()
      prev = by_stream.get(since2)
      if prev is None:
        by_stream[since2] = (c, h2)
      else:
        _same_across(V, variant, prev, c, h2)
      core.outcome(res, f'{variant}:n_since_reset={len(since2)}:'
                   f'{"after-reset" if r2 else "no-reset"}:'
                   f'{_fmt(c)}')
      key = (ms, MM.ref_summary(variant, since2), u2, r2)
      if key in seen:
        continue
      seen.add(key)
      res['states'] += 1
      n_upd = sum(1 for o in h2 if o != 'R')
      if n_upd >= 2 or ('R' in h2 and h2[0] != 'R'):
        res['nontrivial'].append(core.h([cfg, v0, l1, [list(o) if o != 'R' else o for o in h2]]))
      if not sampled and n_upd >= 2 and 'R' in h2:
        sampled = True
        res['samples'].append(dict(unit, ops=[o if o == 'R' else list(o) for o in h2],
                                   compute=_fmt(c), values_since_reset=list(since2)))
      queue.append(h2)


def _fmt(c):
  out = []
  for k in sorted(c):
    if k == '__keys__':
      continue
    v = c[k]
    if isinstance(v, tuple):
      out.append(k + '(' + ','.join(f'{x:.4g}' for x in v) + ')')
    else:
      out.append(k + f'{float(v):.4g}')
  return ' '.join(out)


def _same_across(V, variant, prev, c, h2):
  c1, h1 = prev
  for name in c:
    if name == '__keys__':
      continue
    a, b = c1[name], c[name]
    if isinstance(a, tuple):
      # both are within RTOL of the same float64 reference => within 2*RTOL of each other
      same = all((math.isnan(x) and math.isnan(y)) or
                 abs(x - y) <= 2 * MM.RTOL * max(abs(x), abs(y)) + 2 * MM.ATOL0
                 for x, y in zip(a, b))
    else:
      same = np.asarray(a).tobytes() == np.asarray(b).tobytes() or \
        (math.isnan(float(a)) and math.isnan(float(b)))
    if not same:
      V('split-dependent', f'the same values since reset give {a} when fed as '
        f'{[o if o == "R" else list(o) for o in h1]} and {b} when fed as the ops of this case',
        h2, observed=repr(b), expected=repr(a))


# ---------------------------------------------------------------------------
# mixed precision: dtype of parameters / updates differ


MIXED_TX = ['momentum-f32acc', 'adam-f32mu', 'sgd', 'trace-f32']


def _mixed_tx(name):
  import optax
  import jax.numpy as jnp
  if name == 'momentum-f32acc':
    return optax.sgd(0.5, momentum=0.5, accumulator_dtype=jnp.float32)
  if name == 'adam-f32mu':
    return optax.adam(0.125, mu_dtype=jnp.float32)
  if name == 'trace-f32':
    return optax.chain(optax.trace(decay=0.5, accumulator_dtype=jnp.float32), optax.scale(-0.5))
  return optax.sgd(0.5)


def _mixed(res, unit):
  """bf16 / f16 parameters: every wrapper must produce the dtypes and bits of the hand loop."""
  import itertools
  import jax
  import jax.numpy as jnp
  import numpy as np
  import optax
  from flax import nnx
  from flax.training import train_state

  def sig(t):
    return [(jax.tree_util.keystr(p), str(np.asarray(a).dtype), np.asarray(a).shape,
             np.asarray(a).tobytes()) for p, a in jax.tree_util.tree_leaves_with_path(t)]

  for pdt in (jnp.bfloat16, jnp.float16):
    p0 = {'w': jnp.asarray([[1.0, -2.0], [0.5, 3.0]], pdt), 'b': jnp.asarray([0.25, -1.0], pdt)}
    pool = [jax.tree.map(lambda a, k=k: (jnp.ones_like(a) * (k + 1) * 0.5).astype(pdt), p0)
            for k in range(2)]
    for hist in itertools.chain(itertools.product(range(2), repeat=2),
                                itertools.product(range(2), repeat=3)):
      key = f"mixed|{unit['tx']}|{jnp.dtype(pdt).name}|hist={list(hist)}"
      case = dict(tx=unit['tx'], dtype=jnp.dtype(pdt).name, history=list(hist))
      tx = _mixed_tx(unit['tx'])
      # oracle
      p, s_ = p0, tx.init(p0)
      for gi in hist:
        u, s_ = tx.update(pool[gi], s_, p)
        p = optax.apply_updates(p, u)
      # nnx.Optimizer
      class M(nnx.Module):
        def __init__(self):
          self.w = nnx.Param(p0['w'])
          self.b = nnx.Param(p0['b'])
          self.stat = nnx.BatchStat(jnp.asarray([7.0], pdt))
      res['evals'] += 2
      res['transitions'] += len(hist)
      try:
        m = M()
        opt = nnx.Optimizer(m, tx)
        for gi in hist:
          opt.update(nnx.State({'w': nnx.VariableState(nnx.Param, pool[gi]['w']),
                                'b': nnx.VariableState(nnx.Param, pool[gi]['b'])}))
        got = {'w': m.w.value, 'b': m.b.value}
        if sig(got) != sig(p):
          core.violation(res, f'mixed-params|nnx.Optimizer|{key}',
                         'parameters after the updates differ from the hand-written optax loop '
                         '(dtype or bits)', case,
                         observed=[(a, b) for a, b, _, _ in sig(got)],
                         expected=[(a, b) for a, b, _, _ in sig(p)])
        if str(np.asarray(m.stat.value).dtype) != jnp.dtype(pdt).name or \
           float(m.stat.value[0]) != 7.0:
          core.violation(res, f'mixed-outside-wrt|nnx.Optimizer|{key}',
                         'a Variable outside wrt changed', case)
        if int(opt.step.value) != len(hist):
          core.violation(res, f'mixed-step|nnx.Optimizer|{key}', 'step counter', case)
      except Exception as e:  # noqa
        core.violation(res, f'mixed-raises|nnx.Optimizer|{key}',
                       f'{type(e).__name__}: {str(e)[:200]}', case)
      # flax.training TrainState
      try:
        ts = train_state.TrainState.create(apply_fn=None, params=p0, tx=tx)
        for gi in hist:
          ts = ts.apply_gradients(grads=pool[gi])
        if sig(ts.params) != sig(p):
          core.violation(res, f'mixed-params|TrainState|{key}',
                         'parameters differ from the hand-written optax loop (dtype or bits)',
                         case)
        if sig(ts.opt_state) != sig(s_):
          core.violation(res, f'mixed-opt_state|TrainState|{key}', 'optimizer state differs', case)
      except Exception as e:  # noqa
        core.violation(res, f'mixed-raises|TrainState|{key}',
                       f'{type(e).__name__}: {str(e)[:200]}', case)
      core.outcome(res, 'mixed:ok')
      res['nontrivial'].append(core.h(key))
  res['states'] += 1
  res['samples'].append(dict(part='mixed', tx=unit['tx'], dtypes=['bfloat16', 'float16']))
